package main

import (
	"bufio"
	"crypto/sha1"
	"encoding/json"
	"flag"
	"fmt"
	"go/token"
	"os"
	"path/filepath"
	"runtime/debug"
	"sort"
	"strconv"
	"strings"
	"time"
)

type propDef struct {
	id          string
	explanation string   // what is decided (clause) and what is not
	notDecided  []string // behavioural clauses left undecided
	assumptions []string
	rules       []func(*Ctx)
}

var props = map[string]*propDef{}

var selfTestResult map[string]any

func register(p *propDef) { props[p.id] = p }

type knownFinding struct {
	prop, key, text string
}

func readKnown(path string) (known []knownFinding, fixed []string) {
	f, err := os.Open(path)
	if err != nil {
		return nil, nil
	}
	defer f.Close()
	sc := bufio.NewScanner(f)
	sc.Buffer(make([]byte, 1<<20), 1<<20)
	for sc.Scan() {
		line := strings.TrimSpace(sc.Text())
		if line == "" || strings.HasPrefix(line, "#") {
			continue
		}
		switch {
		case strings.HasPrefix(line, "known:"):
			rest := strings.Fields(strings.TrimPrefix(line, "known:"))
			kf := knownFinding{}
			var text []string
			for _, w := range rest {
				switch {
				case strings.HasPrefix(w, "property=") && kf.prop == "":
					kf.prop = strings.TrimPrefix(w, "property=")
				case strings.HasPrefix(w, "key=") && kf.key == "":
					kf.key = strings.TrimPrefix(w, "key=")
				default:
					text = append(text, w)
				}
			}
			kf.text = strings.Join(text, " ")
			if kf.prop == "" || kf.key == "" {
				fatalf("KNOWN_FINDINGS: malformed line %q", line)
			}
			known = append(known, kf)
		case strings.HasPrefix(line, "fixed:"):
			fixed = append(fixed, line)
		default:
			fatalf("KNOWN_FINDINGS: unrecognised line %q", line)
		}
	}
	return
}

func main() {
	var (
		pid     = flag.String("p", "", "property id (C01..C19)")
		tier    = flag.String("tier", "quick", "quick|thorough")
		repo    = flag.String("repo", "/repo", "repository working tree to analyse")
		verif   = flag.String("verif", "", "verif directory (default: parent of the binary's dir)")
		explain = flag.String("explain", "", "replay file: re-derive that single obligation")
		noEv    = flag.Bool("no-evidence", false, "do not write evidence (used by self tests on scratch copies)")
		list    = flag.Bool("list", false, "print every obligation")
		genAnc  = flag.Bool("gen-anchors", false, "record the fingerprints of the functions declared in -repo (reference tree) and exit")
	)
	flag.Parse()
	if *verif == "" {
		exe, _ := os.Executable()
		*verif = filepath.Dir(filepath.Dir(exe))
	}
	if t := os.Getenv("VERIF_TIER"); t != "" && !flagSet("tier") {
		*tier = t
	}
	seed := 0
	if s := os.Getenv("VERIF_SEED"); s != "" {
		seed, _ = strconv.Atoi(s)
	}
	anchorsPath = filepath.Join(*verif, "anchors.json")
	if *genAnc {
		anchorsPath = ""
		genAnchors(load(*repo, "", "quick"), filepath.Join(*verif, "anchors.json"))
		os.Exit(0)
	}
	explainKey := ""
	if *explain != "" {
		b, err := os.ReadFile(*explain)
		if err != nil {
			fmt.Println("CHECKER-ERROR cannot read replay file:", err)
			os.Exit(2)
		}
		var r struct{ Property, Key string }
		if json.Unmarshal(b, &r) != nil || r.Key == "" {
			fmt.Println("CHECKER-ERROR malformed replay file")
			os.Exit(2)
		}
		if *pid == "" {
			*pid = r.Property
		}
		explainKey = r.Key
		*noEv = true
	}
	p := props[*pid]
	if p == nil {
		fmt.Printf("CHECKER-ERROR unknown property %q\n", *pid)
		os.Exit(2)
	}
	os.Exit(run(p, *tier, *repo, *verif, seed, explainKey, *noEv, *list))
}

func flagSet(name string) bool {
	set := false
	flag.Visit(func(f *flag.Flag) {
		if f.Name == name {
			set = true
		}
	})
	return set
}

func run(p *propDef, tier, repo, verif string, seed int, explainKey string, noEv, list bool) (code int) {
	start := time.Now()
	defer func() {
		if r := recover(); r != nil {
			if ce, ok := r.(checkerError); ok {
				fmt.Printf("CHECKER-ERROR property=%s %s\n", p.id, ce.msg)
			} else {
				fmt.Printf("CHECKER-ERROR property=%s analysis panic: %v\n%s\n", p.id, r, debug.Stack())
			}
			code = 2
		}
	}()
	repo, _ = filepath.Abs(repo)
	archs := []string{""}
	if tier == "thorough" {
		archs = []string{"", "386", "arm64"}
	}
	var c *Ctx
	var ruleErrors []string
	var allObs []Ob
	seenKey := map[string]bool{}
	var perArch []string
	for _, a := range archs {
		cc := load(repo, a, tier)
		for _, r := range p.rules {
			// a rule that cannot be decided (missing anchor, inadmissible shape) must not hide what other rules found
			func() {
				defer func() {
					if rec := recover(); rec != nil {
						if ce, ok := rec.(checkerError); ok {
							// the construct a rule reads has changed so that the rule cannot be decided: reported as a
							// failed obligation (VIOLATION line, exit 1), never passed over; the text says it is undecided
							key := ce.msg
							if i := strings.IndexAny(key, ":("); i > 0 {
								key = key[:i]
							}
							key = strings.Join(strings.Fields(key), "-")
							if len(key) > 60 {
								key = key[:60]
							}
							cc.fail(p.id+".undecided", p.id+".undecided:"+key, token.NoPos, "", "UNDECIDED: "+ce.msg,
								"a rule of this property found its anchor but not in a shape it can decide; the change is reported rather than passed over (exit 1), and the text above says what the rule expected")
							return
						}
						panic(rec)
					}
				}()
				r(cc)
			}()
		}
		n := 0
		for _, o := range cc.obs {
			k := o.Key
			if seenKey[k] {
				// same obligation on another architecture: keep the worst status
				if o.Status == Fail {
					for i := range allObs {
						if allObs[i].Key == k && allObs[i].Status != Fail {
							allObs[i] = o
						}
					}
				}
				continue
			}
			seenKey[k] = true
			allObs = append(allObs, o)
			n++
		}
		an := a
		if an == "" {
			an = "default(amd64)"
		}
		perArch = append(perArch, fmt.Sprintf("%s: %d obligations (%d new)", an, len(cc.obs), n))
		if c == nil {
			c = cc
			runControls(p, verif, c)
		} else {
			for f := range cc.analysed {
				c.analysed[f] = true
			}
		}
	}
	if len(allObs) == 0 && len(ruleErrors) == 0 {
		fatalf("property %s produced zero obligations", p.id)
	}
	// duplicate keys inside one load are a checker bug (keys must identify constructs)
	known, fixed := readKnown(filepath.Join(verif, "KNOWN_FINDINGS"))
	knownUsed := map[int]bool{}
	violations, discharged, deviations, knownHits := 0, 0, 0, 0
	var vioLines, knownLines []string
	vdir := filepath.Join(verif, "evidence", "violations")
	for i := range allObs {
		o := &allObs[i]
		if explainKey != "" && o.Key != explainKey {
			continue
		}
		switch o.Status {
		case Pass:
			discharged++
		case Deviation:
			deviations++
		case Fail:
			matched := false
			for ki, k := range known {
				if k.prop == p.id && k.key == o.Key {
					matched = true
					knownUsed[ki] = true
					knownHits++
					o.StatusText = "VIOLATED (known finding)"
					knownLines = append(knownLines, fmt.Sprintf("KNOWN-FINDING: property=%s key=%s %s [%s] %s", p.id, o.Key, o.Pos, o.Detail, k.text))
				}
			}
			if matched {
				continue
			}
			violations++
			h := sha1.Sum([]byte(o.Key))
			rp := filepath.Join(vdir, fmt.Sprintf("%s-%x.json", p.id, h[:6]))
			if !noEv || explainKey != "" {
				os.MkdirAll(vdir, 0o755)
				b, _ := json.MarshalIndent(map[string]any{"property": p.id, "key": o.Key, "rule": o.Rule, "pos": o.Pos,
					"function": o.Func, "detail": o.Detail, "why_necessary": o.Why,
					"replay": fmt.Sprintf("bin/vcheck -p %s -explain %s", p.id, rp)}, "", " ")
				if explainKey == "" {
					os.WriteFile(rp, b, 0o644)
				}
			}
			vioLines = append(vioLines, fmt.Sprintf("VIOLATION property=%s replay=%s\n  rule=%s key=%s\n  at %s in %s\n  %s\n  why: %s", p.id, rp, o.Rule, o.Key, o.Pos, o.Func, o.Detail, o.Why))
		}
	}
	sort.Strings(knownLines)
	for _, l := range knownLines {
		fmt.Println(l)
	}
	// a known finding that no longer matches any violated obligation is stale: say so (not an error: the defect may be fixed)
	for ki, k := range known {
		if k.prop == p.id && !knownUsed[ki] && explainKey == "" {
			fmt.Printf("NOTE: known finding no longer reproduced (stale entry): property=%s key=%s\n", k.prop, k.key)
		}
	}
	for _, l := range vioLines {
		fmt.Println(l)
	}
	if list || explainKey != "" {
		for _, o := range allObs {
			if explainKey != "" && o.Key != explainKey {
				continue
			}
			fmt.Printf("%-22s %-20s %s  %s — %s\n", o.StatusText, o.Rule, o.Pos, o.Key, o.Detail)
		}
	}
	wall := time.Since(start).Seconds()
	fmt.Printf("property=%s tier=%s obligations=%d discharged=%d known=%d deviations(unarmed)=%d violations=%d functions=%d wall=%.1fs\n",
		p.id, tier, len(allObs), discharged, knownHits, deviations, violations, len(c.analysed), wall)
	if !noEv {
		if tier == "thorough" {
			selfTestResult = selfTest(p.id, repo, verif)
			wall = time.Since(start).Seconds()
		}
		writeEvidence(p, c, allObs, tier, seed, verif, wall, violations, discharged, knownHits, deviations, fixed, perArch)
	}
	if explainKey != "" {
		found := false
		for _, o := range allObs {
			if o.Key == explainKey {
				found = true
			}
		}
		if !found {
			fmt.Printf("NOTE: obligation %s no longer exists in the current tree\n", explainKey)
		}
	}
	for _, e := range uniq(ruleErrors) {
		fmt.Printf("CHECKER-ERROR property=%s %s\n", p.id, e)
	}
	if violations > 0 {
		return 1
	}
	if len(ruleErrors) > 0 {
		return 2
	}
	return 0
}

func writeEvidence(p *propDef, c *Ctx, obs []Ob, tier string, seed int, verif string, wall float64, violations, discharged, knownHits, deviations int, fixed, perArch []string) {
	rules := map[string]map[string]int{}
	var ruleOrder []string
	for _, o := range obs {
		m := rules[o.Rule]
		if m == nil {
			m = map[string]int{}
			rules[o.Rule] = m
			ruleOrder = append(ruleOrder, o.Rule)
		}
		m["instances"]++
		m[o.StatusText]++
	}
	nontriv := map[string]bool{}
	for _, o := range obs {
		if o.Nontrivial {
			nontriv[o.Key] = true
		}
	}
	// samples: every non-pass obligation plus up to 3 passes per rule
	var samples []Ob
	perRule := map[string]int{}
	for _, o := range obs {
		if o.Status != Pass {
			samples = append(samples, o)
		} else if perRule[o.Rule] < 3 {
			perRule[o.Rule]++
			samples = append(samples, o)
		}
	}
	var fns []string
	for f := range c.analysed {
		fns = append(fns, f)
	}
	sort.Strings(fns)
	var fixedForProp []string
	for _, f := range fixed {
		if strings.Contains(f, "property="+p.id+" ") {
			fixedForProp = append(fixedForProp, f)
		}
	}
	cov := map[string]any{
		"explanation":            p.explanation,
		"obligations":            len(obs),
		"discharged":             discharged,
		"known_findings_matched": knownHits,
		"deviations_unarmed":     deviations,
		"evaluations":            len(obs),
		"distinct_nontrivial":    len(nontriv),
		"rule":                   "one obligation per (rule, function, construct) instance found in /repo's current source; distinct = distinct keys; non-trivial = discharge needed a decision table, a path set or a dataflow fact rather than mere presence",
		"rules":                  rules,
		"rule_order":             ruleOrder,
		"samples":                samples,
		"functions_analysed":     fns,
		"not_decided":            p.notDecided,
		"loads":                  perArch,
		"notes":                  c.notes,
		"positive_controls":      c.controls,
		"fixed_entries":          fixedForProp,
		"checker_cmd":            fmt.Sprintf("bin/vcheck -p %s -tier %s", p.id, tier),
		"trusted_base":           []string{"go/types and go/ssa (golang.org/x/tools v0.50.0)", "Go standard library semantics", "this checker's rule tables (DESIGN.md §4)"},
		"exhaustive":             true,
	}
	if selfTestResult != nil {
		cov["selftest"] = selfTestResult
	}
	ev := map[string]any{
		"property_id": p.id,
		"tier":        tier,
		"seed":        seed,
		"level":       "other",
		"coverage":    cov,
		"assumptions": append([]string{"verdict is about the structural clause stated in coverage.explanation, not about the runtime behaviour as a whole"}, p.assumptions...),
		"wall_s":      wall,
		"violations":  violations,
	}
	b, err := json.MarshalIndent(ev, "", " ")
	if err != nil {
		fatalf("evidence: %v", err)
	}
	os.MkdirAll(filepath.Join(verif, "evidence"), 0o755)
	if err := os.WriteFile(filepath.Join(verif, "evidence", p.id+".json"), b, 0o644); err != nil {
		fatalf("evidence: %v", err)
	}
}
