package main

import (
	"fmt"
	"go/constant"
	"go/token"
	"go/types"
	"math"
	"regexp"
	"sort"
	"strings"

	"golang.org/x/tools/go/ssa"
)

// DTX — decision-table extraction by abstract exploration of a loop-free SSA region.
//
// The rule names *atoms* by their access path as rendered from SSA (e.g. "c.fillRule", "ae.windCount",
// "getPolyType(ae)"). For one assignment of representative values to the atoms the explorer walks the CFG from
// the region entry: every instruction is evaluated over {known int/bool/float, unknown}; a branch whose
// condition is known is followed, a branch on an unknown condition forks and is recorded as an *opaque*
// condition of the path. Nothing of the library is executed: this is abstract interpretation over a finite,
// code-derived partition (representatives cover every cell induced by the constants the code compares with).

type akind int

const (
	aUnknown akind = iota
	aInt
	aBool
	aFloat
	aNil
	aPtr // a non-nil pointer with identity i
)

type absVal struct {
	k akind
	i int64
	b bool
	f float64
}

func (a absVal) String() string {
	switch a.k {
	case aInt:
		return fmt.Sprint(a.i)
	case aBool:
		return fmt.Sprint(a.b)
	case aFloat:
		return fmt.Sprint(a.f)
	case aNil:
		return "nil"
	}
	return "?"
}

func intVal(i int64) absVal     { return absVal{k: aInt, i: i} }
func boolVal(b bool) absVal     { return absVal{k: aBool, b: b} }
func floatVal(f float64) absVal { return absVal{k: aFloat, f: f} }

type symVal struct {
	abs   absVal
	expr  string // rendered with memory locations by name (loads print the location)
	vexpr string // value-based rendering: a forwarded load prints what was stored there ("" = same as expr)
}

func (s symVal) v() string {
	if s.vexpr != "" {
		return s.vexpr
	}
	return s.expr
}

type condTaken struct {
	expr  string
	taken bool
	val   ssa.Value
}

type callRec struct {
	callee string
	args   []symVal
	instr  ssa.CallInstruction
}

type storeRec struct {
	addr string
	val  symVal
	pos  token.Pos
}

type pathOutcome struct {
	conds    []condTaken
	calls    []callRec
	stores   []storeRec
	seq      []int             // program order of effects: +k = calls[k-1], -k = stores[k-1]
	backedge map[string]symVal // for end=="loop": header phi name -> value carried by the back edge
	ret      []symVal
	end      string // return | stop | panic | loop
	endPos   token.Pos
}

func (p *pathOutcome) called(name string) bool {
	for _, c := range p.calls {
		if c.callee == name {
			return true
		}
	}
	return false
}

func (p *pathOutcome) condString() string {
	var s []string
	for _, c := range p.conds {
		if c.taken {
			s = append(s, c.expr)
		} else {
			s = append(s, "!("+c.expr+")")
		}
	}
	return strings.Join(s, " && ")
}

type explorer struct {
	c        *Ctx
	f        *ssa.Function
	atoms    map[string]absVal
	atomFn   func(expr string) (absVal, bool) // pattern atoms (consulted after the exact map)
	canon    map[string]string                // actual parameter name -> canonical role name used by the rule (renaming a parameter must not matter)
	stop     func(*ssa.BasicBlock) bool
	raw      bool // do not rewrite inlined helper bodies into call form (used while the helper patterns are derived)
	pureMemo bool // a condition that reads no memory and calls nothing is decided once per path, by its rendering
	inline   map[string]bool // recorded loop-free functions this rule reads inline as well (by reference name)
	maxPaths int
	out      []*pathOutcome
	overflow bool
}

type exState struct {
	env     map[ssa.Value]symVal
	onPath  map[*ssa.BasicBlock]bool
	mem     map[string]symVal  // store-to-load forwarding: location -> last stored value on this path
	dead    map[string]bool    // locations written on this path whose value is no longer known (atoms do not apply)
	decided map[ssa.Value]bool // opaque conditions already decided on this path (the same SSA value is the same runtime value)
	decExpr map[string]bool    // pureMemo: memory-free conditions decided on this path, by rendering
	po      pathOutcome
	frames  []exFrame              // inlined helper calls in progress (innermost last)
	resume  *exFrame               // set when an inlined helper returned: continue its caller after the call
	tuples  map[ssa.Value][]symVal // results of inlined multi-result helpers
	spill   map[*ssa.Alloc]string  // inlined helpers: the stack copy of a struct parameter goes by the argument's name
}

// exFrame: where to continue in the caller when an inlined helper returns.
type exFrame struct {
	b, pred *ssa.BasicBlock
	idx     int
	call    ssa.Value
}

func (st *exState) clone() *exState {
	n := &exState{env: make(map[ssa.Value]symVal, len(st.env)), onPath: make(map[*ssa.BasicBlock]bool, len(st.onPath)), mem: map[string]symVal{}, dead: map[string]bool{}, decided: map[ssa.Value]bool{}}
	if st.decExpr != nil {
		n.decExpr = map[string]bool{}
		for k, v := range st.decExpr {
			n.decExpr[k] = v
		}
	}
	for k, v := range st.decided {
		n.decided[k] = v
	}
	for k, v := range st.env {
		n.env[k] = v
	}
	for k, v := range st.mem {
		n.mem[k] = v
	}
	for k, v := range st.dead {
		n.dead[k] = v
	}
	for k, v := range st.onPath {
		n.onPath[k] = v
	}
	n.frames = append([]exFrame(nil), st.frames...)
	if st.resume != nil {
		r := *st.resume
		n.resume = &r
	}
	if st.tuples != nil {
		n.tuples = map[ssa.Value][]symVal{}
		for k, v := range st.tuples {
			n.tuples[k] = v
		}
	}
	n.po = pathOutcome{conds: append([]condTaken(nil), st.po.conds...), calls: append([]callRec(nil), st.po.calls...), stores: append([]storeRec(nil), st.po.stores...), seq: append([]int(nil), st.po.seq...)}
	if st.spill != nil {
		n.spill = make(map[*ssa.Alloc]string, len(st.spill))
		for k, v := range st.spill {
			n.spill[k] = v
		}
	}
	return n
}

// explore walks from block `from` (nil = entry).
func (e *explorer) explore(from *ssa.BasicBlock) []*pathOutcome {
	if e.maxPaths == 0 {
		e.maxPaths = 20000
	}
	if from == nil {
		from = e.f.Blocks[0]
	}
	if !e.raw && len(e.atoms) > 0 {
		// atoms given on the inlined form of a helper also hold for its call form
		alias := map[string]absVal{}
		for k, v := range e.atoms {
			alias[k] = v
		}
		for k, v := range e.atoms {
			if d := e.c.deinline(k); d != k {
				if _, dup := alias[d]; !dup {
					alias[d] = v
				}
			}
		}
		e.atoms = alias
	}
	st := &exState{env: map[ssa.Value]symVal{}, onPath: map[*ssa.BasicBlock]bool{}, mem: map[string]symVal{}, dead: map[string]bool{}, decided: map[ssa.Value]bool{}}
	e.walk(st, from, nil)
	return e.out
}

func (e *explorer) finish(st *exState, end string, pos token.Pos) {
	st.po.end = end
	st.po.endPos = pos
	po := st.po
	e.out = append(e.out, &po)
	if len(e.out) > e.maxPaths {
		e.overflow = true
	}
}

func (e *explorer) walk(st *exState, b, pred *ssa.BasicBlock) {
	for {
		if e.overflow {
			return
		}
		start := 0
		resumed := false
		if st.resume != nil && st.resume.b == b {
			// back in the caller of an inlined helper: continue after the call instruction
			start, pred = st.resume.idx, st.resume.pred
			st.resume = nil
			resumed = true
		}
		if !resumed && st.onPath[b] {
			// loop re-entry: summarise what the back edge feeds into the header phis
			if pred != nil {
				st.po.backedge = map[string]symVal{}
				idx := -1
				for i, p := range b.Preds {
					if p == pred {
						idx = i
					}
				}
				for _, in := range b.Instrs {
					phi, ok := in.(*ssa.Phi)
					if !ok {
						break
					}
					name := phi.Comment
					if name == "" {
						name = phi.Name()
					}
					st.po.backedge[name] = e.val(st, phi.Edges[idx])
				}
			}
			e.finish(st, "loop", token.NoPos)
			return
		}
		if !resumed && e.stop != nil && pred != nil && len(st.frames) == 0 && e.stop(b) {
			e.finish(st, "stop", token.NoPos)
			return
		}
		st.onPath[b] = true
		// phis first, simultaneously
		if pred != nil && !resumed {
			idx := -1
			for i, p := range b.Preds {
				if p == pred {
					idx = i
				}
			}
			upd := map[ssa.Value]symVal{}
			for _, in := range b.Instrs {
				phi, ok := in.(*ssa.Phi)
				if !ok {
					break
				}
				upd[phi] = e.val(st, phi.Edges[idx])
			}
			for k, v := range upd {
				st.env[k] = v
			}
		}
		var next *ssa.BasicBlock
		inlined := false
		for ii := start; ii < len(b.Instrs) && !inlined; ii++ {
			switch in := b.Instrs[ii].(type) {
			case *ssa.Phi:
				if pred == nil {
					st.env[in] = symVal{expr: in.Comment}
				}
			case *ssa.If:
				cv := e.val(st, in.Cond)
				if cv.abs.k == aBool {
					if cv.abs.b {
						next = b.Succs[0]
					} else {
						next = b.Succs[1]
					}
				} else if d, ok := st.decided[in.Cond]; ok {
					if d {
						next = b.Succs[0]
					} else {
						next = b.Succs[1]
					}
				} else if d, ok := st.decExpr["l:"+cv.expr]; ok && localLoad(in.Cond) {
					// a field of a local struct read again with no store to it in between
					if d {
						next = b.Succs[0]
					} else {
						next = b.Succs[1]
					}
				} else if d, ok := st.decExpr["v:"+cv.vexpr]; ok && cv.vexpr != "" && fwdLoad(in.Cond) {
					// the condition is a load forwarded from a store on this path: the same stored value was already
					// decided (a local struct's field read twice)
					if d {
						next = b.Succs[0]
					} else {
						next = b.Succs[1]
					}
				} else if d, ok := st.decExpr[idKey(in.Cond)]; ok && idKey(in.Cond) != "" {
					// the same comparison of the same SSA values written twice (go/ssa does not merge them)
					if d {
						next = b.Succs[0]
					} else {
						next = b.Succs[1]
					}
				} else if d, ok := st.decExpr[cv.expr]; ok && e.pureMemo && pureCond(in.Cond, 0) {
					if d {
						next = b.Succs[0]
					} else {
						next = b.Succs[1]
					}
				} else {
					// fork
					pm := e.pureMemo && pureCond(in.Cond, 0)
					if pm && st.decExpr == nil {
						st.decExpr = map[string]bool{}
					}
					fw := cv.vexpr != "" && fwdLoad(in.Cond)
					ll := localLoad(in.Cond)
					if (fw || ll) && st.decExpr == nil {
						st.decExpr = map[string]bool{}
					}
					lkey := "l:" + strings.TrimLeft(cv.expr, "!")
					if ll {
						neg := strings.Count(cv.expr[:len(cv.expr)-len(strings.TrimLeft(cv.expr, "!"))], "!")%2 == 1
						_ = neg
					}
					st.decided[in.Cond] = false
					ik := idKey(in.Cond)
					if ik != "" {
						if st.decExpr == nil {
							st.decExpr = map[string]bool{}
						}
						st.decExpr[ik] = false
					}
					if pm {
						st.decExpr[cv.expr] = false
					}
					if fw {
						st.decExpr["v:"+cv.vexpr] = false
					}
					if ll {
						st.decExpr["l:"+cv.expr] = false
					}
					st2 := st.clone()
					st.decided[in.Cond] = true
					if ik != "" {
						st.decExpr[ik] = true
					}
					if pm {
						st.decExpr[cv.expr] = true
					}
					if fw {
						st.decExpr["v:"+cv.vexpr] = true
					}
					if ll {
						st.decExpr["l:"+cv.expr] = true
					}
					_ = lkey
					ce, neg := cv.expr, false
					for strings.HasPrefix(ce, "!") { // a negated condition is the condition, not taken
						ce, neg = ce[1:], !neg
					}
					st2.po.conds = append(st2.po.conds, condTaken{ce, neg, in.Cond})
					e.walk(st2, b.Succs[1], b)
					st.po.conds = append(st.po.conds, condTaken{ce, !neg, in.Cond})
					next = b.Succs[0]
				}
			case *ssa.Jump:
				next = b.Succs[0]
			case *ssa.Return:
				if n := len(st.frames); n > 0 {
					// an inlined helper returns: bind its result(s) and continue in the caller
					fr := st.frames[n-1]
					st.frames = st.frames[:n-1]
					var rs []symVal
					for _, r := range in.Results {
						rs = append(rs, e.val(st, r))
					}
					if fr.call != nil {
						switch len(rs) {
						case 0:
						case 1:
							st.env[fr.call] = rs[0]
						default:
							if st.tuples == nil {
								st.tuples = map[ssa.Value][]symVal{}
							}
							st.tuples[fr.call] = rs
						}
					}
					// the helper's blocks may be entered again by a later call on this path
					for _, hb := range in.Parent().Blocks {
						delete(st.onPath, hb)
					}
					st.resume = &exFrame{b: fr.b, pred: fr.pred, idx: fr.idx}
					next = fr.b
					inlined = true
					continue
				}
				for _, r := range in.Results {
					st.po.ret = append(st.po.ret, e.val(st, r))
				}
				e.finish(st, "return", in.Pos())
				return
			case *ssa.Panic:
				e.finish(st, "panic", in.Pos())
				return
			case *ssa.Store:
				sr := storeRec{addr: e.addrExpr(st, in.Addr), val: e.val(st, in.Val), pos: in.Pos()}
				st.po.stores = append(st.po.stores, sr)
				st.po.seq = append(st.po.seq, -len(st.po.stores))
				st.mem[sr.addr] = sr.val
				delete(st.dead, sr.addr)
				if st.decExpr != nil {
					delete(st.decExpr, "l:"+sr.addr)
					delete(st.decExpr, "l:!"+sr.addr)
				}
			case ssa.CallInstruction:
				if g := in.Common().StaticCallee(); g != nil && len(st.frames) < 2 && (e.c.freshHelper(g) || (e.inline != nil && e.inline[calleeName(e.c, in)] && g.Blocks != nil && loopFree(g))) {
					// a helper the reference tree does not know (code extracted by the change under analysis) is read
					// as if it were still inline
					for k, p := range g.Params {
						if k < len(in.Common().Args) {
							st.env[p] = e.val(st, in.Common().Args[k])
						}
					}
					// a struct parameter is copied to the stack on entry; conditions on its fields are rendered with
					// the ARGUMENT's name, so that liesOn(p1, a, b) and liesOn(p2, a, b) read differently
					for _, ins := range g.Blocks[0].Instrs {
						sp, ok := ins.(*ssa.Store)
						if !ok {
							continue
						}
						al, ok1 := sp.Addr.(*ssa.Alloc)
						pp, ok2 := sp.Val.(*ssa.Parameter)
						if ok1 && ok2 {
							if ax := st.env[pp].expr; simpleLoc(ax) {
								if st.spill == nil {
									st.spill = map[*ssa.Alloc]string{}
								}
								st.spill[al] = ax
							}
						}
					}
					var cv ssa.Value
					if v, ok := in.(ssa.Value); ok {
						cv = v
					}
					st.frames = append(st.frames, exFrame{b: b, pred: pred, idx: ii + 1, call: cv})
					next = g.Blocks[0]
					inlined = true
					continue
				}
				cr := callRec{callee: calleeName(e.c, in), instr: in}
				if cr.callee == "" {
					cr.callee = "dyn:" + e.val(st, in.Common().Value).expr
				}
				for _, a := range in.Common().Args {
					cr.args = append(cr.args, e.val(st, a))
				}
				st.po.calls = append(st.po.calls, cr)
				st.po.seq = append(st.po.seq, len(st.po.calls))
				e.invalidate(st, in)
				if v, ok := in.(ssa.Value); ok {
					st.env[v] = e.evalCall(st, v.(*ssa.Call), cr)
				}
			default:
				if v, ok := in.(ssa.Value); ok {
					st.env[v] = e.eval(st, v)
				}
			}
		}
		if next == nil {
			e.finish(st, "stop", token.NoPos)
			return
		}
		if inlined && st.resume == nil {
			pred, b = nil, next // entering an inlined helper at its entry block
			continue
		}
		pred, b = b, next
	}
}

func (e *explorer) val(st *exState, v ssa.Value) symVal {
	switch v := v.(type) {
	case *ssa.Const:
		return constSym(v)
	case *ssa.Parameter:
		if s, ok := st.env[v]; ok { // parameter of an inlined helper: the argument
			return s
		}
		return e.atom(symVal{expr: e.cn(v.Name())})
	case *ssa.FreeVar:
		return e.atom(symVal{expr: e.cn(v.Name())})
	case *ssa.Global:
		return symVal{expr: v.Name()}
	case *ssa.Function:
		return symVal{expr: e.c.fname(v)}
	case *ssa.Builtin:
		return symVal{expr: v.Name()}
	}
	if s, ok := st.env[v]; ok {
		return s
	}
	// value defined in a block not on this path (dominating def outside the explored region): evaluate lazily
	s := e.eval(st, v)
	st.env[v] = s
	return s
}

func constSym(k *ssa.Const) symVal {
	if k.Value == nil {
		if k.IsNil() {
			return symVal{abs: absVal{k: aNil}, expr: "nil"}
		}
		if bt, ok := k.Type().Underlying().(*types.Basic); ok {
			switch {
			case bt.Info()&types.IsBoolean != 0:
				return symVal{abs: boolVal(false), expr: "false"}
			case bt.Info()&types.IsInteger != 0:
				return symVal{abs: intVal(0), expr: "0"}
			case bt.Info()&types.IsFloat != 0:
				return symVal{abs: floatVal(0), expr: "0"}
			}
		}
		return symVal{expr: "zero(" + k.Type().String() + ")"}
	}
	switch k.Value.Kind() {
	case constant.Bool:
		return symVal{abs: boolVal(constant.BoolVal(k.Value)), expr: k.Value.String()}
	case constant.Int:
		if bt, ok := k.Type().Underlying().(*types.Basic); ok && bt.Info()&types.IsFloat != 0 {
			f, _ := constant.Float64Val(k.Value)
			return symVal{abs: floatVal(f), expr: k.Value.ExactString()}
		}
		if i, ok := constant.Int64Val(k.Value); ok {
			return symVal{abs: intVal(i), expr: k.Value.ExactString()}
		}
	case constant.Float:
		f, _ := constant.Float64Val(k.Value)
		return symVal{abs: floatVal(f), expr: fmt.Sprint(f)}
	}
	return symVal{expr: k.Value.String()}
}

// atom substitutes the representative if expr is a declared atom.
func (e *explorer) atom(s symVal) symVal {
	if !e.raw {
		// an inlined copy of a one-expression helper reads like a call of it (isOpen(x) for x.localMin.IsOpen):
		// rules name the helper, the source may or may not
		if d := e.c.deinline(s.expr); d != s.expr {
			if s.vexpr == "" || s.vexpr == s.expr {
				s.vexpr = ""
			}
			s.expr = d
		}
	}
	if strings.HasPrefix(s.expr, "!") && s.abs.k == aUnknown {
		inner := e.atom(symVal{expr: s.expr[1:]})
		if inner.abs.k == aBool {
			s.abs = boolVal(!inner.abs.b)
			return s
		}
	}
	if a, ok := e.atoms[s.expr]; ok {
		s.abs = a
	} else if e.atomFn != nil {
		if a, ok := e.atomFn(s.expr); ok {
			s.abs = a
		}
	}
	return s
}

// invalidate forgets forwarded stores the callee may overwrite (by field name, via mod summaries); the
// locations become "dead": later loads are unknown, never the stale atom.
func (e *explorer) invalidate(st *exState, ci ssa.CallInstruction) {
	if len(st.mem) == 0 {
		return
	}
	var mods map[string]bool
	all := false
	if sc := ci.Common().StaticCallee(); sc != nil {
		if sc.Blocks == nil || !e.c.inRepo(sc) {
			return // external functions (math, decimal, fmt ...) do not write our fields; builtins handled as no-ops
		}
		mods = e.c.modSet(sc)
	} else if _, isBuiltin := ci.Common().Value.(*ssa.Builtin); isBuiltin {
		return
	} else {
		all = true
	}
	for loc := range st.mem {
		f := loc
		if i := strings.LastIndexAny(loc, ".]"); i >= 0 {
			f = loc[i+1:]
			if loc[i] == ']' {
				f = "[]"
			}
		}
		if all || mods[f] || mods["*"] {
			delete(st.mem, loc)
			st.dead[loc] = true
		}
	}
}

func fieldName(t types.Type, idx int) string {
	if p, ok := t.Underlying().(*types.Pointer); ok {
		t = p.Elem()
	}
	if st, ok := t.Underlying().(*types.Struct); ok && idx < st.NumFields() {
		return fieldAliasName(st.Field(idx))
	}
	return fmt.Sprintf("f%d", idx)
}

// fieldAlias: a renamed struct field goes by its recorded (reference-tree) name (see rename.go).
var fieldAlias = map[*types.Var]string{}

func fieldAliasName(v *types.Var) string {
	if a, ok := fieldAlias[v]; ok {
		return a
	}
	return v.Name()
}

// addrExpr renders the location an address value denotes ("c.fillRule", "dsq[curr]", "*k").
func (e *explorer) addrExpr(st *exState, a ssa.Value) string {
	switch a := a.(type) {
	case *ssa.FieldAddr:
		return e.locBase(st, a.X) + "." + fieldName(a.X.Type(), a.Field)
	case *ssa.IndexAddr:
		return e.locBase(st, a.X) + "[" + e.val(st, a.Index).expr + "]"
	case *ssa.Alloc:
		if n, ok := st.spill[a]; ok {
			return n
		}
		if a.Comment != "" {
			return e.cn(a.Comment)
		}
		return a.Name()
	}
	return "*" + e.val(st, a).expr
}

// simpleLoc: the rendering is a plain location (identifier, field path, element, dereference), not a computed value.
func simpleLoc(x string) bool {
	if x == "" {
		return false
	}
	for i := 0; i < len(x); i++ {
		ch := x[i]
		if !(isIdentChar(ch) || ch == '.' || ch == '[' || ch == ']' || ch == '*') {
			return false
		}
	}
	return !(x[0] >= '0' && x[0] <= '9')
}

// locBase renders the object whose field/element is addressed: a pointer value p addresses fields of "p".
func (e *explorer) locBase(st *exState, x ssa.Value) string {
	switch x := x.(type) {
	case *ssa.FieldAddr, *ssa.IndexAddr:
		return e.addrExpr(st, x)
	case *ssa.Alloc:
		if n, ok := st.spill[x]; ok {
			return n
		}
		if x.Comment != "" {
			return e.cn(x.Comment)
		}
	}
	return e.val(st, x).expr
}

func (e *explorer) eval(st *exState, v ssa.Value) symVal {
	switch v := v.(type) {
	case *ssa.UnOp:
		switch v.Op {
		case token.MUL: // load
			loc := e.addrExpr(st, v.X)
			if cv, ok := e.c.roTableLookup(e.globalKey(st, v.X)); ok {
				return symVal{abs: cv, expr: loc} // an element of a package-level table that only the initialiser writes
			}
			if m, ok := st.mem[loc]; ok {
				return symVal{abs: m.abs, expr: loc, vexpr: m.v()} // value last stored on this path
			}
			if st.dead[loc] {
				return symVal{expr: loc}
			}
			return e.atom(symVal{expr: loc})
		case token.NOT:
			x := e.val(st, v.X)
			r := symVal{expr: "!" + x.expr}
			if x.abs.k == aBool {
				r.abs = boolVal(!x.abs.b)
			}
			return e.atom(r)
		case token.SUB:
			x := e.val(st, v.X)
			r := symVal{expr: "-" + x.expr, vexpr: "-" + x.v()}
			if strings.HasPrefix(x.v(), "-") {
				r.vexpr = x.v()[1:]
			}
			switch x.abs.k {
			case aInt:
				r.abs = intVal(-x.abs.i)
			case aFloat:
				r.abs = floatVal(-x.abs.f)
			}
			return e.atom(r)
		}
		return symVal{expr: v.Op.String() + e.val(st, v.X).expr}
	case *ssa.BinOp:
		x, y := e.val(st, v.X), e.val(st, v.Y)
		op := v.Op
		// `2 == x.f` reads like `x.f == 2`: a constant operand of a comparison is written on the right
		if _, lc := v.X.(*ssa.Const); lc {
			if _, rc := v.Y.(*ssa.Const); !rc {
				flip := map[token.Token]token.Token{token.EQL: token.EQL, token.NEQ: token.NEQ, token.LSS: token.GTR, token.GTR: token.LSS, token.LEQ: token.GEQ, token.GEQ: token.LEQ}
				if f, ok := flip[op]; ok {
					x, y, op = y, x, f
				}
			}
		}
		r := symVal{expr: "(" + x.expr + " " + op.String() + " " + y.expr + ")"}
		r.abs = foldAbs(op, x.abs, y.abs)
		return e.atom(r)
	case *ssa.Convert:
		x := e.val(st, v.X)
		r := symVal{expr: x.expr}
		bt, _ := v.Type().Underlying().(*types.Basic)
		if bt != nil {
			switch {
			case bt.Info()&types.IsFloat != 0:
				r.expr = "float(" + x.expr + ")"
				if x.abs.k == aInt {
					r.abs = floatVal(float64(x.abs.i))
				} else if x.abs.k == aFloat {
					r.abs = x.abs
				}
			case bt.Info()&types.IsInteger != 0:
				if x.abs.k == aInt {
					r.abs = x.abs
				} else {
					r.expr = "int(" + x.expr + ")"
					if x.abs.k == aFloat && x.abs.f == math.Trunc(x.abs.f) && math.Abs(x.abs.f) < 1e15 {
						r.abs = intVal(int64(x.abs.f))
					}
				}
			}
		}
		return e.atom(r)
	case *ssa.ChangeType:
		return e.val(st, v.X)
	case *ssa.MakeInterface:
		return e.val(st, v.X)
	case *ssa.FieldAddr, *ssa.IndexAddr:
		return symVal{expr: "&" + e.addrExpr(st, v)}
	case *ssa.Field:
		x := e.val(st, v.X)
		return e.atom(symVal{expr: x.expr + "." + fieldName(v.X.Type(), v.Field)})
	case *ssa.Index:
		return e.atom(symVal{expr: e.val(st, v.X).expr + "[" + e.val(st, v.Index).expr + "]"})
	case *ssa.Extract:
		if rs, ok := st.tuples[v.Tuple]; ok && v.Index < len(rs) {
			return rs[v.Index]
		}
		return e.atom(symVal{expr: fmt.Sprintf("%s#%d", e.val(st, v.Tuple).expr, v.Index)})
	case *ssa.Alloc:
		if v.Comment != "" {
			return symVal{expr: "&" + e.cn(v.Comment)}
		}
		return symVal{expr: "&" + v.Name()}
	case *ssa.Slice:
		s := e.val(st, v.X).expr + "["
		if v.Low != nil {
			s += e.val(st, v.Low).expr
		}
		s += ":"
		if v.High != nil {
			s += e.val(st, v.High).expr
		}
		return symVal{expr: s + "]"}
	case *ssa.MakeSlice:
		return symVal{expr: "make(" + v.Type().String() + ")"}
	case *ssa.MakeClosure:
		return symVal{expr: "closure(" + v.Fn.Name() + ")"}
	case *ssa.Phi:
		// phi of a block we did not enter through a recorded edge (region start): unknown
		return e.atom(symVal{expr: v.Comment})
	case *ssa.Call:
		cr := callRec{callee: calleeName(e.c, v)}
		for _, a := range v.Call.Args {
			cr.args = append(cr.args, e.val(st, a))
		}
		return e.evalCall(st, v, cr)
	case *ssa.TypeAssert:
		return e.val(st, v.X)
	case *ssa.Lookup:
		return symVal{expr: e.val(st, v.X).expr + "[" + e.val(st, v.Index).expr + "]"}
	}
	return symVal{expr: v.Name()}
}

func (e *explorer) evalCall(st *exState, v *ssa.Call, cr callRec) symVal {
	var as []string
	for _, a := range cr.args {
		as = append(as, a.expr)
	}
	name := cr.callee
	if name == "" {
		name = "dyn:" + e.val(st, v.Call.Value).expr
	}
	r := symVal{expr: name + "(" + strings.Join(as, ", ") + ")"}
	if len(cr.args) == 1 && cr.args[0].vexpr != "" {
		r.vexpr = name + "(" + cr.args[0].v() + ")"
	}
	if strings.HasPrefix(name, "cmp.Compare") && len(cr.args) == 2 && cr.args[0].abs.k == aInt && cr.args[1].abs.k == aInt {
		switch {
		case cr.args[0].abs.i < cr.args[1].abs.i:
			r.abs = intVal(-1)
		case cr.args[0].abs.i > cr.args[1].abs.i:
			r.abs = intVal(1)
		default:
			r.abs = intVal(0)
		}
		return r
	}
	switch name {
	case "math.Abs", "absInt":
		if len(cr.args) == 1 {
			switch cr.args[0].abs.k {
			case aInt:
				i := cr.args[0].abs.i
				if i < 0 {
					i = -i
				}
				r.abs = intVal(i)
			case aFloat:
				r.abs = floatVal(math.Abs(cr.args[0].abs.f))
			}
		}
	case "IsOdd":
		if len(cr.args) == 1 && cr.args[0].abs.k == aInt {
			r.abs = boolVal(cr.args[0].abs.i&1 != 0)
		}
	case "builtin.len":
		r.expr = "len(" + strings.Join(as, ", ") + ")"
	}
	return e.atom(r)
}

func foldAbs(op token.Token, x, y absVal) absVal {
	if x.k == aInt && y.k == aFloat {
		x = floatVal(float64(x.i))
	}
	if x.k == aFloat && y.k == aInt {
		y = floatVal(float64(y.i))
	}
	switch {
	case x.k == aInt && y.k == aInt:
		switch op {
		case token.ADD:
			return intVal(x.i + y.i)
		case token.SUB:
			return intVal(x.i - y.i)
		case token.MUL:
			return intVal(x.i * y.i)
		case token.AND:
			return intVal(x.i & y.i)
		case token.OR:
			return intVal(x.i | y.i)
		case token.REM:
			if y.i != 0 {
				return intVal(x.i % y.i)
			}
		case token.QUO:
			if y.i != 0 {
				return intVal(x.i / y.i)
			}
		case token.EQL:
			return boolVal(x.i == y.i)
		case token.NEQ:
			return boolVal(x.i != y.i)
		case token.LSS:
			return boolVal(x.i < y.i)
		case token.LEQ:
			return boolVal(x.i <= y.i)
		case token.GTR:
			return boolVal(x.i > y.i)
		case token.GEQ:
			return boolVal(x.i >= y.i)
		}
	case x.k == aFloat && y.k == aFloat:
		switch op {
		case token.ADD:
			return floatVal(x.f + y.f)
		case token.SUB:
			return floatVal(x.f - y.f)
		case token.MUL:
			return floatVal(x.f * y.f)
		case token.EQL:
			return boolVal(x.f == y.f)
		case token.NEQ:
			return boolVal(x.f != y.f)
		case token.LSS:
			return boolVal(x.f < y.f)
		case token.LEQ:
			return boolVal(x.f <= y.f)
		case token.GTR:
			return boolVal(x.f > y.f)
		case token.GEQ:
			return boolVal(x.f >= y.f)
		}
	case x.k == aBool && y.k == aBool:
		switch op {
		case token.EQL:
			return boolVal(x.b == y.b)
		case token.NEQ:
			return boolVal(x.b != y.b)
		case token.AND, token.LAND:
			return boolVal(x.b && y.b)
		case token.OR, token.LOR:
			return boolVal(x.b || y.b)
		}
	case (x.k == aNil || x.k == aPtr) && (y.k == aNil || y.k == aPtr):
		eq := x.k == y.k && (x.k == aNil || x.i == y.i)
		switch op {
		case token.EQL:
			return boolVal(eq)
		case token.NEQ:
			return boolVal(!eq)
		}
	}
	return absVal{}
}

// maxIntConst returns the largest |c| over integer constants in f (the partition bound K).
func maxIntConst(f *ssa.Function) int64 {
	var k int64
	for _, b := range f.Blocks {
		for _, in := range b.Instrs {
			for _, op := range in.Operands(nil) {
				if op == nil || *op == nil {
					continue
				}
				if c, ok := (*op).(*ssa.Const); ok && c.Value != nil && (c.Value.Kind() == constant.Int || c.Value.Kind() == constant.Float) {
					f, _ := constant.Float64Val(c.Value)
					if a := int64(math.Ceil(math.Abs(f))); a > k && a < 1<<40 {
						k = a
					}
				}
			}
		}
	}
	return k
}

// enumValues lists the declared constants of a named type in the repo package, sorted by value.
type enumConst struct {
	name string
	val  int64
}

func (c *Ctx) enumValues(typeName string) []enumConst {
	obj := c.tpkg.Scope().Lookup(typeName)
	if obj == nil {
		fatalf("enum type %s not found", typeName)
	}
	var out []enumConst
	for _, n := range c.tpkg.Scope().Names() {
		k, ok := c.tpkg.Scope().Lookup(n).(*types.Const)
		if !ok || !types.Identical(k.Type(), obj.Type()) {
			continue
		}
		if v, ok := constant.Int64Val(k.Val()); ok {
			out = append(out, enumConst{n, v})
		}
	}
	sort.Slice(out, func(i, j int) bool { return out[i].val < out[j].val })
	if len(out) == 0 {
		fatalf("enum type %s has no constants", typeName)
	}
	return out
}

// assertNoLoops is the admissibility check "region is loop-free".
func loopFree(f *ssa.Function) bool {
	for _, b := range f.Blocks {
		for _, s := range b.Succs {
			if s.Dominates(b) {
				return false
			}
		}
	}
	return true
}

// atomAssigned: admissibility — an atom must not be stored to inside the region.
func atomAssigned(outs []*pathOutcome, atoms map[string]absVal) string {
	for _, p := range outs {
		for _, s := range p.stores {
			if _, ok := atoms[s.addr]; ok {
				return s.addr
			}
		}
	}
	return ""
}

// opaqueMentionsAtom: admissibility — no opaque (forked) condition may depend on an atom.
func opaqueMentionsAtom(outs []*pathOutcome, atoms map[string]absVal) string {
	for _, p := range outs {
		for _, cnd := range p.conds {
			for a := range atoms {
				if mentions(cnd.expr, a) {
					return fmt.Sprintf("condition %q depends on atom %s in a non-admissible way", cnd.expr, a)
				}
			}
		}
	}
	return ""
}

func mentions(expr, atom string) bool {
	i := 0
	for {
		j := strings.Index(expr[i:], atom)
		if j < 0 {
			return false
		}
		j += i
		end := j + len(atom)
		okL := j == 0 || !isIdentChar(expr[j-1])
		okR := end == len(expr) || !isIdentChar(expr[end])
		if okL && okR {
			return true
		}
		i = j + 1
	}
}

func isIdentChar(b byte) bool {
	return b == '_' || b == '.' || (b >= '0' && b <= '9') || (b >= 'a' && b <= 'z') || (b >= 'A' && b <= 'Z')
}

// cn maps an actual parameter name to the rule's canonical role name.
func (e *explorer) cn(name string) string {
	if c, ok := e.canon[name]; ok {
		return c
	}
	return name
}

// canonParams builds the renaming for f: its parameters (receiver first) get the given role names by position.
func canonParams(f *ssa.Function, roles ...string) map[string]string {
	// a parameter that already carries a role's name keeps it wherever it stands (parameters reordered, a receiver
	// dropped when a method became a function); the others take the remaining roles in order
	m := map[string]string{}
	usedRole := map[string]bool{}
	named := map[*ssa.Parameter]bool{}
	for _, p := range f.Params {
		for _, r := range roles {
			if r != "" && p.Name() == r && !usedRole[r] {
				usedRole[r] = true
				named[p] = true
				break
			}
		}
	}
	var rest []string
	for _, r := range roles {
		if !usedRole[r] {
			rest = append(rest, r)
		}
	}
	k := 0
	for _, p := range f.Params {
		if named[p] {
			continue
		}
		if k < len(rest) {
			if rest[k] != "" && p.Name() != rest[k] {
				m[p.Name()] = rest[k]
			}
			k++
		}
	}
	return m
}

// pureCond: v is computed from parameters, constants and phis by arithmetic and comparisons only (no load, no call):
// on one path (which never passes a loop header twice) equal renderings are equal values.
func pureCond(v ssa.Value, depth int) bool {
	if depth > 8 {
		return false
	}
	switch v := v.(type) {
	case *ssa.Const, *ssa.Parameter, *ssa.Phi:
		return true
	case *ssa.BinOp:
		return pureCond(v.X, depth+1) && pureCond(v.Y, depth+1)
	case *ssa.UnOp:
		return v.Op != token.MUL && v.Op != token.ARROW && pureCond(v.X, depth+1)
	case *ssa.Convert:
		return pureCond(v.X, depth+1)
	case *ssa.ChangeType:
		return pureCond(v.X, depth+1)
	}
	return false
}

// ---------- one-expression helpers ----------

type helperPat struct {
	name   string
	re     *regexp.Regexp
	params []int // capture group i belongs to parameter params[i]
	n      int
}

var identTok = regexp.MustCompile(`[A-Za-z_][A-Za-z0-9_]*`)

// helperPats derives, for every package-level function whose body is a single returned expression without calls or
// stores (isOpen, isHotEdge, isJoined, getPolyType, isSamePolyType, isFront, isHorizontal ...), the rendering of that
// expression with the parameters as holes.
func (c *Ctx) helperPats() []helperPat {
	if c.hpats != nil {
		return c.hpats
	}
	c.hpats = []helperPat{}
	var names []string
	for n, m := range c.spkg.Members {
		if f, ok := m.(*ssa.Function); ok && f.Blocks != nil && len(f.Params) >= 1 && len(f.Params) <= 2 && f.Signature.Results().Len() == 1 {
			names = append(names, n)
		}
	}
	sort.Strings(names)
	for pass := 0; pass < 2; pass++ {
		var out []helperPat
		for _, n := range names {
			f := c.spkg.Members[n].(*ssa.Function)
			if len(f.Blocks) != 1 {
				continue
			}
			outs := (&explorer{c: c, f: f, raw: pass == 0, maxPaths: 4}).explore(nil)
			if len(outs) != 1 || outs[0].end != "return" || len(outs[0].stores) != 0 || len(outs[0].calls) != 0 || len(outs[0].ret) != 1 {
				continue
			}
			body := outs[0].ret[0].expr
			if strings.HasPrefix(body, n+"(") || strings.HasPrefix(body, c.fname(f)+"(") {
				// second pass: the body was rewritten into a call of itself — keep the first-pass pattern
				for _, old := range c.hpats {
					if old.name == n || old.name == c.fname(f) {
						out = append(out, old)
					}
				}
				continue
			}
			hp := helperPat{name: c.fname(f), n: len(f.Params)}
			idx := map[string]int{}
			for i, p := range f.Params {
				idx[p.Name()] = i
			}
			var sb strings.Builder
			sb.WriteString("^")
			last := 0
			for _, loc := range identTok.FindAllStringIndex(body, -1) {
				tok := body[loc[0]:loc[1]]
				pi, isParam := idx[tok]
				// a parameter occurrence is an identifier not preceded by '.' (a field of the same name is not one)
				if !isParam || (loc[0] > 0 && body[loc[0]-1] == '.') {
					continue
				}
				sb.WriteString(regexp.QuoteMeta(body[last:loc[0]]))
				sb.WriteString(`([A-Za-z_][A-Za-z0-9_.\[\]]*)`)
				hp.params = append(hp.params, pi)
				last = loc[1]
			}
			if len(hp.params) == 0 {
				continue
			}
			sb.WriteString(regexp.QuoteMeta(body[last:]))
			sb.WriteString("$")
			hp.re = regexp.MustCompile(sb.String())
			out = append(out, hp)
		}
		c.hpats = out
	}
	return c.hpats
}

// deinline rewrites expr to helper(args) when it is exactly the body of a one-expression helper.
func (c *Ctx) deinline(expr string) string {
	if c.hpatBusy {
		return expr
	}
	if c.hpats == nil {
		c.hpatBusy = true
		c.helperPats()
		c.hpatBusy = false
	}
	if len(expr) < 6 || !strings.Contains(expr, ".") {
		return expr
	}
	if r := c.deinline1(expr); r != expr {
		return r
	}
	// the negation of a helper that is a comparison: (x.outrec == nil) is !isHotEdge(x)
	for _, p := range [][2]string{{" == ", " != "}, {" != ", " == "}} {
		if i := strings.Index(expr, p[0]); i > 0 && strings.Count(expr, p[0]) == 1 && strings.HasPrefix(expr, "(") {
			if r := c.deinline1(expr[:i] + p[1] + expr[i+len(p[0]):]); !strings.HasPrefix(r, "(") {
				return "!" + r
			}
		}
	}
	return expr
}

func (c *Ctx) deinline1(expr string) string {
	for _, hp := range c.hpats {
		m := hp.re.FindStringSubmatch(expr)
		if m == nil {
			continue
		}
		args := make([]string, hp.n)
		ok := true
		for gi, pi := range hp.params {
			if args[pi] != "" && args[pi] != m[gi+1] {
				ok = false
			}
			args[pi] = m[gi+1]
		}
		for _, a := range args {
			if a == "" {
				ok = false
			}
		}
		if ok {
			return hp.name + "(" + strings.Join(args, ", ") + ")"
		}
	}
	return expr
}

// param returns f's parameter that plays a role: the one carrying the role's name, otherwise the one at the
// position the role had on the reference tree (nil when the function has neither).
func param(f *ssa.Function, name string, pos int) *ssa.Parameter {
	for _, p := range f.Params {
		if p.Name() == name {
			return p
		}
	}
	if pos < len(f.Params) {
		return f.Params[pos]
	}
	return nil
}

// fwdLoad: the condition is (a negation of) a plain load.
func fwdLoad(v ssa.Value) bool {
	for {
		u, ok := v.(*ssa.UnOp)
		if !ok {
			return false
		}
		if u.Op == token.MUL {
			return true
		}
		if u.Op != token.NOT {
			return false
		}
		v = u.X
	}
}

// localLoad: the condition is (a negation of) a load of a field of a struct held in a local variable.
func localLoad(v ssa.Value) bool {
	for {
		u, ok := v.(*ssa.UnOp)
		if !ok {
			return false
		}
		if u.Op == token.NOT {
			v = u.X
			continue
		}
		if u.Op != token.MUL {
			return false
		}
		a := u.X
		for {
			fa, ok := a.(*ssa.FieldAddr)
			if !ok {
				break
			}
			a = fa.X
		}
		al, ok := a.(*ssa.Alloc)
		return ok && !al.Heap && a != u.X
	}
}

// idKey: a comparison of two SSA values (or a value and a constant) identified by the operands themselves; two
// instructions with the same key compute the same boolean on one pass through the function. "" when not applicable.
func idKey(cond ssa.Value) string {
	bo, ok := cond.(*ssa.BinOp)
	if !ok {
		return ""
	}
	switch bo.Op {
	case token.EQL, token.NEQ, token.LSS, token.LEQ, token.GTR, token.GEQ:
	default:
		return ""
	}
	side := func(v ssa.Value) string {
		if k, ok := v.(*ssa.Const); ok {
			if k.Value == nil {
				return "nil"
			}
			return "k" + k.Value.ExactString()
		}
		switch v.(type) {
		case *ssa.Call, *ssa.Parameter, *ssa.Phi, *ssa.Extract:
			return fmt.Sprintf("%p", v)
		}
		return "" // loads and computed values: left to the other memos
	}
	x, y := side(bo.X), side(bo.Y)
	if x == "" || y == "" {
		return ""
	}
	return "i:" + x + bo.Op.String() + y
}

// Read-only tables: a package-level array (of arrays) of integers or booleans that is written by the package
// initialiser only and read everywhere else through constant or variable indices (`contribCond[clipType][fillRule]`)
// is a function of its indices: with constant indices the explorer reads the initialiser's value.
type roTables struct {
	names map[string]bool
	vals  map[string]absVal
}

func (c *Ctx) roTableLookup(loc string) (absVal, bool) {
	i := strings.IndexByte(loc, '[')
	if i <= 0 {
		return absVal{}, false
	}
	t := c.readOnlyTables()
	if !t.names[loc[:i]] {
		return absVal{}, false
	}
	for _, part := range strings.Split(strings.TrimSuffix(loc[i+1:], "]"), "][") {
		if part == "" {
			return absVal{}, false
		}
		for k := 0; k < len(part); k++ {
			if part[k] < '0' || part[k] > '9' {
				return absVal{}, false // a variable index: not decided here
			}
		}
	}
	if v, ok := t.vals[loc]; ok {
		return v, true
	}
	return intVal(0), true // an element the composite literal does not mention
}

func (c *Ctx) readOnlyTables() *roTables {
	if c.roTabs != nil {
		return c.roTabs
	}
	t := &roTables{names: map[string]bool{}, vals: map[string]absVal{}}
	c.roTabs = t
	cand := map[*ssa.Global]bool{}
	for _, m := range c.spkg.Members {
		g, ok := m.(*ssa.Global)
		if !ok {
			continue
		}
		ty := g.Type().(*types.Pointer).Elem().Underlying()
		depth := 0
		for {
			arr, ok := ty.(*types.Array)
			if !ok {
				break
			}
			depth++
			ty = arr.Elem().Underlying()
		}
		if bt, ok := ty.(*types.Basic); ok && depth > 0 && bt.Info()&(types.IsInteger|types.IsBoolean) != 0 {
			cand[g] = true
		}
	}
	// every use outside the initialiser is an element load
	var elemLoadsOnly func(v ssa.Value) bool
	elemLoadsOnly = func(v ssa.Value) bool {
		refs := v.Referrers()
		if refs == nil {
			return true
		}
		for _, r := range *refs {
			switch x := r.(type) {
			case *ssa.IndexAddr:
				if !elemLoadsOnly(x) {
					return false
				}
			case *ssa.UnOp:
				if x.Op != token.MUL {
					return false
				}
				if _, isArr := x.Type().Underlying().(*types.Array); isArr {
					return false // a whole row copied out: not followed
				}
			case *ssa.DebugRef:
			default:
				return false
			}
		}
		return true
	}
	initFn := c.spkg.Func("init")
	for _, f := range c.srcFuncs() {
		if f == initFn {
			continue
		}
		for _, b := range f.Blocks {
			for _, in := range b.Instrs {
				for _, op := range in.Operands(nil) {
					if g, ok := (*op).(*ssa.Global); ok && cand[g] {
						if ia, ok := in.(*ssa.IndexAddr); !ok || !elemLoadsOnly(ia) {
							delete(cand, g)
						}
					}
				}
			}
		}
	}
	if initFn == nil {
		return t
	}
	// a composite literal (and each nested row) is built in a temporary and copied to its place in one store: the
	// temporary stands for that place
	type place struct {
		key string
		g   *ssa.Global
	}
	tmpOf := map[*ssa.Alloc]place{}
	var key func(a ssa.Value) (string, *ssa.Global)
	key = func(a ssa.Value) (string, *ssa.Global) {
		switch x := a.(type) {
		case *ssa.Alloc:
			if p, ok := tmpOf[x]; ok {
				return p.key, p.g
			}
			return "", nil
		case *ssa.Global:
			if cand[x] {
				return x.Name(), x
			}
			return "", nil
		case *ssa.IndexAddr:
			k, ok := x.Index.(*ssa.Const)
			if !ok {
				return "", nil
			}
			base, g := key(x.X)
			if g == nil {
				return "", nil
			}
			return fmt.Sprintf("%s[%d]", base, k.Int64()), g
		}
		return "", nil
	}
	copyOf := func(st *ssa.Store) *ssa.Alloc { // *place = *tmp
		if u, ok := st.Val.(*ssa.UnOp); ok && u.Op == token.MUL {
			if al, ok := u.X.(*ssa.Alloc); ok {
				return al
			}
		}
		return nil
	}
	for changed := true; changed; {
		changed = false
		for _, b := range initFn.Blocks {
			for _, in := range b.Instrs {
				st, ok := in.(*ssa.Store)
				if !ok {
					continue
				}
				if al := copyOf(st); al != nil {
					if _, done := tmpOf[al]; !done {
						if k, g := key(st.Addr); g != nil {
							tmpOf[al] = place{k, g}
							changed = true
						}
					}
				}
			}
		}
	}
	for _, b := range initFn.Blocks {
		for _, in := range b.Instrs {
			st, ok := in.(*ssa.Store)
			if !ok {
				continue
			}
			k, g := key(st.Addr)
			if g == nil || !cand[g] {
				continue
			}
			if al := copyOf(st); al != nil {
				if _, isTmp := tmpOf[al]; isTmp {
					continue // the copy of a finished literal (or row) to its place
				}
			}
			kc, ok := st.Val.(*ssa.Const)
			if !ok || kc.Value == nil {
				delete(cand, g) // initialised with something computed
				continue
			}
			if kc.Value.Kind() == constant.Bool {
				t.vals[k] = boolVal(constant.BoolVal(kc.Value))
			} else {
				t.vals[k] = intVal(kc.Int64())
			}
		}
	}
	for g := range cand {
		t.names[g.Name()] = true
	}
	return t
}

// globalKey renders an element address of a package-level array with the VALUES of its indices where the path knows
// them ("contribCond[2][1]"); "" when the address is not such an element.
func (e *explorer) globalKey(st *exState, a ssa.Value) string {
	switch x := a.(type) {
	case *ssa.Global:
		return x.Name()
	case *ssa.IndexAddr:
		base := e.globalKey(st, x.X)
		if base == "" {
			return ""
		}
		iv := e.val(st, x.Index)
		if iv.abs.k == aInt {
			return fmt.Sprintf("%s[%d]", base, iv.abs.i)
		}
		return base + "[" + iv.expr + "]"
	}
	return ""
}
