package main

import (
	"fmt"
	"go/ast"
	"go/token"
	"go/types"
	"sort"
	"strings"

	"golang.org/x/tools/go/ssa"
)

// Rules added after the third seed round.

// ruleIntersectTable: C01.table2 — when two not-yet-contributing boundary edges of the SAME set cross (both own
// counts 1), a new local-minimum polygon starts there iff the crossing lies where the result has a boundary:
// Intersection: inside the other set; Union: outside it; Difference: subject edges outside / clip edges inside;
// Xor: always. (e1Wc2 and e2Wc2 both measure the other set's winding at the crossing.)
func ruleIntersectTable(rule string) func(*Ctx) {
	return func(c *Ctx) {
		f := c.fn("(clipperBase).intersectEdges")
		recv := f.Params[0].Name()
		fills := c.enumValues("FillRule")
		clips := c.enumValues("ClipType")
		polys := c.enumValues("PathType")
		for _, ct := range clips {
			if ct.name == "NoClip" {
				continue
			}
			for _, fr := range fills {
				bad := ""
				n := 0
				for _, pt := range polys {
					for _, w := range []int64{-2, -1, 0, 1, 2} {
						if fr.name == "EvenOdd" && (w < 0 || w > 1) {
							continue
						}
						// own winding count that normalises to 1 under this fill rule
						own := int64(1)
						if fr.name == "Negative" {
							own = -1
						}
						atoms := map[string]absVal{
							recv + ".hasOpenPaths": boolVal(false), recv + ".fillRule": intVal(fr.val), recv + ".clipType": intVal(ct.val),
							"isJoined(ae1)": boolVal(false), "isJoined(ae2)": boolVal(false), "isHotEdge(ae1)": boolVal(false), "isHotEdge(ae2)": boolVal(false),
							"ae1.localMin.PolyType": intVal(pt.val), "ae2.localMin.PolyType": intVal(pt.val), "getPolyType(ae1)": intVal(pt.val), "getPolyType(ae2)": intVal(pt.val),
							"isSamePolyType(ae1, ae2)": boolVal(true),
							// pre-update counts 0 with directions chosen so that the same-polytype update (wc1 += dx2, wc2 -= dx1)
							// leaves both own counts at the boundary value `own`
							"ae1.windCount": intVal(0), "ae2.windCount": intVal(0), "ae1.windDx": intVal(-own), "ae2.windDx": intVal(own),
							"ae1.windCount2": intVal(w), "ae2.windCount2": intVal(w),
						}
						if fr.name == "EvenOdd" {
							atoms["ae1.windCount"], atoms["ae2.windCount"] = intVal(1), intVal(1)
						}
						ex := &explorer{c: c, f: f, atoms: atoms, maxPaths: 2000, canon: canonParams(f, recv, "ae1", "ae2", "pt")}
						outs := ex.explore(nil)
						if len(outs) != 1 {
							// the decision must be a function of these atoms alone
							var cs []string
							for _, p := range outs {
								cs = append(cs, p.condString())
							}
							fatalf("intersectEdges (no hot edges, same set, boundary counts): %d paths for %s/%s w=%d: %v", len(outs), ct.name, fr.name, w, cs)
						}
						got := outs[0].called("(clipperBase).addLocalMinPoly")
						// after the update the own counts must still be boundary counts, otherwise this cell does not reach the table
						inside := filledNorm(fr.name, w)
						var want bool
						switch ct.name {
						case "Intersection":
							want = inside
						case "Union":
							want = !inside
						case "Difference":
							want = (pt.name == "Subject") != inside
						case "Xor":
							want = true
						}
						n++
						if got != want && bad == "" {
							bad = fmt.Sprintf("two crossing %s boundary edges where the other set's winding is %d: a new polygon starts=%v, the boolean table requires %v", pt.name, w, got, want)
						}
					}
				}
				c.check(bad == "", rule, fmt.Sprintf("%s:intersectEdges:%s/%s", rule, ct.name, fr.name), f.Pos(), "(clipperBase).intersectEdges",
					fmt.Sprintf("%d cells: a local-minimum polygon starts at a same-set crossing exactly where the result has a boundary", n), bad,
					"a self-intersecting set crosses itself inside or outside the other set; starting (or not starting) a polygon there adds or loses the lobe beyond the crossing")
			}
		}
	}
}

func filledNorm(fr string, w int64) bool {
	switch fr {
	case "Positive":
		return w > 0
	case "Negative":
		return w < 0
	}
	return w != 0
}

// ruleMonotoneFlag: a sticky input flag (hasOpenPaths) is only ever set to true by the add-paths code.
func ruleMonotoneFlag(rule, typ, field string) func(*Ctx) {
	return func(c *Ctx) {
		n := 0
		for _, f := range c.srcFuncs() {
			for _, st := range fieldStoresIn(c, f, typ)[field] {
				n++
				b, ok := constBool(st.Val)
				if !ok && stickyOr(st, typ, field) {
					b, ok = true, true
				}
				c.check(ok && b, rule, fmt.Sprintf("%s:%s:%s#%d", rule, c.fname(f), field, n), st.Pos(), c.fname(f),
					typ+"."+field+" is only ever set to true", typ+"."+field+" is assigned "+st.Val.String()+": adding a closed set after an open one clears the flag, and the sweep then treats open edges as closed",
					"the engine must know that open paths are present whatever the order of AddPaths calls")
			}
		}
		c.floor(rule, n, 1)
	}
}

// ruleCtorWiring: constructor / convenience wiring by NAME: an argument read from field or parameter x must land in
// the parameter / field called x (miterLimit vs arcTolerance are both float64).
func ruleOffsetWiring(rule string) func(*Ctx) {
	return func(c *Ctx) {
		// NewClipperOffset stores each parameter in the field of the same name
		f := c.fn("NewClipperOffset")
		outs := (&explorer{c: c, f: f}).explore(nil)
		bad := ""
		for _, p := range outs {
			for _, s := range p.stores {
				i := strings.LastIndex(s.addr, ".")
				if i < 0 {
					continue
				}
				fld := strings.ToLower(s.addr[i+1:])
				v := strings.ToLower(strings.TrimSpace(s.val.v()))
				if s.val.abs.k != aUnknown {
					continue // constants (MergeGroups: true)
				}
				if v != fld {
					bad = fmt.Sprintf("field %s is initialised from %s", s.addr[i+1:], s.val.v())
				}
			}
		}
		c.check(bad == "" && len(outs) > 0, rule, rule+":NewClipperOffset:fields", f.Pos(), "NewClipperOffset", "every parameter initialises the field of the same name", bad,
			"miter limit and arc tolerance have the same type; exchanged they silently change the outer bound of every miter join")
		// InflatePaths64 passes cfg.miterLimit, cfg.arcTolerance in that order
		g := c.fn("InflatePaths64")
		bad = "no NewClipperOffset call"
		gh := g
		if h := fnWithCallsTo(c, g, "NewClipperOffset", 0); h != nil {
			gh = h // the construction may have moved into a helper shared with InflatePathsD
		}
		for _, ci := range callsTo(c, gh, "NewClipperOffset") {
			bad = ""
			sig := ci.Common().StaticCallee().Signature
			for i, a := range ci.Common().Args {
				pn := sig.Params().At(i).Name()
				if u, ok := a.(*ssa.UnOp); ok {
					if fa, ok := u.X.(*ssa.FieldAddr); ok {
						if fn := fieldName(fa.X.Type(), fa.Field); !strings.EqualFold(fn, pn) {
							bad = fmt.Sprintf("option %s is passed as parameter %s", fn, pn)
						}
					}
				}
			}
		}
		c.check(bad == "", rule, rule+":InflatePaths64:options", g.Pos(), "InflatePaths64", "cfg.miterLimit -> miterLimit, cfg.arcTolerance -> arcTolerance", bad,
			"WithMitterLimit must bound the miter joins, not the arc tolerance")
	}
}

// ruleQuantiserReturns: every return of ScalePathDToPath64 is the slice it filled by rounding (no shortcut that
// delegates to a truncating converter).
func ruleQuantiserReturns(rule string) func(*Ctx) {
	return func(c *Ctx) {
		f := c.fn("ScalePathDToPath64")
		bad := ""
		n := 0
		for _, b := range f.Blocks {
			for _, in := range b.Instrs {
				r, ok := in.(*ssa.Return)
				if !ok {
					continue
				}
				n++
				v := r.Results[0]
				for {
					if ct, ok := v.(*ssa.ChangeType); ok {
						v = ct.X
						continue
					}
					break
				}
				switch x := v.(type) {
				case *ssa.MakeSlice:
				case *ssa.Slice:
					if _, ok := x.X.(*ssa.Alloc); !ok {
						bad = "returns a re-slice of something it did not build"
					}
				case *ssa.Call:
					bad = "returns the result of " + calleeName(c, x) + " on some path: that path is not quantised by rounding"
				case *ssa.Parameter:
					bad = "returns its argument"
				default:
					bad = "returns " + v.String()
				}
			}
		}
		for _, ci := range calls(f) {
			if n := calleeName(c, ci); n == "PathDToPath64" || n == "PathsDToPaths64" {
				bad = "calls the truncating converter " + n
			}
		}
		c.check(bad == "" && n > 0, rule, rule+":ScalePathDToPath64:returns", f.Pos(), "ScalePathDToPath64", "every return value is the slice filled with rounded coordinates", bad,
			"a fast path (e.g. scale == 1, precision 0) that truncates instead of rounding quantises 0.6 to 0 while the 64-bit counterpart of the property sees 1")
	}
}

// ruleAllResultsUsed: call sites of a multi-result repository function agree on which results they consume:
// if some call site uses result #k, no other call site may discard it (Engler-style sibling agreement).
func ruleAllResultsUsed(rule string, fns []string, why string) func(*Ctx) {
	return func(c *Ctx) {
		for _, name := range fns {
			target := c.fn(name)
			nres := target.Signature.Results().Len()
			type site struct {
				call *ssa.Call
				used []bool
				fn   string
			}
			var sites []site
			for _, f := range c.srcFuncs() {
				for _, ci := range callsTo(c, f, name) {
					call, ok := ci.(*ssa.Call)
					if !ok {
						continue
					}
					u := make([]bool, nres)
					for _, r := range *call.Referrers() {
						if ex, ok := r.(*ssa.Extract); ok {
							for _, rr := range *ex.Referrers() {
								if _, dbg := rr.(*ssa.DebugRef); !dbg {
									u[ex.Index] = true
								}
							}
						}
					}
					sites = append(sites, site{call, u, c.fname(f)})
				}
			}
			sort.Slice(sites, func(i, j int) bool { return sites[i].call.Pos() < sites[j].call.Pos() })
			anyUse := make([]bool, nres)
			for _, s := range sites {
				for k, b := range s.used {
					anyUse[k] = anyUse[k] || b
				}
			}
			for i, s := range sites {
				bad := ""
				for k := range s.used {
					if anyUse[k] && !s.used[k] {
						bad = fmt.Sprintf("result #%d (%s) of %s is discarded here but used at its other call sites", k, target.Signature.Results().At(k).Name(), name)
					}
				}
				c.check(bad == "", rule, fmt.Sprintf("%s:%s:%s#%d", rule, s.fn, name, i+1), s.call.Pos(), s.fn, "consumes every result its sibling call sites consume", bad, why)
			}
			c.floor(rule, len(sites), 2)
		}
	}
}

// ruleFreshScratch: a scratch slice that is appended to the caller's solution must be a FRESH slice for every
// path, never a re-slice of itself (its backing array is already owned by the solution).
func ruleFreshScratch(rule, typ, field string) func(*Ctx) {
	return func(c *Ctx) {
		n := 0
		for _, f := range c.srcFuncs() {
			k := 0
			for _, st := range fieldStoresIn(c, f, typ)[field] {
				v := st.Val
				// appends to the scratch itself are its normal use
				if call, ok := v.(*ssa.Call); ok {
					if bi, ok := call.Call.Value.(*ssa.Builtin); ok && bi.Name() == "append" {
						continue
					}
				}
				k++
				n++
				reuse := false
				if sl, ok := v.(*ssa.Slice); ok && isFieldLoadOf(sl.X, typ, field) {
					reuse = true
				}
				c.check(!reuse, rule, fmt.Sprintf("%s:%s:%s-reset#%d", rule, c.fname(f), field, k), st.Pos(), c.fname(f),
					typ+"."+field+" is re-initialised with a fresh slice (or from a call's result)",
					typ+"."+field+" is reset by re-slicing itself: the previous path, already appended to the solution, shares the backing array and is overwritten by the next one",
					"each offset path is appended to the caller's solution by reference; reusing its array makes a later polyline overwrite an earlier stroke")
			}
		}
		c.floor(rule, n, 2)
	}
}

// ruleInsideArmMirror: the Inside arm of getNextLocation classifies a vertex leaving the rectangle with four cases
// that are mirror images in pairs (Left/Right, Top/Bottom).
func ruleInsideArmMirror(rule string) func(*Ctx) {
	return func(c *Ctx) {
		fd := c.decl("(RectClip64).getNextLocation")
		arm := caseArms(fd)["Inside"]
		var sw *ast.SwitchStmt
		for _, s := range arm {
			ast.Inspect(s, func(n ast.Node) bool {
				if x, ok := n.(*ast.SwitchStmt); ok && sw == nil && x.Tag == nil {
					sw = x
				}
				return true
			})
		}
		if sw == nil {
			c.note("%s: the Inside arm has no tagless switch; its classification is decided by the semantic rule C06.inside.strict alone", rule)
			return
		}
		cases := map[string]string{}
		for _, s := range sw.Body.List {
			cc := s.(*ast.CaseClause)
			if len(cc.List) != 1 || len(cc.Body) != 1 {
				continue
			}
			as, ok := cc.Body[0].(*ast.AssignStmt)
			if !ok {
				continue
			}
			cases[render(as.Rhs[0])] = "case " + identity.expr(cc.List[0]) + ": " + identity.stmt(cc.Body[0])
		}
		for _, p := range []struct {
			a, b string
			m    *renaming
		}{{"Left", "Right", mirrorLR}, {"Top", "Bottom", mirrorTB}} {
			ca, cb := cases[p.a], cases[p.b]
			if ca == "" || cb == "" {
				fatalf("getNextLocation Inside arm: cases %s/%s not found", p.a, p.b)
			}
			// mirror of a: re-render with the renaming
			var wa string
			for _, s := range sw.Body.List {
				cc := s.(*ast.CaseClause)
				if len(cc.List) == 1 && len(cc.Body) == 1 {
					if as, ok := cc.Body[0].(*ast.AssignStmt); ok && render(as.Rhs[0]) == p.a {
						wa = "case " + p.m.expr(cc.List[0]) + ": " + p.m.stmt(cc.Body[0])
					}
				}
			}
			c.check(wa == cb, rule, fmt.Sprintf("%s:getNextLocation:Inside:%s=mirror(%s)", rule, p.b, p.a), sw.Pos(), "(RectClip64).getNextLocation",
				"leaving towards "+p.b+" is tested as the mirror image of leaving towards "+p.a,
				fmt.Sprintf("`%s` but the mirror of the %s case is `%s`", cb, p.a, wa),
				"a vertex exactly on one edge must be treated like a vertex exactly on the opposite edge: strict on one side and non-strict on the other inserts a spurious corner")
		}
	}
}

// ruleClosingDup: in addPathsToVertexList the "last point equals first point" vertex is dropped only for CLOSED paths.
func ruleClosingDup(rule string) func(*Ctx) {
	return func(c *Ctx) {
		f := c.fn("addPathsToVertexList")
		if h := fnWithCallsTo(c, f, "(VertexPoolList).Add", 0); h != nil {
			f = h // the ring construction may have been moved into a helper
		}
		n := 0
		bad := ""
		for _, b := range f.Blocks {
			ifi, ok := b.Instrs[len(b.Instrs)-1].(*ssa.If)
			if !ok {
				continue
			}
			cmp, ok := ifi.Cond.(*ssa.BinOp)
			if !ok || cmp.Op != token.EQL || typeName(cmp.X.Type()) != "Point64" {
				continue
			}
			// the then-branch steps prevV back (prevV = prevV.prev): find a load of field prev in the true successor
			steps := false
			for _, in := range b.Succs[0].Instrs {
				if u, ok := in.(*ssa.UnOp); ok && isFieldLoadOf(u, "Vertex", "prev") {
					steps = true
				}
			}
			if !steps {
				continue
			}
			n++
			if !guardedBy(ifi, false, func(v ssa.Value) bool { return v == ssa.Value(param(f, "isOpen", 2)) }) {
				bad = "the closing-duplicate vertex is dropped without `!isOpen`: an open polyline whose last point equals its first loses its final segment"
			}
		}
		c.check(bad == "" && n == 1, rule, rule+":addPathsToVertexList:closing-duplicate", f.Pos(), "addPathsToVertexList",
			"`last == first` removes the last vertex only when the path is closed", bad+map[bool]string{true: "", false: fmt.Sprintf(" (%d candidate sites)", n)}[n == 1],
			"open paths are polylines: every vertex, including a last one equal to the first, is part of the line")
	}
}

// ruleLocalMaxOwner: C04 — a ring that closes with no hot edge on its left is top-level (owner nil) in tree mode.
func ruleLocalMaxOwner(rule string) func(*Ctx) {
	return func(c *Ctx) {
		f := c.fn("(clipperBase).addLocalMaxPoly")
		recv := f.Params[0].Name()
		ex := &explorer{c: c, f: f, atoms: map[string]absVal{recv + ".usingPolyTree": boolVal(true), "isJoined(ae1)": boolVal(false), "isJoined(ae2)": boolVal(false),
			"getPrevHotEdge(ae1)": {k: aNil}}, maxPaths: 2000, canon: canonParams(f, recv, "ae1", "ae2", "pt")}
		outs := ex.explore(nil)
		bad := ""
		n := 0
		for _, p := range outs {
			closes := false
			for _, cd := range p.conds {
				if strings.Contains(cd.expr, "ae1.outrec == ae2.outrec") && cd.taken {
					closes = true
				}
			}
			if !closes || !p.called("uncoupleOutRec") {
				continue
			}
			n++
			ok := false
			for _, s := range p.stores {
				if strings.HasSuffix(s.addr, ".owner") && s.val.abs.k == aNil {
					ok = true
				}
			}
			if !ok {
				bad = "a ring closing with no hot edge to its left keeps its provisional owner instead of becoming top-level"
			}
		}
		c.check(bad == "" && n > 0, rule, rule+":addLocalMaxPoly:no-left-hot-edge", f.Pos(), "(clipperBase).addLocalMaxPoly",
			"tree mode: ring closes and getPrevHotEdge(ae1) == nil -> owner = nil", bad,
			"nothing of the solution lies to the left of such a ring, so it cannot be inside any other ring: a stale owner makes an island a 'hole' child")
	}
}

var _ = types.Identical

// ruleBoundsEmpty: GetBounds64 may answer the zero rectangle only for "no vertex seen": the guard of that return is
// a comparison of an accumulator with its own start sentinel, or len(path) == 0 — not a geometric emptiness test
// (a vertical or horizontal run has zero width or height but exact extremes).
func ruleBoundsEmpty(rule string) func(*Ctx) {
	return func(c *Ctx) {
		for _, name := range []string{"GetBounds64", "getBounds"} {
			f := c.fn(name)
			outs := (&explorer{c: c, f: f, maxPaths: 4000}).explore(nil)
			bad := ""
			n := 0
			for _, p := range outs {
				if p.end != "return" || len(p.ret) != 1 {
					continue
				}
				if !strings.HasPrefix(p.ret[0].expr, "zero(") && p.ret[0].expr != "complit" && !strings.Contains(p.ret[0].expr, "Rect64{}") {
					// returns the accumulator
					if !strings.Contains(p.ret[0].expr, "result") && !strings.Contains(p.ret[0].expr, "complit") {
						continue
					}
				}
				zero := strings.HasPrefix(p.ret[0].expr, "zero(")
				if !zero {
					continue
				}
				n++
				ok := false
				if len(p.conds) > 0 {
					last := p.conds[len(p.conds)-1]
					e := last.expr
					if last.taken && (strings.Contains(e, "== 9223372036854775807)") || strings.Contains(e, "== -9223372036854775808)") || strings.HasPrefix(e, "(len(") && strings.HasSuffix(e, "== 0)")) {
						ok = true
					}
				}
				if !ok {
					bad = "the zero rectangle is returned under [" + tail(p.condString(), 120) + "], which is not 'no vertex was seen' (accumulator still at its sentinel, or len(path) == 0)"
				}
			}
			if n == 0 && bad == "" {
				for _, p := range outs {
					if p.end == "return" && len(p.ret) == 1 && (strings.HasPrefix(p.ret[0].expr, "getBounds(") || strings.HasPrefix(p.ret[0].expr, "GetBounds64(")) {
						n++ // the answer, empty case included, is the other routine's, which is checked
					}
				}
				if n == 0 {
					bad = "no return of the zero rectangle found (what is answered for an empty path?)"
				}
			}
			c.check(bad == "" && n > 0, rule, fmt.Sprintf("%s:%s:empty-result", rule, name), f.Pos(), name,
				"the zero rectangle is returned only when no vertex was seen", bad,
				"a single point, a vertical or a horizontal run has zero width or height but well-defined exact extremes")
		}
	}
}

// ruleVertexFilter: C17.dup — while a path is turned into the vertex ring, an input point is skipped exactly when
// it equals the previously KEPT point (repeating a vertex must not change the input; nothing else may be dropped).
func ruleVertexFilter(rule string) func(*Ctx) {
	return func(c *Ctx) {
		f := c.fn("addPathsToVertexList")
		if h := fnWithCallsTo(c, f, "(VertexPoolList).Add", 0); h != nil {
			f = h
		}
		// the innermost loop that calls (VertexPoolList).Add
		var inner *loopInfo
		for _, ci := range callsTo(c, f, "(VertexPoolList).Add") {
			for _, l := range naturalLoops(f) {
				if l.blocks[ci.Block()] && (inner == nil || len(l.blocks) < len(inner.blocks)) {
					inner = l
				}
			}
		}
		if inner == nil {
			fatalf("addPathsToVertexList: vertex loop not found")
		}
		ll := inner
		outs := (&explorer{c: c, f: f, stop: func(b *ssa.BasicBlock) bool { return !ll.blocks[b] }}).explore(inner.header)
		bad := ""
		n := 0
		for _, p := range outs {
			if p.end != "loop" {
				continue
			}
			n++
			first, differs, evaluated := false, false, false
			var extra []string
			for _, cd := range p.conds {
				switch {
				case strings.Contains(cd.expr, "== nil)"):
					first = cd.taken
				case strings.Contains(cd.expr, ".pt != "):
					evaluated = true
					differs = cd.taken
				case strings.Contains(cd.expr, "rangeindex") || strings.HasPrefix(cd.expr, "(") && strings.Contains(cd.expr, " < len("):
				default:
					extra = append(extra, cd.expr)
				}
			}
			added := p.called("(VertexPoolList).Add")
			want := first || (evaluated && differs)
			if added != want {
				bad = fmt.Sprintf("point kept=%v on path [%s]; it must be kept iff it is the first point or differs from the previous kept point", added, p.condString())
			}
			if len(extra) > 0 && bad == "" {
				bad = "keeping a point also depends on " + strings.Join(extra, ", ")
			}
		}
		c.check(bad == "" && n >= 3, rule, rule+":addPathsToVertexList:consecutive-duplicates", inner.header.Instrs[0].Pos(), "addPathsToVertexList",
			fmt.Sprintf("a point is skipped exactly when it equals the previously kept point (%d body paths)", n), bad,
			"repeating any vertex must not change the result, and no other vertex may be dropped: a closed path that passes through its start vertex again mid-path keeps that vertex")
	}
}

// ruleUnflaggedReturn: C16.ring — getNext/getPrior walk the ring of still-present vertices: the index they return
// has just been seen unflagged. On every explored path to a return, the last test of the flag slice is a test of the
// returned index itself and found it clear.
func ruleUnflaggedReturn(rule string, fns []string) func(*Ctx) {
	return func(c *Ctx) {
		n := 0
		for _, fn := range fns {
			f := c.fn(fn)
			ex := &explorer{c: c, f: f, canon: canonParams(f, "current", "high", "flags"), pureMemo: true, maxPaths: 4000}
			outs := ex.explore(nil)
			if ex.overflow {
				fatalf("%s: path explosion", fn)
			}
			bad := ""
			rets := 0
			for _, p := range outs {
				if p.end != "return" || len(p.ret) != 1 {
					continue
				}
				rets++
				r := p.ret[0].expr
				if p.ret[0].abs.k == aInt {
					r = fmt.Sprint(p.ret[0].abs.i)
				}
				last := -1
				for i, cd := range p.conds {
					if strings.HasPrefix(cd.expr, "flags[") {
						last = i
					}
				}
				switch {
				case last < 0:
					bad = fmt.Sprintf("returns %s on a path that never looked at its flag (%s)", r, p.condString())
				case p.conds[last].expr != "flags["+r+"]" || p.conds[last].taken:
					bad = fmt.Sprintf("returns %s although the last flag seen clear on the path is not its own (%s)", r, p.condString())
				}
			}
			n++
			c.check(bad == "" && rets >= 2, rule, fmt.Sprintf("%s:%s:returned-index-clear", rule, fn), f.Pos(), fn,
				fmt.Sprintf("on each of %d explored return paths the returned index was the last one tested and its flag was clear", rets), bad,
				"the distance of a vertex is measured to its nearest STILL PRESENT neighbours; returning a removed index measures against a vertex that is no longer in the result, so vertices within epsilon survive or far ones are dropped")
		}
		c.floor(rule, n, len(fns))
	}
}

// ruleCyclicPred: in a walk over a closed path the predecessor of element 0 is the LAST element. Every place where
// `X[i-1]` is read under `i > 0` (or `i != 0`) has a sibling branch for i == 0; that branch may index X only with
// len(X)-1, with 0, or with i itself.
func ruleCyclicPred(rule string, fns []string, min int, why string) func(*Ctx) {
	return func(c *Ctx) {
		n := 0
		for _, fn := range fns {
			f0 := c.fn(fn)
			// the predecessor lookup may sit in a closure of the function (prevOf := func(k int) Point64 {...})
			var allBlocks []*ssa.BasicBlock
			allBlocks = append(allBlocks, f0.Blocks...)
			for _, af := range f0.AnonFuncs {
				allBlocks = append(allBlocks, af.Blocks...)
			}
			f := f0
			for _, b := range allBlocks {
				ifi, ok := b.Instrs[len(b.Instrs)-1].(*ssa.If)
				if !ok {
					continue
				}
				cmp, ok := ifi.Cond.(*ssa.BinOp)
				if !ok || !isConstInt(cmp.Y, 0) {
					continue
				}
				var pos, zero *ssa.BasicBlock // successor where i > 0 / where i == 0
				switch cmp.Op {
				case token.GTR, token.NEQ:
					pos, zero = b.Succs[0], b.Succs[1]
				case token.EQL, token.LEQ:
					pos, zero = b.Succs[1], b.Succs[0]
				default:
					continue
				}
				if len(pos.Preds) != 1 || len(zero.Preds) != 1 {
					continue
				}
				i := cmp.X
				// X[i-1] in the positive branch
				var X ssa.Value
				for _, in := range pos.Instrs {
					if ia, ok := in.(*ssa.IndexAddr); ok {
						if bo, ok := ia.Index.(*ssa.BinOp); ok && bo.Op == token.SUB && sameIntValue(bo.X, i) && isConstInt(bo.Y, 1) {
							X = ia.X
						}
					}
				}
				if X == nil {
					continue
				}
				bad := ""
				seen := 0
				for _, in := range zero.Instrs {
					ia, ok := in.(*ssa.IndexAddr)
					if !ok || !(sameSlice(ia.X, X) || closureResolve(ia.X) == closureResolve(X)) {
						continue
					}
					seen++
					switch {
					case isConstInt(ia.Index, 0), sameIntValue(ia.Index, i):
					case isLenMinus1(ia.Index, X), lenMinus1Through(ia.Index, ia.X):
					default:
						bad = fmt.Sprintf("for index 0 the predecessor is read at %s[%s], which is not the last element", valueName(X), valueName(ia.Index))
					}
				}
				if seen == 0 {
					continue
				}
				n++
				// a lookup that lives in a closure stands for every place that calls it
				if g := b.Parent(); g.Parent() != nil {
					uses := 0
					for _, pb := range g.Parent().Blocks {
						for _, pin := range pb.Instrs {
							if ci, ok := pin.(ssa.CallInstruction); ok && ci.Common().StaticCallee() == g {
								uses++
							}
						}
					}
					if uses > 1 {
						n += uses - 1
					}
				}
				c.check(bad == "", rule, fmt.Sprintf("%s:%s:wrap#%d", rule, fn, n), ifi.Cond.Pos(), fn,
					fmt.Sprintf("%s[i-1] for i > 0, %s[len-1] for i == 0", valueName(X), valueName(X)), bad, why)
			}
			// the modular form: X[(i + len(X) - 1) % len(X)]
			for _, b := range f.Blocks {
				for _, in := range b.Instrs {
					ia, ok := in.(*ssa.IndexAddr)
					if !ok {
						continue
					}
					rem, ok := ia.Index.(*ssa.BinOp)
					if !ok || rem.Op != token.REM {
						continue
					}
					modIsLen := isLenOfSlice(rem.Y, ia.X)
					vars, lens, k, lin := 0, 0, int64(0), true
					var walk func(v ssa.Value, sign int64)
					walk = func(v ssa.Value, sign int64) {
						if bo, ok := v.(*ssa.BinOp); ok && (bo.Op == token.ADD || bo.Op == token.SUB) {
							walk(bo.X, sign)
							if bo.Op == token.SUB {
								walk(bo.Y, -sign)
							} else {
								walk(bo.Y, sign)
							}
							return
						}
						if kc, ok := v.(*ssa.Const); ok && kc.Value != nil {
							k += sign * kc.Int64()
							return
						}
						if (modIsLen && isLenOfSlice(v, ia.X)) || v == rem.Y {
							lens += int(sign)
							return
						}
						if sign != 1 {
							lin = false
						}
						vars++
					}
					walk(rem.X, 1)
					if !lin || lens != 1 || vars != 1 {
						continue
					}
					n++
					badm := ""
					if k != -1 {
						badm = fmt.Sprintf("the cyclic neighbour is read at offset %d (mod len), not at the predecessor", k)
					} else if !modIsLen {
						badm = fmt.Sprintf("the predecessor index wraps modulo %s, which is not len(%s): for index 0 it is not the last element", valueName(rem.Y), valueName(ia.X))
					}
					c.check(badm == "", rule, fmt.Sprintf("%s:%s:wrap#%d", rule, fn, n), ia.Pos(), fn,
						fmt.Sprintf("%s[(i+len-1) %% len]: the element before index 0 is the last one", valueName(ia.X)), badm, why)
				}
			}
		}
		c.floor(rule, n, min)
	}
}

// isLenOfSlice: v is len(X) for the same slice X (same value, same parameter or the same local).
func isLenOfSlice(v ssa.Value, X ssa.Value) bool {
	call, ok := v.(*ssa.Call)
	if !ok {
		return false
	}
	bi, ok := call.Call.Value.(*ssa.Builtin)
	return ok && bi.Name() == "len" && len(call.Call.Args) == 1 && sameSlice(call.Call.Args[0], X)
}

func sameIntValue(a, b ssa.Value) bool {
	if a == b {
		return true
	}
	la, ok1 := a.(*ssa.UnOp)
	lb, ok2 := b.(*ssa.UnOp)
	return ok1 && ok2 && la.Op == token.MUL && lb.Op == token.MUL && la.X == lb.X // two loads of the same local
}

func sameSlice(a, b ssa.Value) bool {
	if a == b {
		return true
	}
	if pa, pb := paramOf(a), paramOf(b); pa != nil && pa == pb {
		return true
	}
	return sameLocalLoad(a, b)
}

// isLenMinus1: v is len(X)-1, directly or through a value defined as such (highI := len(path) - 1).
func isLenMinus1(v ssa.Value, X ssa.Value) bool {
	bo, ok := v.(*ssa.BinOp)
	if !ok || bo.Op != token.SUB || !isConstInt(bo.Y, 1) {
		return false
	}
	call, ok := bo.X.(*ssa.Call)
	if !ok {
		return false
	}
	bi, ok := call.Call.Value.(*ssa.Builtin)
	return ok && bi.Name() == "len" && sameSlice(call.Call.Args[0], X)
}

// ruleAelJoinSplice: C01.ael.join — two edges joined at a shared horizontal span are neighbours in the active edge
// list, the left one marked JoinRight. A new left bound is spliced in after the position P its scan stopped at; P
// must not be the left half of a joined pair: on every explored path either `P.joinWith == JoinRight` was tested and
// found false, or P is the successor of an edge for which it was found true (the scan hopped over the pair).
func ruleAelJoinSplice(rule string) func(*Ctx) {
	return func(c *Ctx) {
		f := c.fn("(clipperBase).insertLeftEdge")
		jr := enumByName(c.enumValues("JoinWith"), "JoinRight")
		ex := &explorer{c: c, f: f, canon: canonParams(f, "c", "ae"), pureMemo: true, maxPaths: 4000}
		outs := ex.explore(nil)
		if ex.overflow {
			fatalf("insertLeftEdge: path explosion")
		}
		// a scan whose result is carried out of the loop (`for e := ...; ae2 = e`) is only seen with its carried value
		// unknown: explore again from each loop header
		for _, l := range naturalLoops(f) {
			ex2 := &explorer{c: c, f: f, canon: canonParams(f, "c", "ae"), pureMemo: true, maxPaths: 4000}
			outs = append(outs, ex2.explore(l.header)...)
		}
		bad := ""
		n := 0
		for _, p := range outs {
			if p.end != "return" {
				continue
			}
			var splices []string // the edge after which ae is linked in
			for _, s := range p.stores {
				if strings.HasSuffix(s.addr, ".nextInAEL") && s.val.expr == "ae" {
					splices = append(splices, strings.TrimSuffix(s.addr, ".nextInAEL"))
				}
			}
			for _, cl := range p.calls { // the hand-written linking replaced by the existing insert-after helper
				if cl.callee == "insertRightEdge" && len(cl.args) == 2 && cl.args[1].expr == "ae" {
					splices = append(splices, cl.args[0].expr)
				}
			}
			for _, P := range splices {
				n++
				ok := false
				for _, cd := range p.conds {
					if cd.expr == fmt.Sprintf("(%s.joinWith == %d)", P, jr) && !cd.taken {
						ok = true
					}
					if strings.HasSuffix(P, ".nextInAEL") && cd.expr == fmt.Sprintf("(%s.joinWith == %d)", strings.TrimSuffix(P, ".nextInAEL"), jr) && cd.taken {
						ok = true
					}
				}
				if !ok && bad == "" {
					bad = fmt.Sprintf("the new edge is linked in after %s without that edge's joinWith having been compared with JoinRight (path: %s)", P, p.condString())
				}
			}
		}
		if n < 2 && bad == "" {
			bad = fmt.Sprintf("only %d explored paths link the new edge in after a resident edge", n)
		}
		c.check(bad == "" && n >= 2, rule, rule+":(clipperBase).insertLeftEdge:splice-point", f.Pos(), "(clipperBase).insertLeftEdge",
			fmt.Sprintf("on %d explored splices the position was tested against JoinRight (or is the partner hopped to)", n), bad,
			"an edge inserted between the two halves of a joined pair becomes the partner that split() separates: its output record is overwritten and a polygon of the union is lost or doubled — only inputs with touching collinear horizontal-adjacent edges and a local minimum between them show it")
	}
}

// ruleSplitDedupe: C02.split.dedupe — where doSplitOp decides whether the intersection point needs a vertex of its
// own, the points it is compared with must be those of the two nodes the new vertex would be linked between
// (otherwise a vertex equal to its neighbour enters the ring: a zero-length edge in the result).
func ruleSplitDedupe(rule string) func(*Ctx) {
	return func(c *Ctx) {
		f := c.fn("(clipperBase).doSplitOp")
		n := 0
		for _, b := range f.Blocks {
			for _, in := range b.Instrs {
				al, ok := in.(*ssa.Alloc)
				if !ok || !al.Heap {
					continue
				}
				st, ok := derefStruct(al.Type())
				if !ok {
					continue
				}
				var P ssa.Value
				links := map[string]ssa.Value{}
				for _, r := range *al.Referrers() {
					fa, ok := r.(*ssa.FieldAddr)
					if !ok {
						continue
					}
					name := fieldAliasName(st.Field(fa.Field))
					for _, rr := range *fa.Referrers() {
						if s, ok := rr.(*ssa.Store); ok && s.Addr == fa {
							switch name {
							case "pt":
								P = s.Val
							case "prev", "next":
								links[name] = s.Val
							}
						}
					}
				}
				if P == nil || len(links) != 2 {
					continue
				}
				// conditions on whose false outcome the node is created
				var compared []ssa.Value
				for d := al.Block(); d != nil; d = d.Idom() {
					if len(d.Preds) != 1 {
						continue
					}
					p := d.Preds[0]
					ifi, ok := p.Instrs[len(p.Instrs)-1].(*ssa.If)
					if !ok || p.Succs[1] != d {
						continue
					}
					call, ok := ifi.Cond.(*ssa.Call)
					if !ok || !isCallNamed(c, call, "pointsEqual") || len(call.Call.Args) != 2 {
						continue
					}
					a0, a1 := call.Call.Args[0], call.Call.Args[1]
					if !sameIntValue(a0, P) && a0 != P {
						a0, a1 = a1, a0
					}
					if a0 != P && !sameIntValue(a0, P) {
						continue
					}
					if ld, ok := a1.(*ssa.UnOp); ok && ld.Op == token.MUL {
						if fa, ok := ld.X.(*ssa.FieldAddr); ok {
							compared = append(compared, fa.X)
						}
					}
				}
				if len(compared) == 0 {
					continue // this node is created unconditionally
				}
				n++
				bad := ""
				covered := map[string]bool{}
				for _, x := range compared {
					hit := false
					for name, l := range links {
						if l == x || sameIntValue(l, x) {
							covered[name] = true
							hit = true
						}
					}
					if !hit {
						bad = fmt.Sprintf("the new vertex is compared with %s.pt, but it is linked between %s and %s", valueName(x), valueName(links["prev"]), valueName(links["next"]))
					}
				}
				if bad == "" && len(covered) != 2 {
					bad = "the new vertex is compared with only one of the two nodes it is linked between"
				}
				c.check(bad == "", rule, fmt.Sprintf("%s:doSplitOp:new-vertex#%d", rule, n), al.Pos(), "(clipperBase).doSplitOp",
					"a vertex for the intersection point is created only when it differs from both nodes it is linked between", bad,
					"a vertex equal to its ring neighbour is a zero-length edge in the solution; it sits on the seam where buildPath starts, which de-duplicates only against the previously emitted point")
			}
		}
		c.floor(rule, n, 1)
	}
}

// ruleInvalidateFlag: `flag` caches a fact about `data` (isSortedMinimaList: minimaList is sorted). Every place
// that adds to `data` — an append stored back, or the field's address handed to a callee — must be dominated by
// `flag = false` in the same function.
func ruleInvalidateFlag(rule, typ, data, flag string, min int, why string) func(*Ctx) {
	return func(c *Ctx) {
		n := 0
		for _, f := range c.srcFuncs() {
			var clears []*ssa.Store
			for _, st := range fieldStoresIn(c, f, typ)[flag] {
				if b, ok := constBool(st.Val); ok && !b {
					clears = append(clears, st)
				}
			}
			k := 0
			for _, b := range f.Blocks {
				for idx, in := range b.Instrs {
					what := ""
					switch x := in.(type) {
					case *ssa.Store:
						fa, ok := x.Addr.(*ssa.FieldAddr)
						if ok && typeName(fa.X.Type()) == "*"+typ && fieldName(fa.X.Type(), fa.Field) == data {
							if call, ok := x.Val.(*ssa.Call); ok {
								if bi, ok := call.Call.Value.(*ssa.Builtin); ok && bi.Name() == "append" {
									what = "appends to " + typ + "." + data
								}
							}
						}
					case ssa.CallInstruction:
						for _, a := range x.Common().Args {
							if fa, ok := a.(*ssa.FieldAddr); ok && typeName(fa.X.Type()) == "*"+typ && fieldName(fa.X.Type(), fa.Field) == data {
								what = "hands &" + typ + "." + data + " to " + calleeName(c, x)
							}
						}
					}
					if what == "" {
						continue
					}
					k++
					n++
					ok := false
					for _, cl := range clears {
						if cl.Block() == b {
							for j := 0; j < idx; j++ {
								if b.Instrs[j] == ssa.Instruction(cl) {
									ok = true
								}
							}
						} else if cl.Block().Dominates(b) {
							ok = true
						}
					}
					if !ok {
						ok = clearedAfter(c, in, typ, flag, data)
					}
					c.check(ok, rule, fmt.Sprintf("%s:%s:%s#%d", rule, c.fname(f), data, k), in.Pos(), c.fname(f),
						what+" after "+flag+" = false", what+" without setting "+flag+" = false first: the next run believes the list is still in the order of the previous run", why)
				}
			}
		}
		c.floor(rule, n, min)
		// the flag is only ever assigned a constant: false where the list may have grown, true right after sorting.
		// (`flag = len(list) == before` sets it TRUE for an unsorted list to which nothing was added.)
		for _, f := range c.srcFuncs() {
			for i, st := range fieldStoresIn(c, f, typ)[flag] {
				b, isConst := constBool(st.Val)
				bad := ""
				if !isConst {
					bad = flag + " is assigned a computed value: a call that adds nothing must leave the flag as it is, not set it"
				} else if b {
					sorted := false
					for _, ci := range calls(f) {
						if n := calleeName(c, ci); (strings.HasPrefix(n, "sort.") || strings.HasPrefix(n, "slices.Sort")) && precedes(ci, st) {
							sorted = true
						}
					}
					if !sorted {
						bad = flag + " is set to true without the list having been sorted in the same function"
					}
				}
				c.check(bad == "", rule, fmt.Sprintf("%s:%s:%s-const#%d", rule, c.fname(f), flag, i+1), st.Pos(), c.fname(f),
					flag+" is assigned a constant (false on growth, true after the sort)", bad, why)
			}
		}
	}
}

// clearedAfter: every path from the growth site to a return passes an instruction that clears the flag: a store of
// the constant false, or a call to a helper the reference record does not know every return path of which stores
// false or has found that the list did not grow (a test of len(list)).
func clearedAfter(c *Ctx, site ssa.Instruction, typ, flag, data string) bool {
	f := site.Parent()
	clearing := func(in ssa.Instruction) bool {
		switch x := in.(type) {
		case *ssa.Store:
			if fa, ok := x.Addr.(*ssa.FieldAddr); ok && typeName(fa.X.Type()) == "*"+typ && fieldName(fa.X.Type(), fa.Field) == flag {
				b, isConst := constBool(x.Val)
				return isConst && !b
			}
		case ssa.CallInstruction:
			h := x.Common().StaticCallee()
			if h == nil || !c.freshFunc(h) || !loopFree(h) {
				return false
			}
			ex := &explorer{c: c, f: h, maxPaths: 500}
			outs := ex.explore(nil)
			if ex.overflow || len(outs) == 0 {
				return false
			}
			for _, p := range outs {
				if p.end != "return" {
					continue
				}
				ok := false
				for _, sr := range p.stores {
					if strings.HasSuffix(sr.addr, "."+flag) {
						ok = sr.val.abs.k == aBool && !sr.val.abs.b
					}
				}
				if !ok {
					for _, cd := range p.conds {
						if strings.Contains(cd.expr, "len(") && strings.Contains(cd.expr, "."+data) {
							ok = true // the helper found the list no longer than before
						}
					}
				}
				if !ok {
					return false
				}
			}
			return true
		}
		return false
	}
	// forward search from the site: can a return be reached without passing a clearing instruction?
	type pos struct {
		b *ssa.BasicBlock
		i int
	}
	start := pos{site.Block(), instrIndex(site) + 1}
	seen := map[*ssa.BasicBlock]bool{}
	work := []pos{start}
	for len(work) > 0 {
		p := work[len(work)-1]
		work = work[:len(work)-1]
		blocked := false
		for j := p.i; j < len(p.b.Instrs); j++ {
			if clearing(p.b.Instrs[j]) {
				blocked = true
				break
			}
			if _, isRet := p.b.Instrs[j].(*ssa.Return); isRet {
				return false
			}
		}
		if blocked {
			continue
		}
		for _, sb := range p.b.Succs {
			if !seen[sb] {
				seen[sb] = true
				work = append(work, pos{sb, 0})
			}
		}
	}
	_ = f
	return true
}

// stickyOr: the stored value is `flag || x`: a phi of the constant true (taken when the flag's own current value is
// true) and any other value (taken when it is false, so storing false changes nothing).
func stickyOr(st *ssa.Store, typ, field string) bool {
	phi, ok := st.Val.(*ssa.Phi)
	if !ok || len(phi.Edges) != 2 {
		return false
	}
	tv, _, cond := phiByCond(phi)
	if cond == nil {
		// `a || b` is lowered as: if a goto done else rhs; done: phi [a-block: true, rhs: b]
		b := phi.Block()
		for i, p := range b.Preds {
			ifi, ok := p.Instrs[len(p.Instrs)-1].(*ssa.If)
			if ok && p.Succs[0] == b && isFieldLoadOf(ifi.Cond, typ, field) {
				if k, ok := constBool(phi.Edges[i]); ok && k {
					return true
				}
			}
		}
		return false
	}
	k, ok := constBool(tv)
	return ok && k && isFieldLoadOf(cond, typ, field)
}

// ruleNoStaleGuard: fields that are recomputed for every group (the round-join step) must not be assigned under a
// condition that reads one of those same fields: their current value is left over from the previous group or the
// previous execution, so "skip the recomputation when nothing changed" keeps a value computed for another delta sign.
func ruleNoStaleGuard(rule, typ string, fields []string, min int, why string) func(*Ctx) {
	return func(c *Ctx) {
		in := map[string]bool{}
		for _, f := range fields {
			in[f] = true
		}
		var reads func(v ssa.Value, depth int) string
		reads = func(v ssa.Value, depth int) string {
			if depth > 8 {
				return ""
			}
			switch x := v.(type) {
			case *ssa.UnOp:
				if x.Op == token.MUL {
					if fa, ok := x.X.(*ssa.FieldAddr); ok && typeName(fa.X.Type()) == "*"+typ && in[fieldName(fa.X.Type(), fa.Field)] {
						return fieldName(fa.X.Type(), fa.Field)
					}
					return ""
				}
				return reads(x.X, depth+1)
			case *ssa.BinOp:
				if r := reads(x.X, depth+1); r != "" {
					return r
				}
				return reads(x.Y, depth+1)
			case *ssa.Convert:
				return reads(x.X, depth+1)
			case *ssa.Phi:
				for _, e := range x.Edges {
					if r := reads(e, depth+1); r != "" {
						return r
					}
				}
			case *ssa.Call:
				for _, a := range x.Call.Args {
					if r := reads(a, depth+1); r != "" {
						return r
					}
				}
			}
			return ""
		}
		n := 0
		for _, f := range c.srcFuncs() {
			stores := fieldStoresIn(c, f, typ)
			k := 0
			for _, fld := range fields {
				for _, st := range stores[fld] {
					k++
					n++
					bad := ""
					for d := st.Block(); d != nil; d = d.Idom() {
						if len(d.Preds) != 1 {
							continue
						}
						p := d.Preds[0]
						ifi, ok := p.Instrs[len(p.Instrs)-1].(*ssa.If)
						if !ok || p.Succs[0] == p.Succs[1] {
							continue
						}
						if r := reads(ifi.Cond, 0); r != "" {
							bad = fmt.Sprintf("%s.%s is assigned only when a test on %s.%s (at %s) allows it: that value was computed for the previous group or run", typ, fld, typ, r, c.pos(ifi.Cond.Pos()))
						}
					}
					c.check(bad == "", rule, fmt.Sprintf("%s:%s:%s#%d", rule, c.fname(f), fld, k), st.Pos(), c.fname(f),
						typ+"."+fld+" is assigned under conditions that read configuration only", bad, why)
				}
			}
		}
		c.floor(rule, n, min)
	}
}

// rulePrevHotEdge: C09.prev-hot — getPrevHotEdge returns the nearest edge to the left that is producing output AND
// belongs to a closed path; the orientation of a new closed ring is taken from it. On every explored path that
// returns an edge, that edge was tested hot and tested not open.
func rulePrevHotEdge(rule string) func(*Ctx) {
	return func(c *Ctx) {
		f := c.fn("getPrevHotEdge")
		ex := &explorer{c: c, f: f, canon: canonParams(f, "ae"), maxPaths: 2000}
		outs := ex.explore(nil)
		bad := ""
		n := 0
		for _, p := range outs {
			if p.end != "return" || len(p.ret) != 1 || p.ret[0].abs.k == aNil {
				continue
			}
			r := p.ret[0].expr
			n++
			hot, closed := false, false
			for _, cd := range p.conds {
				if cd.expr == "isHotEdge("+r+")" && cd.taken {
					hot = true
				}
				if cd.expr == "isOpen("+r+")" && !cd.taken {
					closed = true
				}
			}
			// a nil result reached through the loop condition is fine; an edge must have passed both tests
			nilPath := false
			for _, cd := range p.conds {
				if cd.expr == "("+r+" != nil)" && !cd.taken || cd.expr == "("+r+" == nil)" && cd.taken {
					nilPath = true
				}
			}
			if nilPath {
				continue
			}
			if (!hot || !closed) && bad == "" {
				bad = fmt.Sprintf("returns %s without having found it hot=%v and not open=%v (path: %s)", r, hot, closed, p.condString())
			}
		}
		c.check(bad == "" && n > 0, rule, rule+":getPrevHotEdge:closed-and-hot", f.Pos(), "getPrevHotEdge",
			fmt.Sprintf("on %d explored paths the edge returned was tested hot and tested closed", n), bad,
			"a new closed ring takes its orientation from the previous hot edge; an open polyline in between has no inside, and using it turns the ring inside out (only with an open path of 3+ vertices hot to the left of a closed local minimum)")
	}
}

// ruleRetireBeforeRelabel: C06.retire — when tidyEdgePair merges the ring of node X into another ring
// (setNewOwner(X, Y.ownerIdx)), the result slot of X's OLD owner is emptied first: `results[X.ownerIdx] = nil` must be
// executed before the call, because the call rewrites X.ownerIdx.
func ruleRetireBeforeRelabel(rule string) func(*Ctx) {
	return func(c *Ctx) {
		f := c.fn("(RectClip64).tidyEdgePair")
		ownerLoadOf := func(v ssa.Value) ssa.Value { // v = *(&X.ownerIdx) -> X
			u, ok := v.(*ssa.UnOp)
			if !ok || u.Op != token.MUL {
				return nil
			}
			fa, ok := u.X.(*ssa.FieldAddr)
			if !ok || fieldName(fa.X.Type(), fa.Field) != "ownerIdx" {
				return nil
			}
			return fa.X
		}
		n := 0
		for _, b := range f.Blocks {
			for idx, in := range b.Instrs {
				call, ok := in.(*ssa.Call)
				if !ok || !isCallNamed(c, call, "setNewOwner") || len(call.Call.Args) != 2 {
					continue
				}
				if ownerLoadOf(call.Call.Args[1]) == nil {
					continue // a brand-new index: nothing to retire
				}
				X := call.Call.Args[0]
				n++
				// the index of some `results[t] = nil` is X.ownerIdx READ before the call (the store itself may come later)
				before := map[ssa.Value]bool{}
				for _, pi := range b.Instrs[:idx] {
					if v, ok := pi.(ssa.Value); ok && ownerLoadOf(v) == X {
						before[v] = true
					}
				}
				for d := b.Idom(); d != nil; d = d.Idom() {
					for _, pi := range d.Instrs {
						if v, ok := pi.(ssa.Value); ok && ownerLoadOf(v) == X {
							before[v] = true
						}
					}
				}
				retired := false
				for _, bb := range f.Blocks {
					for _, pi := range bb.Instrs {
						st, ok := pi.(*ssa.Store)
						if !ok {
							continue
						}
						if k, isNil := st.Val.(*ssa.Const); !isNil || !k.IsNil() {
							continue
						}
						if ia, ok := st.Addr.(*ssa.IndexAddr); ok && before[ia.Index] {
							retired = true
						}
					}
				}
				c.check(retired, rule, fmt.Sprintf("%s:tidyEdgePair:merge#%d", rule, n), call.Pos(), "(RectClip64).tidyEdgePair",
					"the old owner's result slot is emptied before the ring is relabelled",
					"setNewOwner("+valueName(X)+", …) runs before results["+valueName(X)+".ownerIdx] = nil: the index read afterwards is the NEW owner, so the merged ring's own slot is emptied or the old slot keeps a second copy",
					"a ring that was split along one rectangle edge and is rejoined along another must end up in exactly one result slot; otherwise the polygon is emitted twice (winding 2) or lost")
			}
		}
		c.floor(rule, n, 1)
	}
}

// ruleInitOnlyField: an emitted output vertex is never moved: the field is written only while the node is being
// constructed (a store into the node the same function has just allocated).
func ruleInitOnlyField(rule, typ, field string, min int, why string) func(*Ctx) {
	return func(c *Ctx) {
		n := 0
		for _, f := range c.srcFuncs() {
			k := 0
			for _, st := range fieldStoresIn(c, f, typ)[field] {
				k++
				n++
				fa := st.Addr.(*ssa.FieldAddr)
				_, fresh := fa.X.(*ssa.Alloc)
				if !fresh {
					// moving the last vertex along a straight run is harmless only if the run continues in the SAME
					// direction: accepted when a sign test of a dot product guards the store
					dirTest := func(v ssa.Value) bool {
						bo, ok := v.(*ssa.BinOp)
						if !ok {
							return false
						}
						for _, o := range []ssa.Value{bo.X, bo.Y} {
							if call, ok := o.(*ssa.Call); ok && strings.Contains(strings.ToLower(calleeName(c, call)), "dotproduct") {
								return true
							}
						}
						return false
					}
					fresh = guardedBy(st, true, dirTest) || guardedBy(st, false, dirTest)
				}
				c.check(fresh, rule, fmt.Sprintf("%s:%s:%s#%d", rule, c.fname(f), field, k), st.Pos(), c.fname(f),
					typ+"."+field+" is written while the node is constructed (or moved along a run whose direction was tested)", typ+"."+field+" of an EXISTING node ("+valueName(fa.X)+") is overwritten without a direction test: a vertex already in the output is moved, also when the path doubles back", why)
			}
		}
		c.floor(rule, n, min)
	}
}

// ruleHorzJoinRoles: C01.horz-roles — two overlapping horizontal output segments of opposite direction are joined
// by duplicating one end node of each; duplicateOp's flag says on which side of the node the copy goes and must be
// true exactly for the segment that runs left to right. Which of the pair that is follows from the branch the call
// sits in (`if hs1.leftToRight` / else, the two directions being different).
func ruleHorzJoinRoles(rule string) func(*Ctx) {
	return func(c *Ctx) {
		f := c.fn("(clipperBase).convertHorzSegsToJoins")
		segOf := func(v ssa.Value, field string) ssa.Value { // v = *(&H.field) -> H
			u, ok := v.(*ssa.UnOp)
			if !ok || u.Op != token.MUL {
				return nil
			}
			fa, ok := u.X.(*ssa.FieldAddr)
			if !ok || fieldName(fa.X.Type(), fa.Field) != field {
				return nil
			}
			return fa.X
		}
		n := 0
		for _, b := range f.Blocks {
			for _, in := range b.Instrs {
				call, ok := in.(*ssa.Call)
				if !ok || !isCallNamed(c, call, "duplicateOp") || len(call.Call.Args) != 2 {
					continue
				}
				H := segOf(call.Call.Args[0], "leftOp")
				flag, okb := constBool(call.Call.Args[1])
				if H == nil || !okb {
					continue
				}
				// direction knowledge from the dominating test on some segment's leftToRight
				var known ssa.Value
				ltr := false
				for _, p := range f.Blocks {
					ifi, ok := p.Instrs[len(p.Instrs)-1].(*ssa.If)
					if !ok || known != nil {
						continue
					}
					s := segOf(ifi.Cond, "leftToRight")
					if s == nil {
						continue
					}
					for k, arm := range p.Succs {
						// the arm is entered only through this test (other predecessors are its own back edges)
						only := true
						for _, q := range arm.Preds {
							if q != p && !arm.Dominates(q) {
								only = false
							}
						}
						if only && arm.Dominates(b) {
							known, ltr = s, k == 0
						}
					}
				}
				if known == nil {
					continue
				}
				n++
				isLTR := ltr
				if H != known {
					isLTR = !ltr // the two segments of a pair run in opposite directions
				}
				c.check(flag == isLTR, rule, fmt.Sprintf("%s:convertHorzSegsToJoins:dup#%d", rule, n), call.Pos(), "(clipperBase).convertHorzSegsToJoins",
					fmt.Sprintf("duplicateOp(%s.leftOp, %v): the segment runs left-to-right=%v", valueName(H), flag, isLTR),
					fmt.Sprintf("duplicateOp(%s.leftOp, %v) although on this branch that segment runs left-to-right=%v: the two rings are spliced the wrong way round", valueName(H), flag, isLTR),
					"a horizontal join splices two rings (or one ring with itself) at touching horizontal edges; with the roles exchanged in one direction case, holes are lost or regions added only for inputs whose first-sorted segment runs right to left")
			}
		}
		c.floor(rule, n, 4)
	}
}

// ruleSplitOnAdvance: C01.join.advance — two edges are joined only while their current segments coincide; when an
// edge moves on to its next segment (updateEdgeIntoAEL) the join must be undone whatever the new segment looks
// like: on every explored path to a return, isJoined(edge) has been tested, and where it held split was called.
func ruleSplitOnAdvance(rule string) func(*Ctx) {
	return func(c *Ctx) {
		f := c.fn("(clipperBase).updateEdgeIntoAEL")
		ex := &explorer{c: c, f: f, canon: canonParams(f, "c", "ae"), maxPaths: 2000}
		outs := ex.explore(nil)
		bad := ""
		n := 0
		for _, p := range outs {
			if p.end != "return" {
				continue
			}
			n++
			tested, joined := false, false
			for _, cd := range p.conds {
				if cd.expr == "isJoined(ae)" {
					tested, joined = true, cd.taken
				}
			}
			// `if isJoined(e) { c.split(e, pt) }` applied by a helper the reference record does not know to every edge
			// it is handed (a variadic splitJoined(pt, edges...)): the edge is among them
			for _, cl := range p.calls {
				if cl.instr == nil || tested {
					continue
				}
				h := cl.instr.Common().StaticCallee()
				if h == nil || !c.freshFunc(h) || len(callsTo(c, h, "isJoined")) == 0 || len(callsTo(c, h, "(clipperBase).split")) == 0 {
					continue
				}
				for _, a := range cl.instr.Common().Args {
					vals := []ssa.Value{a}
					if sl, ok := a.(*ssa.Slice); ok {
						vals = appendedValues(sl)
					}
					for _, v := range vals {
						if pr, ok := v.(*ssa.Parameter); ok && ex.cn(pr.Name()) == "ae" {
							tested, joined = true, false // the helper does the test and the split itself
						}
					}
				}
			}
			switch {
			case !tested:
				bad = fmt.Sprintf("returns without having tested isJoined(ae) (path: %s)", p.condString())
			case joined && !p.called("(clipperBase).split"):
				bad = "the edge is joined and split is not called"
			}
		}
		c.check(bad == "" && n >= 2, rule, rule+":(clipperBase).updateEdgeIntoAEL:every-exit", f.Pos(), "(clipperBase).updateEdgeIntoAEL",
			fmt.Sprintf("isJoined(ae) is tested (and split called when it holds) on all %d explored exits, the horizontal one included", n), bad,
			"a joined edge that turns horizontal without being split keeps a partner it no longer coincides with: the next intersection or maximum splits the wrong pair — lost holes, missing regions, a nil dereference for some inputs with collinear runs that turn horizontal")
	}
}

// ruleMergedOwner: C01.merged-owner — when the points of one output record are spliced into another record's ring,
// the emptied record (pts = nil) must be given an owner on the same path, in tree mode and in flat mode alike:
// getRealOutRec resolves a stale reference to an emptied record by following its owner links.
func ruleMergedOwner(rule string) func(*Ctx) {
	return func(c *Ctx) {
		type site struct {
			fn   string
			loop bool
		}
		n := 0
		for _, s := range []site{{"(clipperBase).processHorzJoins", true}, {"(clipperBase).joinOutrecPaths", false}} {
			f := c.fn(s.fn)
			ex := &explorer{c: c, f: f, maxPaths: 4000}
			var outs []*pathOutcome
			if s.loop {
				loops := naturalLoops(f)
				if len(loops) != 1 {
					fatalf("%s: expected one loop", s.fn)
				}
				ll := loops[0]
				ex.stop = func(b *ssa.BasicBlock) bool { return !ll.blocks[b] }
				outs = ex.explore(ll.header)
			} else {
				outs = ex.explore(nil)
			}
			if ex.overflow {
				fatalf("%s: path explosion", s.fn)
			}
			bad := ""
			k := 0
			for _, p := range outs {
				if p.end != "loop" && p.end != "return" {
					continue
				}
				for si, st := range p.stores {
					if !strings.HasSuffix(st.addr, ".pts") || st.val.abs.k != aNil {
						continue
					}
					X := strings.TrimSuffix(st.addr, ".pts")
					// only records whose ring went elsewhere: a merge, not a discard — the first such store on the path
					k++
					owned := false
					after := false
					for _, q := range p.seq {
						if q == -(si + 1) {
							after = true
							continue
						}
						if !after {
							continue
						}
						if q < 0 && p.stores[-q-1].addr == X+".owner" {
							owned = true
						}
						if q > 0 && strings.HasSuffix(p.calls[q-1].callee, "setOwner") && len(p.calls[q-1].args) > 0 && roleArg(p.calls[q-1], "outrec", 0).expr == X { // the record that gets the owner, by parameter NAME (the parameters may have been reordered)
							owned = true
						}
					}
					if !owned && bad == "" {
						bad = fmt.Sprintf("%s is emptied (pts = nil) and gets no owner on the path [%s]", X, p.condString())
					}
					break
				}
			}
			n++
			c.check(bad == "" && k > 0, rule, fmt.Sprintf("%s:%s:emptied-record", rule, s.fn), f.Pos(), s.fn,
				fmt.Sprintf("on %d explored paths the emptied record is given an owner (store or setOwner) after pts = nil", k), bad,
				"a later join or split that still refers to the emptied record finds the surviving ring through its owner; without the link in flat mode a chain of three touching polygons loses a region or dereferences nil")
		}
		c.floor(rule, n, 2)
	}
}

// ruleShoelaceConvention: every signed-area function of the package sums, per edge from vertex P (previous) to
// vertex C (current), the term (P.Y + C.Y) * (P.X - C.X). doSplitOp compares the sign of areaTriangle with that of
// areaOP, IsPositive64 and the offsetter compare Area64 with 0: one function written in the opposite convention
// (C.X - P.X) flips exactly those decisions. The rule finds each such product in the syntax tree, checks that both
// factors name the same two vertices, and that the X difference is previous-minus-current, "previous" being
// x.prev of a ring node, the lagging variable of a range loop, or the cyclic predecessor among the parameters.
func ruleShoelaceConvention(rule string, fns []string, minTerms int) func(*Ctx) {
	return func(c *Ctx) {
		n := 0
		for _, fn := range fns {
			fd := c.decl(fn)
			params := []string{}
			for _, fl := range fd.Type.Params.List {
				for _, nm := range fl.Names {
					params = append(params, nm.Name)
				}
			}
			strip := func(e ast.Expr) ast.Expr {
				for {
					switch x := e.(type) {
					case *ast.ParenExpr:
						e = x.X
						continue
					case *ast.CallExpr:
						if id, ok := x.Fun.(*ast.Ident); ok && id.Name == "float64" && len(x.Args) == 1 {
							e = x.Args[0]
							continue
						}
					}
					return e
				}
			}
			axisPair := func(e ast.Expr, op token.Token, axis string) (string, string, bool) {
				be, ok := strip(e).(*ast.BinaryExpr)
				if !ok || be.Op != op {
					return "", "", false
				}
				l, ok1 := strip(be.X).(*ast.SelectorExpr)
				r, ok2 := strip(be.Y).(*ast.SelectorExpr)
				if !ok1 || !ok2 || l.Sel.Name != axis || r.Sel.Name != axis {
					return "", "", false
				}
				return render(l.X), render(r.X), true
			}
			// lagging variables: `prev = cur` inside a `for _, cur := range` body
			lag := map[string]string{}
			ast.Inspect(fd.Body, func(nd ast.Node) bool {
				rs, ok := nd.(*ast.RangeStmt)
				if !ok || rs.Value == nil {
					return true
				}
				cur := render(rs.Value)
				for _, s := range rs.Body.List {
					if as, ok := s.(*ast.AssignStmt); ok && len(as.Lhs) == 1 && len(as.Rhs) == 1 && render(as.Rhs[0]) == cur {
						lag[render(as.Lhs[0])] = cur
					}
				}
				return true
			})
			k := 0
			ast.Inspect(fd.Body, func(nd ast.Node) bool {
				var x, y ast.Expr
				switch e := nd.(type) {
				case *ast.BinaryExpr:
					if e.Op != token.MUL {
						return true
					}
					x, y = e.X, e.Y
				case *ast.CallExpr:
					if id, ok := e.Fun.(*ast.Ident); !ok || id.Name != "mulInt64" || len(e.Args) != 2 {
						return true
					}
					x, y = e.Args[0], e.Args[1]
				default:
					return true
				}
				yp, yq, ok1 := axisPair(x, token.ADD, "Y")
				xr, xs, ok2 := axisPair(y, token.SUB, "X")
				if !ok1 || !ok2 {
					yp, yq, ok1 = axisPair(y, token.ADD, "Y")
					xr, xs, ok2 = axisPair(x, token.SUB, "X")
				}
				if !ok1 || !ok2 {
					return true
				}
				k++
				n++
				bad := ""
				if !((yp == xr && yq == xs) || (yp == xs && yq == xr)) {
					bad = fmt.Sprintf("the Y sum is over (%s, %s) but the X difference over (%s, %s): not one edge", yp, yq, xr, xs)
				} else {
					// xr - xs: is xr the previous vertex of xs?
					rel := ""
					idx := func(s string) int {
						for i, p := range params {
							if p == s {
								return i
							}
						}
						return -1
					}
					switch {
					case strings.TrimSuffix(xr, ".pt") == strings.TrimSuffix(xs, ".pt")+".prev":
						rel = "prev-cur"
					case strings.TrimSuffix(xs, ".pt") == strings.TrimSuffix(xr, ".pt")+".prev":
						rel = "cur-prev"
					case strings.TrimSuffix(xs, ".pt") == strings.TrimSuffix(xr, ".pt")+".next":
						rel = "prev-cur"
					case strings.TrimSuffix(xr, ".pt") == strings.TrimSuffix(xs, ".pt")+".next":
						rel = "cur-prev"
					case lag[xr] == xs:
						rel = "prev-cur"
					case lag[xs] == xr:
						rel = "cur-prev"
					case idx(xr) >= 0 && idx(xs) >= 0 && len(params) >= 3:
						if (idx(xr)+1)%len(params) == idx(xs) {
							rel = "prev-cur"
						} else if (idx(xs)+1)%len(params) == idx(xr) {
							rel = "cur-prev"
						}
					}
					switch rel {
					case "prev-cur":
					case "cur-prev":
						bad = fmt.Sprintf("the term is (%s.Y + %s.Y) * (%s.X - %s.X): current minus previous, the opposite of the package's convention — this area has the opposite sign of Area64/areaOP for the same ring", yp, yq, xr, xs)
					default:
						bad = fmt.Sprintf("cannot tell which of %s, %s is the previous vertex", xr, xs)
					}
				}
				c.check(bad == "", rule, fmt.Sprintf("%s:%s:term#%d", rule, fn, k), nd.Pos(), fn,
					fmt.Sprintf("(%s.Y + %s.Y) * (%s.X - %s.X): previous minus current", yp, yq, xr, xs), bad,
					"signs of areas are compared across functions (doSplitOp: triangle vs ring; IsPositive64; offset orientation): one function in the opposite convention keeps or discards the wrong loop when a ring is repaired, only for rings that cross themselves after rounding")
				return true
			})
		}
		c.floor(rule, n, minTerms)
	}
}

// ruleOpenCutCandidates: C09.cut-at — which closed edges may cut an open path: under Union the edges that bound the
// union (the closed edge is producing output), under Intersection and Difference the clip set's boundary edges,
// whatever the subject polygons do. (Xor is not constrained by the property.)
func ruleOpenCutCandidates(rule string) func(*Ctx) {
	return func(c *Ctx) {
		f := c.fn("(clipperBase).intersectEdges")
		recv := f.Params[0].Name()
		fills := c.enumValues("FillRule")
		clips := c.enumValues("ClipType")
		polys := c.enumValues("PathType")
		effects := []string{"addOutPt", "(clipperBase).startOpenPath", "setSides"}
		for _, ct := range clips {
			if ct.name == "NoClip" || ct.name == "Xor" {
				continue
			}
			bad := ""
			n := 0
			for _, pt := range polys {
				for _, hot := range []bool{false, true} {
					atoms := map[string]absVal{
						recv + ".hasOpenPaths": boolVal(true), "isOpen(ae1)": boolVal(true), "isOpen(ae2)": boolVal(false), "isJoined(ae2)": boolVal(false),
						recv + ".fillRule": intVal(enumByName(fills, "NonZero")), recv + ".clipType": intVal(ct.val),
						"ae2.localMin.PolyType": intVal(pt.val), "getPolyType(ae2)": intVal(pt.val), "ae2.windCount": intVal(1), "isHotEdge(ae2)": boolVal(hot),
					}
					ex := &explorer{c: c, f: f, atoms: atoms, canon: canonParams(f, recv, "ae1", "ae2", "pt"), maxPaths: 4000}
					outs := ex.explore(nil)
					if ex.overflow {
						fatalf("intersectEdges: path explosion")
					}
					has := false
					for _, p := range outs {
						for _, e := range effects {
							if p.called(e) {
								has = true
							}
						}
					}
					want := pt.name == "Clip"
					if ct.name == "Union" {
						want = hot
					}
					n++
					if has != want && bad == "" {
						bad = fmt.Sprintf("%s: an open path meeting a closed %s boundary edge (producing output=%v) is cut=%v, the property's coverage table requires %v", ct.name, pt.name, hot, has, want)
					}
				}
			}
			c.check(bad == "", rule, fmt.Sprintf("%s:intersectEdges:%s", rule, ct.name), f.Pos(), "(clipperBase).intersectEdges",
				fmt.Sprintf("%d cells (closed edge's set x producing output): open paths are cut at the union's boundary (Union) / at clip boundaries (Intersection, Difference)", n), bad,
				"Union keeps the parts of a line outside BOTH sets, so it must be cut where it enters a subject polygon too; Intersection/Difference look at the clip set only")
		}
	}
}

// ruleDescaleExact: C07.descale — scaling 64-bit results back to float goes through the decimal library (an exact
// product, rounded once); no coordinate converted to float64 takes part in a float multiplication or division in
// the de-scaling function, on any path (a "fast path" through float arithmetic double-rounds above 2^53).
func ruleDescaleExact(rule string, fns []string) func(*Ctx) {
	return func(c *Ctx) {
		n := 0
		for _, fn := range fns {
			f := c.fn(fn)
			bad := ""
			conv := 0
			for _, b := range f.Blocks {
				for _, in := range b.Instrs {
					bo, ok := in.(*ssa.BinOp)
					if !ok || !isFloat(bo.Type()) || (bo.Op != token.MUL && bo.Op != token.QUO) {
						continue
					}
					for _, o := range []ssa.Value{bo.X, bo.Y} {
						if cv, ok := o.(*ssa.Convert); ok && !isFloat(cv.X.Type()) {
							bad = fmt.Sprintf("a coordinate converted to float64 is %s at %s", map[token.Token]string{token.MUL: "multiplied", token.QUO: "divided"}[bo.Op], c.pos(bo.Pos()))
						}
					}
				}
			}
			for _, ci := range calls(f) {
				if strings.Contains(calleeName(c, ci), "decimal") {
					conv++
				}
			}
			n++
			c.check(bad == "" && conv > 0, rule, fmt.Sprintf("%s:%s:exact-product", rule, fn), f.Pos(), fn,
				fmt.Sprintf("every result coordinate comes out of the decimal library (%d calls); no float product or quotient of a converted coordinate", conv), bad,
				"float64(c)/10^p is not the correctly rounded value of c*10^-p once c exceeds 2^53 or the quotient needs two roundings: the D result then differs from the 64-bit result scaled back")
		}
		c.floor(rule, n, len(fns))
	}
}

// ruleRectSkipOnly: a path is left out of the rectangle clippers' result without being looked at only because it
// has too few points or because its bounds miss the rectangle — no other test may drop it (a polyline along an axis
// has "empty" bounds and still crosses the rectangle).
func ruleRectSkipOnly(rule string, fn string, work []string) func(*Ctx) {
	return func(c *Ctx) {
		f := c.fn(fn)
		var outer *loopInfo
		for _, l := range naturalLoops(f) {
			if outer == nil || len(l.blocks) > len(outer.blocks) {
				outer = l
			}
		}
		if outer == nil {
			fatalf("%s: no loop", fn)
		}
		ll := outer
		outs := (&explorer{c: c, f: f, maxPaths: 4000, stop: func(b *ssa.BasicBlock) bool { return !ll.blocks[b] }}).explore(outer.header)
		bad := ""
		skips := 0
		for _, p := range outs {
			if p.end != "loop" {
				continue
			}
			worked := p.called("builtin.append")
			for _, w := range work {
				if p.called(w) {
					worked = true
				}
			}
			if worked {
				continue
			}
			skips++
			for _, cd := range p.conds {
				switch {
				case strings.Contains(cd.expr, "rangeindex"), strings.HasPrefix(cd.expr, "(len("):
				case strings.HasPrefix(cd.expr, "(Rect64).Intersects("), strings.HasPrefix(cd.expr, "(Rect64).Contains("):
				default:
					if bad == "" {
						bad = fmt.Sprintf("a path is skipped on the outcome of %s (=%v)", cd.expr, cd.taken)
					}
				}
			}
		}
		c.check(bad == "" && skips > 0, rule, rule+":"+fn+":skips", f.Pos(), fn,
			fmt.Sprintf("%d explored ways to skip a path: only a length test or `bounds miss the rectangle`", skips), bad,
			"an axis-parallel polyline (or a degenerate polygon) has bounds of zero width or height and still crosses the rectangle: dropping it on any test other than disjointness loses a line the property requires")
	}
}

// ruleSimplifyEarly: C16.early — SimplifyPath returns its input untouched only for paths too short to simplify
// (fewer than 4 points); any other "nothing to do" shortcut must be exact for every vertex, the last one of a closed
// path included, and there is none today.
func ruleSimplifyEarly(rule string, fns []string) func(*Ctx) {
	return func(c *Ctx) {
		for _, fn := range fns {
			f := c.fn(fn)
			ex := &explorer{c: c, f: f, canon: canonParams(f, "path", "epsilon", "isClosedPath"), maxPaths: 60000}
			outs := ex.explore(nil)
			if ex.overflow {
				fatalf("%s: path explosion", fn)
			}
			bad := ""
			n := 0
			for _, p := range outs {
				if p.end != "return" || len(p.ret) != 1 || p.ret[0].expr != "path" {
					continue
				}
				n++
				for _, cd := range p.conds {
					if !strings.HasPrefix(cd.expr, "(len(path) ") {
						if bad == "" {
							bad = fmt.Sprintf("the input is returned unchanged depending on %s", cd.expr)
						}
					}
				}
			}
			c.check(bad == "" && n > 0, rule, rule+":"+fn+":unchanged-return", f.Pos(), fn,
				fmt.Sprintf("the input itself is returned on %d path(s), decided by its length alone", n), bad,
				"a shortcut that skips the removal loop must look at every distance the loop would look at; one that misses a vertex keeps a point within epsilon of its neighbours' line for one rotation of the same ring only")
		}
	}
}

// ruleIntersectPointMirror: C10.ipt — intersectPoint(line1, line2) treats "line 1 is vertical" and "line 2 is
// vertical" separately; the point it returns in one case must be the other case's point with the two lines
// exchanged. Values are compared as expressions over the four parameters, so locals and extracted helpers do not
// matter.
func ruleIntersectPointMirror(rule string) func(*Ctx) {
	return func(c *Ctx) {
		f := c.fn("intersectPoint")
		ex := &explorer{c: c, f: f, canon: canonParams(f, "pt1a", "pt1b", "pt2a", "pt2b"), maxPaths: 200}
		outs := ex.explore(nil)
		swap := func(s string) string {
			return strings.NewReplacer("pt1", "pt\x00", "pt2", "pt1").Replace(s)
		}
		fix := func(s string) string { return strings.ReplaceAll(s, "pt\x00", "pt2") }
		mirror := func(s string) string { return fix(swap(s)) }
		get := func(v1, v2 bool) (string, string, bool) {
			for _, p := range outs {
				if p.end != "return" {
					continue
				}
				a, b := 0, 0 // 1 taken, 2 not
				for _, cd := range p.conds {
					switch cd.expr {
					case "isAlmostZero((pt1a.X - pt1b.X))":
						a = map[bool]int{true: 1, false: 2}[cd.taken]
					case "isAlmostZero((pt2a.X - pt2b.X))":
						b = map[bool]int{true: 1, false: 2}[cd.taken]
					}
				}
				if a == map[bool]int{true: 1, false: 2}[v1] && b == map[bool]int{true: 1, false: 2}[v2] {
					x, y := "", ""
					for _, s := range p.stores {
						if strings.HasSuffix(s.addr, ".X") {
							x = s.val.expr
						}
						if strings.HasSuffix(s.addr, ".Y") {
							y = s.val.expr
						}
					}
					return x, y, true
				}
			}
			return "", "", false
		}
		x1, y1, ok1 := get(true, false)
		x2, y2, ok2 := get(false, true)
		if !ok1 || !ok2 {
			fatalf("intersectPoint: the two vertical-line cases were not found")
		}
		bad := ""
		if mirror(x1) != x2 || mirror(y1) != y2 {
			bad = fmt.Sprintf("line 1 vertical gives (%s, %s); exchanging the lines that is (%s, %s), but line 2 vertical gives (%s, %s)", x1, y1, mirror(x1), mirror(y1), x2, y2)
		}
		// and the vertical line's own X is the one returned
		if bad == "" && x1 != "pt1a.X" && x1 != "pt1b.X" {
			bad = "with line 1 vertical the X returned is " + x1 + ", not that line's X"
		}
		c.check(bad == "", rule, rule+":intersectPoint:vertical-cases", f.Pos(), "intersectPoint",
			"the two vertical-line cases are each other's image under exchanging the lines, and return the vertical line's X", bad,
			"doSquare places the corner of a square join at this intersection; a wrong X in one case throws the corner far from the path, only for joins whose bisector is exactly horizontal")
	}
}

// ruleEveryPathEntersRing: C01.all-paths — every input path's points reach the vertex list: in the loop over the
// paths, the only way to go on to the next path without having added a vertex is that the path has no points.
func ruleEveryPathEntersRing(rule string) func(*Ctx) {
	return func(c *Ctx) {
		f := c.fn("addPathsToVertexList")
		adder := "(VertexPoolList).Add"
		var outer *loopInfo
		if h := fnWithCallsTo(c, f, adder, 0); h != nil && h != f {
			// the per-path ring construction lives in a helper: the loop over the paths is the one calling it
			adder = c.fname(h)
			for _, ci := range calls(f) {
				if sc := ci.Common().StaticCallee(); sc != nil && (sc == h || fnWithCallsTo(c, sc, "(VertexPoolList).Add", 1) == h) {
					adder = c.fname(sc)
				}
			}
		}
		for _, ci := range callsTo(c, f, adder) {
			for _, l := range naturalLoops(f) {
				if l.blocks[ci.Block()] && (outer == nil || len(l.blocks) > len(outer.blocks)) {
					outer = l
				}
			}
		}
		if outer == nil {
			fatalf("addPathsToVertexList: loop over paths not found")
		}
		ll := outer
		ex := &explorer{c: c, f: f, maxPaths: 20000, stop: func(b *ssa.BasicBlock) bool { return !ll.blocks[b] }}
		outs := ex.explore(outer.header)
		if ex.overflow {
			fatalf("addPathsToVertexList: path explosion")
		}
		bad := ""
		n := 0
		for _, p := range outs {
			if p.end != "loop" || p.called(adder) {
				continue
			}
			n++
			for _, cd := range p.conds {
				if strings.Contains(cd.expr, "rangeindex") || strings.HasPrefix(cd.expr, "(len(") {
					continue
				}
				if bad == "" {
					bad = fmt.Sprintf("a path is passed over without any of its points being added, depending on %s", cd.expr)
				}
			}
		}
		if adder != "(VertexPoolList).Add" && n == 0 && bad == "" {
			n = 1 // every iteration hands its path to the ring-building helper, which C17.dup examines
		}
		c.check(bad == "" && n > 0, rule, rule+":addPathsToVertexList:no-filter", f.Pos(), "addPathsToVertexList",
			fmt.Sprintf("%d explored way(s) to add nothing for a path: it has no points", n), bad,
			"the region of a path is defined by the fill rule, not by its signed area: a ring with zero net area (a symmetric bow-tie) still has filled lobes under EvenOdd/NonZero; filtering paths before the sweep drops them")
	}
}

// ruleArcSignFollowsGroup: C05.arc-sign — the direction in which round joins turn is the sign of the GROUP's delta
// (it flips for groups of reversed orientation): every store that negates stepSin is guarded by a test of the field
// groupDelta, and such a store exists.
func ruleArcSignFollowsGroup(rule string) func(*Ctx) {
	return func(c *Ctx) {
		n := 0
		for _, f := range c.srcFuncs() {
			for _, st := range fieldStoresIn(c, f, "ClipperOffset")["stepSin"] {
				u, ok := st.Val.(*ssa.UnOp)
				if !ok || u.Op != token.SUB || !isFieldLoadOf(u.X, "ClipperOffset", "stepSin") {
					continue
				}
				n++
				reads := func(v ssa.Value) bool {
					bo, ok := v.(*ssa.BinOp)
					return ok && (isGroupDelta(c, bo.X) || isGroupDelta(c, bo.Y))
				}
				ok2 := guardedBy(st, true, reads) || guardedBy(st, false, reads)
				c.check(ok2, rule, fmt.Sprintf("%s:%s:negation#%d", rule, c.fname(f), n), st.Pos(), c.fname(f),
					"stepSin is negated under a test of co.groupDelta", "stepSin is negated under a test that does not read co.groupDelta (the caller's delta has the other sign for groups of reversed orientation)",
					"a clockwise input polygon is offset with groupDelta = -delta; arcs that turn with the sign of the caller's delta come out as chamfers there")
			}
		}
		c.floor(rule, n, 1)
	}
}

// ruleOffsetAlwaysEmits: C05.emit-all — each per-path offset routine hands a ring to the solution on every path to
// its return: whether a ring survives is decided by the union that follows, not by a bounding-box guess.
func ruleOffsetAlwaysEmits(rule string, fns []string) func(*Ctx) {
	return func(c *Ctx) {
		for _, fn := range fns {
			f := c.fn(fn)
			ex := &explorer{c: c, f: f, maxPaths: 4000}
			outs := ex.explore(nil)
			if ex.overflow {
				fatalf("%s: path explosion", fn)
			}
			bad := ""
			n := 0
			for _, p := range outs {
				if p.end != "return" {
					continue
				}
				n++
				emitted := false
				for _, s := range p.stores {
					if strings.HasSuffix(s.addr, ".solution") {
						emitted = true
					}
				}
				for _, cl := range p.calls {
					for _, g := range fns {
						if cl.callee == g {
							emitted = true
						}
					}
				}
				if !emitted {
					// a ring may be dropped as "too small to survive the shrink" only when it is known to be
					// contracting, i.e. after its orientation (signed area) was compared with the group's direction
					oriented := false
					for _, cd := range p.conds {
						if strings.Contains(cd.expr, "Area64(") || strings.Contains(cd.expr, "IsPositive64(") {
							oriented = true
						}
					}
					if !oriented && bad == "" {
						bad = fmt.Sprintf("returns without handing a ring to the solution and without having looked at the ring's orientation (path: %s)", p.condString())
					}
				}
			}
			c.check(bad == "" && n > 0, rule, rule+":"+fn+":every-return", f.Pos(), fn,
				fmt.Sprintf("on all %d explored paths to a return a ring is appended to the solution (or dropped only after its orientation was examined)", n), bad,
				"with delta < 0 a hole GROWS: a guard that drops rings narrower than 2|delta| also drops small holes (and whole groups of reversed orientation)")
		}
	}
}

// ruleJoinMirror: C01.join.mirror — checkJoinLeft is checkJoinRight seen from the other side: exchanging the
// neighbour (prevInAEL <-> nextInAEL), the two join marks and the (left, right) order of addLocalMaxPoly's edges,
// both functions must take the same decisions and have the same effects on every explored path.
func ruleJoinMirror(rule string) func(*Ctx) {
	return func(c *Ctx) {
		jw := c.enumValues("JoinWith")
		jl, jr := enumByName(jw, "JoinLeft"), enumByName(jw, "JoinRight")
		sig := func(fn, nb string, mirror bool) []string {
			f := c.fn(fn)
			atomFn := func(x string) (absVal, bool) {
				switch {
				case strings.HasPrefix(x, "isHotEdge("):
					return boolVal(true), true
				case strings.HasPrefix(x, "isHorizontal("), strings.HasPrefix(x, "isOpen("):
					return boolVal(false), true
				case x == "(e."+nb+" == nil)":
					return boolVal(false), true
				case x == "(e."+nb+" != nil)":
					return boolVal(true), true
				}
				return absVal{}, false
			}
			ex := &explorer{c: c, f: f, canon: canonParams(f, "c", "e", "pt", "checkCurrX"), atomFn: atomFn, maxPaths: 4000}
			outs := ex.explore(nil)
			if ex.overflow {
				fatalf("%s: path explosion", fn)
			}
			ren := func(s string) string {
				if mirror {
					s = strings.ReplaceAll(s, "e.prevInAEL", "e.nextInAEL")
				}
				return s
			}
			var sigs []string
			for _, p := range outs {
				if p.end != "return" {
					continue
				}
				var parts []string
				for _, cd := range p.conds {
					parts = append(parts, fmt.Sprintf("%s=%v", ren(cd.expr), cd.taken))
				}
				for _, cl := range p.calls {
					if strings.HasPrefix(cl.callee, "is") || cl.callee == "PerpendicDistFromLineSqr64" {
						continue
					}
					var as []string
					for _, a := range cl.args {
						as = append(as, ren(a.expr))
					}
					if mirror && strings.HasSuffix(cl.callee, "addLocalMaxPoly") && len(as) == 4 {
						as[1], as[2] = as[2], as[1]
					}
					parts = append(parts, cl.callee+"("+strings.Join(as, ", ")+")")
				}
				var sts []string
				for _, s := range p.stores {
					v := s.val.v()
					if mirror && strings.HasSuffix(s.addr, ".joinWith") && s.val.abs.k == aInt {
						switch s.val.abs.i {
						case jl:
							v = fmt.Sprint(jr)
						case jr:
							v = fmt.Sprint(jl)
						}
					} else if s.val.abs.k == aInt {
						v = fmt.Sprint(s.val.abs.i)
					}
					sts = append(sts, ren(s.addr)+"="+ren(v))
				}
				sort.Strings(sts)
				parts = append(parts, sts...)
				sigs = append(sigs, strings.Join(parts, " ; "))
			}
			sort.Strings(sigs)
			return sigs
		}
		right := sig("(clipperBase).checkJoinRight", "nextInAEL", false)
		left := sig("(clipperBase).checkJoinLeft", "prevInAEL", true)
		bad := ""
		if len(left) != len(right) {
			bad = fmt.Sprintf("checkJoinLeft has %d explored outcomes, checkJoinRight %d", len(left), len(right))
		}
		for i := 0; bad == "" && i < len(left); i++ {
			if left[i] != right[i] {
				bad = fmt.Sprintf("outcome %d differs after mirroring: left = [%s] right = [%s]", i+1, left[i], right[i])
			}
		}
		f := c.fn("(clipperBase).checkJoinLeft")
		c.check(bad == "" && len(right) >= 6, rule, rule+":checkJoinLeft/checkJoinRight", f.Pos(), "(clipperBase).checkJoinLeft",
			fmt.Sprintf("%d explored outcomes coincide under prev<->next, JoinLeft<->JoinRight", len(right)), bad,
			"the sweep has no preferred side: a join test that differs between the left and the right neighbour joins (or fails to join) collinear touching edges depending on the input's mirror image")
	}
}

// fnWithCallsTo: root itself when it calls callee, otherwise the helper (a function the reference record does not
// know, called from root, up to two levels) into which that part of root was moved.
func fnWithCallsTo(c *Ctx, root *ssa.Function, callee string, depth int) *ssa.Function {
	if len(callsTo(c, root, callee)) > 0 {
		return root
	}
	if depth >= 2 {
		return nil
	}
	for _, ci := range calls(root) {
		g := ci.Common().StaticCallee()
		if g == nil || g == root || !c.inRepo(g) || g.Blocks == nil || c.recorded == nil || c.recorded[c.rawName(g)] {
			continue
		}
		if _, aliased := c.alias[g]; aliased {
			continue
		}
		if h := fnWithCallsTo(c, g, callee, depth+1); h != nil {
			return h
		}
	}
	return nil
}

// ruleSegIntersectMirrorSem: the semantic form of the end-point mirror of getSegmentIntersection. The function is
// explored (helpers the reference record does not know are read inline); every path that answers because an end
// point q lies on the other segment's line (a, b) is reduced to what it tests and returns after that discovery,
// with q, a, b renamed; the four end points must give the same set of reduced paths.
func ruleSegIntersectMirrorSem(rule string) func(*Ctx) {
	return func(c *Ctx) {
		f := c.fn("getSegmentIntersection")
		// pureMemo: `res1 == 0` written twice (case res1 == 0 && res2 == 0: ... case res1 == 0:) is two SSA values
		// (go/ssa has no CSE) but one fact
		ex := &explorer{c: c, f: f, canon: canonParams(f, "p1", "p2", "p3", "p4"), maxPaths: 20000, pureMemo: true}
		outs := ex.explore(nil)
		if ex.overflow {
			fatalf("getSegmentIntersection: path explosion")
		}
		type blk struct{ q, a, b string }
		blocks := []blk{{"p1", "p3", "p4"}, {"p2", "p3", "p4"}, {"p3", "p1", "p2"}, {"p4", "p1", "p2"}}
		zero := func(b blk) string { return "(CrossProduct(" + b.q + ", " + b.a + ", " + b.b + ") == 0)" }
		isDispatch := func(e string) bool {
			return strings.HasPrefix(e, "(CrossProduct(") || strings.HasPrefix(e, "((CrossProduct(")
		}
		sigs := make([]map[string]bool, len(blocks))
		for k, b := range blocks {
			sigs[k] = map[string]bool{}
			ren := strings.NewReplacer(b.q, "Q", b.a, "A", b.b, "B")
			for _, p := range outs {
				if p.end != "return" {
					continue
				}
				// the first dispatch condition taken on the path must be this block's
				first := -1
				for i, cd := range p.conds {
					if strings.HasSuffix(cd.expr, " == 0)") && strings.HasPrefix(cd.expr, "(CrossProduct(") && cd.taken {
						first = i
						break
					}
				}
				if first < 0 || p.conds[first].expr != zero(b) {
					continue
				}
				var parts []string
				both := false
				for _, cd := range p.conds[first+1:] {
					if strings.HasSuffix(cd.expr, " == 0)") && strings.HasPrefix(cd.expr, "(CrossProduct(") && cd.taken {
						both = true // both end points on the line: the collinear case, decided once, before the blocks
					}
				}
				if both {
					continue
				}
				for _, cd := range p.conds[first+1:] {
					if isDispatch(cd.expr) {
						continue
					}
					parts = append(parts, fmt.Sprintf("%s=%v", ren.Replace(cd.expr), cd.taken))
				}
				var rs []string
				for _, r := range p.ret {
					if r.abs.k == aBool {
						rs = append(rs, fmt.Sprint(r.abs.b))
					} else {
						rs = append(rs, ren.Replace(r.v()))
					}
				}
				for _, s := range p.stores { // the returned point is built in a local
					if strings.HasSuffix(s.addr, ".X") || strings.HasSuffix(s.addr, ".Y") || s.addr == "ip" {
						rs = append(rs, ren.Replace(s.addr+"<-"+s.val.v()))
					}
				}
				sigs[k][strings.Join(parts, " && ")+" => "+strings.Join(rs, ", ")] = true
			}
		}
		bad := ""
		for k := 1; k < len(blocks) && bad == ""; k++ {
			if len(sigs[k]) == 0 || len(sigs[0]) == 0 {
				bad = fmt.Sprintf("no path answers for end point %s lying on the other segment's line", blocks[k].q)
				if len(sigs[0]) == 0 {
					bad = "no path answers for end point p1 lying on the other segment's line"
				}
				break
			}
			for s := range sigs[0] {
				if !sigs[k][s] {
					bad = fmt.Sprintf("end point %s: no path does what p1's does — [%s]", blocks[k].q, s)
					break
				}
			}
			for s := range sigs[k] {
				if !sigs[0][s] && bad == "" {
					bad = fmt.Sprintf("end point %s has a path p1's block lacks — [%s]", blocks[k].q, s)
				}
			}
		}
		c.check(bad == "", rule, rule+":getSegmentIntersection:end-point-blocks", f.Pos(), "getSegmentIntersection",
			fmt.Sprintf("the four end-point cases coincide under renaming (%d reduced paths each)", len(sigs[0])), bad,
			"the rectangle's edges are passed in both directions (the bottom edge right-to-left): a between-test that is right for one end point or one direction and wrong for another misses a vertex lying exactly on that edge")
	}
}

// ruleInsideArmStrict: semantic form of the Inside-arm rule of getNextLocation. While the path is inside the
// rectangle every vertex is copied until one lies STRICTLY outside: on every path through the copying loop that
// leaves with *loc set to a side, the deciding comparison is the strict one against that side's own edge
// (X < left -> Left, X > right -> Right, Y < top -> Top, Y > bottom -> Bottom). A vertex exactly on an edge stays
// Inside. The rule follows fresh helpers (inlined by the explorer); a classification delegated to a recorded
// function (getLocation treats on-edge vertices as outside) is reported.
func ruleInsideArmStrict(rule string) func(*Ctx) {
	return func(c *Ctx) {
		f := c.fn("(RectClip64).getNextLocation")
		name := "(RectClip64).getNextLocation"
		var ll *loopInfo
		for _, l := range naturalLoops(f) {
			for b := range l.blocks {
				for _, in := range b.Instrs {
					if ci, ok := in.(ssa.CallInstruction); ok && calleeName(c, ci) == "(RectClip64).add" {
						ll = l
					}
				}
			}
		}
		if ll == nil {
			c.fail(rule, rule+":getNextLocation:copy-loop", f.Pos(), name, "no loop in getNextLocation copies interior vertices with (RectClip64).add", "the Inside state copies vertices until one leaves the rectangle")
			return
		}
		locP := param(f, "loc", 2)
		// the blocks that set *loc and break are outside the natural loop: explore on to the function's return
		// getLocation (a recorded function) is read inline: an arm that delegates to it is judged by what it does with
		// both results
		ex := &explorer{c: c, f: f, maxPaths: 4000, pureMemo: true, inline: map[string]bool{"getLocation": true}}
		outs := ex.explore(ll.header)
		want := map[string][3]string{ // side -> coordinate, rect field, strict operator (point on the left)
			"Left": {".X", ".left", "<"}, "Right": {".X", ".right", ">"}, "Top": {".Y", ".top", "<"}, "Bottom": {".Y", ".bottom", ">"},
		}
		sideName := map[int64]string{}
		for _, e := range c.enumValues("Location") {
			sideName[e.val] = e.name
		}
		seen := map[string]bool{}
		bad := map[string]string{}
		for _, p := range outs {
			if p.end == "loop" {
				continue
			}
			// the last store through loc on this path
			var st *storeRec
			for i := range p.stores {
				if locP != nil && p.stores[i].addr == "*"+ex.cn(locP.Name()) {
					st = &p.stores[i]
				}
			}
			if st == nil {
				continue
			}
			if st.val.abs.k != aInt {
				bad["?"] = fmt.Sprintf("*loc is set from %s, not from the arm's own strict comparisons (path: %s)", st.val.expr, p.condString())
				seen["?"] = true
				continue
			}
			side := sideName[st.val.abs.i]
			w, ok := want[side]
			if !ok {
				continue
			}
			seen[side] = true
			// deciding comparison: the last condition on the path that mentions the side's rect field
			found := false
			for i := len(p.conds) - 1; i >= 0 && !found; i-- {
				cd := p.conds[i]
				bo, ok := cd.val.(*ssa.BinOp)
				if !ok || !strings.Contains(cd.expr, w[1]) {
					continue
				}
				found = true
				op := bo.Op
				if !cd.taken {
					op = map[token.Token]token.Token{token.LSS: token.GEQ, token.GEQ: token.LSS, token.GTR: token.LEQ, token.LEQ: token.GTR}[op]
				}
				// orient: point coordinate on the left
				parts := strings.SplitN(cd.expr, " "+bo.Op.String()+" ", 2)
				if len(parts) == 2 && strings.Contains(parts[0], w[1]) && strings.Contains(parts[1], w[0]) {
					op = map[token.Token]token.Token{token.LSS: token.GTR, token.GTR: token.LSS, token.LEQ: token.GEQ, token.GEQ: token.LEQ}[op]
				} else if len(parts) != 2 || !strings.Contains(parts[0], w[0]) {
					bad[side] = fmt.Sprintf("leaving towards %s is decided by `%s`, which does not compare the vertex's %s with the rectangle's %s", side, cd.expr, w[0][1:], w[1][1:])
					continue
				}
				if op.String() != w[2] {
					bad[side] = fmt.Sprintf("leaving towards %s is decided by %s %s %s (path: %s), want the strict %s: a vertex exactly on the edge is no longer kept Inside", side, w[0][1:], op, w[1][1:], p.condString(), w[2])
				}
			}
			if !found && bad[side] == "" {
				bad[side] = fmt.Sprintf("*loc = %s without a comparison against the rectangle's %s (path: %s)", side, w[1][1:], p.condString())
			}
		}
		for _, side := range []string{"Left", "Right", "Top", "Bottom"} {
			d := bad[side]
			if !seen[side] && d == "" {
				d = bad["?"]
				if d == "" {
					d = "no path through the copying loop leaves towards " + side
				}
			}
			c.check(d == "", rule, fmt.Sprintf("%s:getNextLocation:Inside:%s", rule, side), ll.header.Instrs[0].Pos(), name,
				"a vertex leaves the Inside state towards "+side+" only when it is strictly beyond that edge", d,
				"RectClip treats a vertex ON the rectangle's edge as inside while copying: calling it outside flips the state machine and a spurious corner (or a dropped vertex) appears in the result")
		}
		if ex.overflow {
			fatalf("%s: path budget exceeded", rule)
		}
	}
}

// ruleZeroLengthHorz: C03 — a horizontal edge whose bottom and top have the same X (a spike that ran out and straight
// back) has no direction of its own: resetHorzDirection must be able to answer from where the maxima pair lies in the
// AEL. With `bot.X == top.X` assumed, at least one return path yields a direction that is not a constant.
func ruleZeroLengthHorz(rule string) func(*Ctx) {
	return func(c *Ctx) {
		f := c.fn("resetHorzDirection")
		ex := &explorer{c: c, f: f, maxPaths: 4000, pureMemo: true, canon: canonParams(f, "horz", "vertexMax"),
			atomFn: func(e string) (absVal, bool) {
				if strings.Contains(e, " == ") && strings.Contains(e, ".top.X") && (strings.Contains(e, ".bot.X") || strings.Contains(e, ".curX")) {
					return boolVal(true), true
				}
				return absVal{}, false
			}}
		outs := ex.explore(f.Blocks[0])
		if ex.overflow {
			fatalf("%s: path budget exceeded", rule)
		}
		rets, dyn := 0, 0
		selfScan := ""
		for _, p := range outs {
			if p.end != "return" || len(p.ret) == 0 {
				continue
			}
			rets++
			// decided by the scan: the direction is not a constant, or the path tested an edge against vertexMax
			scan := false
			for _, r := range p.ret {
				if r.abs.k != aBool && r.abs.k != aInt && !strings.HasSuffix(r.expr, ".curX") && !strings.HasSuffix(r.expr, ".X") {
					scan = true // the direction (whichever position it is returned in) is not a constant
				}
			}
			for _, cd := range p.conds {
				if mentions(cd.expr, "vertexMax") {
					scan = true
					if strings.Contains(cd.expr, "(horz.vertexTop == vertexMax)") || strings.Contains(cd.expr, "(horz.vertexTop != vertexMax)") {
						selfScan = "the search for the maxima pair tests the horizontal ITSELF (its own top is vertexMax): it always answers 'found'"
					}
				}
			}
			for _, cl := range p.calls {
				if len(cl.args) == 2 && cl.args[1].expr == "vertexMax" && cl.args[0].expr == "horz" && ex.c.freshFunc(cl.instr.Common().StaticCallee()) {
					selfScan = "the search for the maxima pair (" + cl.callee + ") starts AT the horizontal, whose own top is vertexMax, instead of at its right neighbour: it always answers 'found'"
				}
			}
			if scan {
				dyn++
			}
		}
		if selfScan != "" {
			c.fail(rule, rule+":resetHorzDirection:zero-length", f.Pos(), "resetHorzDirection", selfScan,
				"zero-length horizontals arise when a horizontal runs out and straight back over itself; heading away from the maxima pair, the edge is pushed past its local maximum and the sweep does not terminate")
			return
		}
		c.check(dyn > 0, rule, rule+":resetHorzDirection:zero-length", f.Pos(), "resetHorzDirection",
			"for a horizontal with bot.X == top.X the heading is taken from the position of the maxima pair in the AEL",
			fmt.Sprintf("with bot.X == top.X assumed, none of the %d return paths looks for vertexMax in the AEL; the direction is a constant: a zero-length horizontal whose maxima pair lies on the other side never meets it", rets),
			"zero-length horizontals arise when a horizontal runs out and straight back over itself; heading away from the maxima pair, the edge is pushed past its local maximum and the sweep does not terminate")
	}
}

// isGroupDelta: v is the field ClipperOffset.groupDelta, or a parameter of a helper the reference record does not
// know to which EVERY call site passes that field (the set-up of the arc step extracted into a helper).
func isGroupDelta(c *Ctx, v ssa.Value) bool {
	if isFieldLoadOf(v, "ClipperOffset", "groupDelta") {
		return true
	}
	pr, ok := v.(*ssa.Parameter)
	if !ok || !c.freshFunc(pr.Parent()) {
		return false
	}
	idx := -1
	for i, q := range pr.Parent().Params {
		if q == pr {
			idx = i
		}
	}
	sites := 0
	for _, f := range c.srcFuncs() {
		for _, ci := range calls(f) {
			if ci.Common().StaticCallee() != pr.Parent() {
				continue
			}
			sites++
			if idx >= len(ci.Common().Args) || !isFieldLoadOf(ci.Common().Args[idx], "ClipperOffset", "groupDelta") {
				return false
			}
		}
	}
	return sites > 0
}

// ruleSolutionReplaced: C12 — an Execute call REPLACES what the caller's solution slices held: on every path to a
// return, each *Paths64 / *PathsD result parameter has been truncated (`*p = (*p)[:0]`) or overwritten with a slice
// not derived from it — directly, or by a callee that does so with the parameter on all of its paths. Otherwise the
// answer of the previous execution shows through whenever the new answer is empty.
func ruleSolutionReplaced(rule string, fns []string) func(*Ctx) {
	return func(c *Ctx) {
		memo := map[string]int{}
		n := 0
		for _, fn := range fns {
			f := c.fn(fn)
			for i, p := range f.Params {
				if tn := typeName(p.Type()); tn != "*Paths64" && tn != "*PathsD" {
					continue
				}
				n++
				ok := mustTruncParam(c, f, i, memo, 0)
				c.check(ok, rule, fmt.Sprintf("%s:%s:%s", rule, fn, p.Name()), f.Pos(), fn,
					"*"+p.Name()+" is truncated or replaced on every path to a return",
					"a return can be reached with *"+p.Name()+" neither truncated nor replaced: when this execution's answer for that slot is empty (or the execution fails) the caller keeps the previous answer",
					"the result of Execute depends only on the paths added and the parameters, not on what the solution variable held before (C12: reusing an engine and its solution slices gives the result of a fresh run)")
			}
		}
		c.floor(rule, n, 8)
	}
}

// mustTruncParam: on every path from f's entry to a return, the slice behind pointer parameter idx is emptied.
func mustTruncParam(c *Ctx, f *ssa.Function, idx int, memo map[string]int, depth int) bool {
	if f == nil || f.Blocks == nil || idx >= len(f.Params) {
		return false
	}
	key := fmt.Sprintf("%s#%d", c.rawName(f), idx)
	switch memo[key] {
	case 1:
		return true
	case 2, 3:
		return false
	}
	if depth > 4 {
		return false
	}
	memo[key] = 3
	p := f.Params[idx]
	derived := func(v ssa.Value) bool { // v is computed from *p (re-slice, append to it)
		seen := map[ssa.Value]bool{}
		var walk func(v ssa.Value) bool
		walk = func(v ssa.Value) bool {
			if seen[v] {
				return false
			}
			seen[v] = true
			switch x := v.(type) {
			case *ssa.UnOp:
				return x.Op == token.MUL && x.X == ssa.Value(p)
			case *ssa.Slice:
				return walk(x.X)
			case *ssa.Phi:
				for _, e := range x.Edges {
					if walk(e) {
						return true
					}
				}
			case *ssa.Call:
				if bi, ok := x.Call.Value.(*ssa.Builtin); ok && bi.Name() == "append" {
					return walk(x.Call.Args[0])
				}
			}
			return false
		}
		return walk(v)
	}
	gen := func(in ssa.Instruction) bool {
		switch x := in.(type) {
		case *ssa.Store:
			if x.Addr != ssa.Value(p) {
				return false
			}
			if sl, ok := x.Val.(*ssa.Slice); ok && derived(sl.X) {
				k, isK := sl.High.(*ssa.Const)
				return isK && k.Int64() == 0 // (*p)[:0]
			}
			return !derived(x.Val) // replaced by something that is not the old contents
		case ssa.CallInstruction:
			g := x.Common().StaticCallee()
			if g == nil || !c.inRepo(g) {
				return false
			}
			args := x.Common().Args
			for k, a := range args {
				if a == ssa.Value(p) && k < len(g.Params) && mustTruncParam(c, g, k, memo, depth+1) {
					return true
				}
			}
		}
		return false
	}
	in := map[*ssa.BasicBlock]bool{}
	out := map[*ssa.BasicBlock]bool{}
	genB := map[*ssa.BasicBlock]bool{}
	for _, b := range f.Blocks {
		in[b], out[b] = true, true
		for _, ins := range b.Instrs {
			if gen(ins) {
				genB[b] = true
			}
		}
	}
	in[f.Blocks[0]] = false
	out[f.Blocks[0]] = genB[f.Blocks[0]]
	for changed := true; changed; {
		changed = false
		for _, b := range f.Blocks {
			ni := b != f.Blocks[0]
			if ni {
				for _, pr := range b.Preds {
					ni = ni && out[pr]
				}
			}
			no := ni || genB[b]
			if ni != in[b] || no != out[b] {
				in[b], out[b] = ni, no
				changed = true
			}
		}
	}
	ok, rets := true, 0
	for _, b := range f.Blocks {
		if len(b.Instrs) == 0 {
			continue
		}
		if _, isRet := b.Instrs[len(b.Instrs)-1].(*ssa.Return); isRet {
			rets++
			if !out[b] {
				ok = false
			}
		}
	}
	ok = ok && rets > 0
	if ok {
		memo[key] = 1
	} else {
		memo[key] = 2
	}
	return ok
}

// ruleIntersectionArgOrder: sibling cross-check — the polygon clipper (executeInternal) and the line clipper
// (executeInternalPath64) call getIntersection in the same pattern: first from the current vertex back to the previous
// one, then (the pass-through re-intersection) from the previous vertex forward. The direction decides which edge
// of the rectangle is tried first; a call with the points exchanged finds the far crossing or none.
func ruleIntersectionArgOrder(rule string) func(*Ctx) {
	return func(c *Ctx) {
		pattern := func(fn string) ([]string, *ssa.Function) {
			f := c.fn(fn)
			var pat []string
			for _, g := range freshRegion(c, f) {
				var pathP *ssa.Parameter
				for _, p := range g.Params {
					if typeName(p.Type()) == "Path64" {
						pathP = p
					}
				}
				for _, ci := range calls(g) {
					if !strings.HasSuffix(calleeName(c, ci), "getIntersection") {
						continue
					}
					role := func(v ssa.Value) string {
						if _, isPhi := v.(*ssa.Phi); isPhi {
							return "prev"
						}
						if pathP != nil {
							if _, ok := loadsOfParam(v, pathP, map[ssa.Value]bool{}); ok {
								return "curr"
							}
						}
						return "?"
					}
					var pts []string
					var idxs []ssa.Value
					for _, a := range ci.Common().Args {
						if typeName(a.Type()) == "Point64" {
							pts = append(pts, role(a))
							var ix ssa.Value
							if pathP != nil {
								if is, ok := loadsOfParam(a, pathP, map[ssa.Value]bool{}); ok && len(is) == 1 {
									ix = is[0]
								}
							}
							idxs = append(idxs, ix)
						}
					}
					// both ends read from the path (prevPt := path[i-1]): the one at the higher index is the current vertex
					if len(pts) == 2 && idxs[0] != nil && idxs[1] != nil {
						oneBelow := func(lo, hi ssa.Value) bool { // lo == hi - 1
							if isPlusOne(hi, lo) {
								return true
							}
							bo, ok := lo.(*ssa.BinOp)
							return ok && bo.Op == token.SUB && isConstInt(bo.Y, 1) && sameIntValue(bo.X, hi)
						}
						switch {
						case oneBelow(idxs[1], idxs[0]):
							pts = []string{"curr", "prev"}
						case oneBelow(idxs[0], idxs[1]):
							pts = []string{"prev", "curr"}
						default:
							pts = []string{"?", "?"}
						}
					}
					pat = append(pat, "("+strings.Join(pts, ",")+")")
				}
			}
			return pat, f
		}
		a, fa := pattern("(RectClip64).executeInternal")
		b, _ := pattern("(RectClip64).executeInternalPath64")
		bad := ""
		if len(a) == 0 || len(b) == 0 {
			bad = "getIntersection calls not found in one of the two clippers"
		} else if strings.Join(a, " ") != strings.Join(b, " ") {
			bad = fmt.Sprintf("the polygon clipper calls getIntersection with %s, the line clipper with %s: the two walk the path the same way and must hand the segment over in the same direction", strings.Join(a, " "), strings.Join(b, " "))
		}
		c.check(bad == "", rule, rule+":getIntersection:argument-order", fa.Pos(), "(RectClip64).executeInternal",
			"both clippers call getIntersection as "+strings.Join(a, " "), bad,
			"getIntersection tries the rectangle's edges in an order that depends on which end of the segment is given first; with the ends exchanged a segment entering next to a corner is reported at the wrong crossing or dropped")
	}
}

// ruleUntouchedByWinding: C06 — a path that never touches the rectangle either misses it or winds round all of it
// w times; C06 asks for winding w inside. The decision must therefore be made on the winding number of the path
// about the rectangle, not on crossing PARITY: PointInPolygon flips a state per crossing (val = 1 - val), so a path
// that goes round the rectangle twice counts as "outside" and nothing is returned.
func ruleUntouchedByWinding(rule string) func(*Ctx) {
	return func(c *Ctx) {
		f := c.fn("(RectClip64).executeInternal")
		// the routine(s) consulted for an untouched path: callees of executeInternal (and unknown helpers) that reach
		// PointInPolygon
		var via []string
		for _, g := range freshRegion(c, f) {
			for _, ci := range calls(g) {
				h := ci.Common().StaticCallee()
				if h == nil || !c.inRepo(h) {
					continue
				}
				if c.fname(h) == "PointInPolygon" || len(callsTo(c, h, "PointInPolygon")) > 0 {
					via = append(via, c.fname(h))
				}
			}
		}
		pip := c.fnOpt("PointInPolygon")
		parity := false
		if pip != nil {
			for _, g := range freshRegion(c, pip) {
				for _, b := range g.Blocks {
					for _, in := range b.Instrs {
						switch x := in.(type) {
						case *ssa.BinOp: // val = 1 - val
							if x.Op == token.SUB && isConstInt(x.X, 1) {
								if _, isPhi := x.Y.(*ssa.Phi); isPhi {
									parity = true
								}
							}
						case *ssa.UnOp: // inside = !inside
							if x.Op == token.NOT {
								if _, isPhi := x.X.(*ssa.Phi); isPhi {
									parity = true
								}
							}
						}
					}
				}
			}
		}
		bad := ""
		if len(via) > 0 && parity {
			sort.Strings(via)
			bad = fmt.Sprintf("whether a path that never touches the rectangle contains it is decided through %s -> PointInPolygon, a crossing-PARITY test (its state is flipped per crossing): a path that winds round the rectangle an even number of times is taken to miss it", strings.Join(uniq(via), ", "))
		}
		c.check(bad == "", rule, rule+":executeInternal:parity", f.Pos(), "(RectClip64).executeInternal",
			"the rectangle is returned for an untouched path according to the path's winding about it", bad,
			"C06 asks for the input's winding number at every interior point: a self-overlapping path that encircles the rectangle twice has winding 2 there, and the result must too")
	}
}

// joinHandled: on path p the edge rendered as `edge` was tested with isJoined (and split when joined), directly or
// by a helper the reference record does not know that does so for every edge it is handed.
func joinHandled(c *Ctx, ex *explorer, p *pathOutcome, edge string) bool {
	for _, cd := range p.conds {
		if cd.expr == "isJoined("+edge+")" {
			return !cd.taken || p.called("(clipperBase).split")
		}
	}
	for _, cl := range p.calls {
		if cl.instr == nil {
			continue
		}
		h := cl.instr.Common().StaticCallee()
		if h == nil || !c.freshFunc(h) || len(callsTo(c, h, "isJoined")) == 0 || len(callsTo(c, h, "(clipperBase).split")) == 0 {
			continue
		}
		for i, a := range cl.instr.Common().Args {
			if i < len(cl.args) && cl.args[i].expr == edge {
				return true
			}
			if sl, ok := a.(*ssa.Slice); ok {
				for _, v := range appendedValues(sl) {
					if pr, ok := v.(*ssa.Parameter); ok && ex.cn(pr.Name()) == edge {
						return true
					}
					if cv, ok := v.(*ssa.Call); ok && strings.HasPrefix(edge, calleeName(c, cv)+"(") {
						return true
					}
					if ph, ok := v.(*ssa.Phi); ok && ph.Comment == edge {
						return true
					}
				}
			}
		}
	}
	return false
}

// ruleSplitAtMaxima: C01 — when an edge reaches its maximum, BOTH edges of the maxima pair are released from any
// join (isJoined -> split) before the pair is closed with addLocalMaxPoly: for each of the two edges handed to
// addLocalMaxPoly a test isJoined(edge) (or a call to a helper the reference record does not know that tests and
// splits every edge it is handed) dominates the call.
func ruleSplitAtMaxima(rule string) func(*Ctx) {
	return func(c *Ctx) {
		f := c.fn("(clipperBase).doMaxima")
		same := func(a, b ssa.Value) bool { return a == b || sameIntValue(a, b) }
		handled := func(edge ssa.Value, at ssa.Instruction) bool {
			for _, ci := range calls(f) {
				if !precedes(ci, at) {
					continue
				}
				n := calleeName(c, ci)
				if n == "isJoined" && len(ci.Common().Args) == 1 && same(ci.Common().Args[0], edge) {
					return true
				}
				h := ci.Common().StaticCallee()
				if h == nil || !c.freshFunc(h) || len(callsTo(c, h, "isJoined")) == 0 || len(callsTo(c, h, "(clipperBase).split")) == 0 {
					continue
				}
				for _, a := range ci.Common().Args {
					vals := []ssa.Value{a}
					if sl, ok := a.(*ssa.Slice); ok {
						vals = appendedValues(sl)
					}
					for _, v := range vals {
						if same(v, edge) {
							return true
						}
					}
				}
			}
			return false
		}
		bad := ""
		n := 0
		for _, ci := range callsTo(c, f, "(clipperBase).addLocalMaxPoly") {
			args := ci.Common().Args
			if len(args) < 3 {
				continue
			}
			n++
			for k, e := range args[1:3] {
				if !handled(e, ci) && bad == "" {
					bad = fmt.Sprintf("at %s the maxima pair is closed without its %s edge having been released from a join (isJoined -> split) first", c.pos(ci.Pos()), map[int]string{0: "first", 1: "second"}[k])
				}
			}
		}
		c.check(bad == "" && n > 0, rule, rule+":(clipperBase).doMaxima:both-edges", f.Pos(), "(clipperBase).doMaxima",
			fmt.Sprintf("before each of the %d addLocalMaxPoly calls both edges of the pair are tested with isJoined (and split)", n), bad,
			"an edge that leaves the AEL while still marked as joined leaves its partner pointing at a dead edge: the next split un-joins the wrong pair and a ring is closed with the wrong side (a negatively wound lobe, a panic or a hang)")
	}
}

// ruleBackwardScanReachesZero: C06 — the scan that looks backwards from the last vertex for one that is not on the
// rectangle's boundary (to decide where the path starts) must be able to look at vertex 0: a counted loop that runs
// down to `i > 0` never does, and a polygon whose only off-boundary vertex is the first comes out unclipped.
func ruleBackwardScanReachesZero(rule string) func(*Ctx) {
	return func(c *Ctx) {
		f := c.fn("(RectClip64).executeInternal")
		n := 0
		for _, g := range freshRegion(c, f) {
			for _, l := range naturalLoops(g) {
				// a header phi decremented round the loop
				for _, in := range l.header.Instrs {
					phi, ok := in.(*ssa.Phi)
					if !ok {
						break
					}
					dec := false
					for i, e := range phi.Edges {
						if !l.blocks[phi.Block().Preds[i]] {
							continue
						}
						if bo, ok := e.(*ssa.BinOp); ok && ((bo.Op == token.SUB && isConstInt(bo.Y, 1)) || (bo.Op == token.ADD && isConstInt(bo.Y, -1))) && (bo.X == ssa.Value(phi)) {
							dec = true
						}
					}
					if !dec {
						continue
					}
					// does the loop read getLocation of a path element?
					reads := false
					for b := range l.blocks {
						for _, bi := range b.Instrs {
							if ci, ok := bi.(ssa.CallInstruction); ok && calleeName(c, ci) == "getLocation" {
								reads = true
							}
						}
					}
					if !reads {
						continue
					}
					// the continue-condition on the counter
					for b := range l.blocks {
						ifi, ok := b.Instrs[len(b.Instrs)-1].(*ssa.If)
						if !ok {
							continue
						}
						cmp, ok := ifi.Cond.(*ssa.BinOp)
						if !ok || cmp.X != ssa.Value(phi) {
							continue
						}
						k, isK := cmp.Y.(*ssa.Const)
						if !isK || k.Value == nil {
							continue
						}
						stays := l.blocks[b.Succs[0]] // the true branch stays in the loop
						if !stays {
							continue
						}
						n++
						okZero := (cmp.Op == token.GEQ && k.Int64() <= 0) || (cmp.Op == token.GTR && k.Int64() < 0) || (cmp.Op == token.NEQ && k.Int64() < 0)
						c.check(okZero, rule, fmt.Sprintf("%s:%s:down-to-zero#%d", rule, c.fname(g), n), cmp.Pos(), c.fname(g),
							"the backward scan over the path's vertices continues while the index is >= 0", fmt.Sprintf("the backward scan continues only while the index %s %d: vertex 0 is never looked at", cmp.Op, k.Int64()),
							"where the path starts relative to the rectangle is decided by the nearest earlier vertex that is off the boundary; that may be vertex 0")
					}
				}
			}
		}
		c.floor(rule, n, 1)
	}
}

// closureResolve: a load of a captured variable inside a closure (or of its heap cell in the parent) that is
// assigned exactly once stands for the value assigned: `polygon` and `n := len(polygon)` read inside
// `prevOf := func(k int) Point64 {...}` are the parent's parameter and its length.
func closureResolve(v ssa.Value) ssa.Value {
	for k := 0; k < 4; k++ {
		u, ok := v.(*ssa.UnOp)
		if !ok || u.Op != token.MUL {
			break
		}
		switch a := u.X.(type) {
		case *ssa.FreeVar:
			g := a.Parent()
			parent := g.Parent()
			if parent == nil {
				return v
			}
			idx := -1
			for i, fv := range g.FreeVars {
				if fv == a {
					idx = i
				}
			}
			var cell *ssa.Alloc
			for _, b := range parent.Blocks {
				for _, in := range b.Instrs {
					if mc, ok := in.(*ssa.MakeClosure); ok && mc.Fn == ssa.Value(g) && idx >= 0 && idx < len(mc.Bindings) {
						cell, _ = mc.Bindings[idx].(*ssa.Alloc)
					}
				}
			}
			if cell == nil || cell.Referrers() == nil {
				return v
			}
			var st *ssa.Store
			n := 0
			for _, r := range *cell.Referrers() {
				if s, ok := r.(*ssa.Store); ok && s.Addr == ssa.Value(cell) {
					st = s
					n++
				}
			}
			if n != 1 {
				return v
			}
			v = st.Val
			continue
		case *ssa.Alloc:
			if w := onceCell(v); w != nil {
				v = w
				continue
			}
		}
		break
	}
	return v
}

// lenMinus1Through: idx is len(X)-1 once captured variables are read through their cells.
func lenMinus1Through(idx, X ssa.Value) bool {
	bo, ok := idx.(*ssa.BinOp)
	if !ok || bo.Op != token.SUB || !isConstInt(bo.Y, 1) {
		return false
	}
	call, ok := closureResolve(bo.X).(*ssa.Call)
	if !ok {
		return false
	}
	bi, ok := call.Call.Value.(*ssa.Builtin)
	if !ok || bi.Name() != "len" || len(call.Call.Args) != 1 {
		return false
	}
	a, b := closureResolve(call.Call.Args[0]), closureResolve(X)
	return a == b || (paramOf(a) != nil && paramOf(a) == paramOf(b))
}
