package main

import (
	"fmt"
	"go/token"
	"sort"
	"strings"

	"golang.org/x/tools/go/ssa"
)

// Decision tables: C01.table, C09.table, C14.sign, C04.hole, C19.ident, C19.wrap, C17.sym, C17.mirror(table part).

type contribCell struct {
	fr, ct, pt int64
	wc, wc2    int64
}

type contribTable struct {
	fn      *ssa.Function
	name    string
	cells   map[contribCell]bool
	reps    []int64
	fills   []enumConst
	clips   []enumConst
	polys   []enumConst
	atomsOf func(contribCell) map[string]absVal
}

func enumByName(es []enumConst, n string) int64 {
	for _, e := range es {
		if e.name == n {
			return e.val
		}
	}
	fatalf("enum constant %s not found", n)
	return 0
}

// extractContrib builds the full decision table of isContributingClosed / isContributingOpen.
func extractContrib(c *Ctx, fname string, withPoly bool) *contribTable {
	f := c.fn(fname)
	if !loopFree(f) {
		fatalf("%s is no longer loop-free: decision-table extraction is undecided", fname)
	}
	// the edge is the *Active parameter; fill rule and clip type come from the receiver's fields, or — when the
	// method has been turned into a plain function — from parameters of those names
	recv, ae := "", ""
	for _, p := range f.Params {
		switch typeName(p.Type()) {
		case "*Active":
			ae = p.Name()
		case "*clipperBase":
			recv = p.Name()
		}
	}
	if ae == "" {
		fatalf("%s: no *Active parameter", fname)
	}
	if recv == "" {
		recv = "c"
	}
	K := maxIntConst(f)
	if K > 8 {
		fatalf("%s compares with constant %d: representative range must be revisited", fname, K)
	}
	var reps []int64
	for i := -(K + 2); i <= K+2; i++ {
		reps = append(reps, i)
	}
	t := &contribTable{fn: f, name: fname, cells: map[contribCell]bool{}, reps: reps,
		fills: c.enumValues("FillRule"), clips: c.enumValues("ClipType"), polys: c.enumValues("PathType")}
	fills := append(append([]enumConst{}, t.fills...), enumConst{"other", t.fills[len(t.fills)-1].val + 1})
	clips := append(append([]enumConst{}, t.clips...), enumConst{"other", t.clips[len(t.clips)-1].val + 1})
	polys := t.polys
	if !withPoly {
		polys = polys[:1]
	}
	t.atomsOf = func(cell contribCell) map[string]absVal {
		return map[string]absVal{
			recv + ".fillRule":        intVal(cell.fr),
			recv + ".clipType":        intVal(cell.ct),
			"fillRule":                intVal(cell.fr),
			"clipType":                intVal(cell.ct),
			ae + ".windCount":         intVal(cell.wc),
			ae + ".windCount2":        intVal(cell.wc2),
			"getPolyType(" + ae + ")": intVal(cell.pt),
			ae + ".localMin.PolyType": intVal(cell.pt),
		}
	}
	for _, fr := range fills {
		for _, ct := range clips {
			for _, pt := range polys {
				for _, wc := range reps {
					for _, wc2 := range reps {
						cell := contribCell{fr.val, ct.val, pt.val, wc, wc2}
						atoms := t.atomsOf(cell)
						ex := &explorer{c: c, f: f, atoms: atoms}
						outs := ex.explore(nil)
						if len(outs) != 1 || len(outs[0].conds) != 0 || outs[0].end != "return" || len(outs[0].ret) != 1 || outs[0].ret[0].abs.k != aBool {
							why := fmt.Sprintf("%d paths", len(outs))
							for _, o := range outs {
								if len(o.conds) > 0 {
									why = "branches on a non-atom: " + o.condString()
									break
								}
							}
							if len(outs) == 1 && len(outs[0].conds) == 0 {
								why = fmt.Sprintf("ends with %s returning %v", outs[0].end, outs[0].ret)
							}
							fatalf("%s: cell %+v is undecided (%s) — the function uses its inputs outside the admissible class (comparisons with constants, -, abs)", fname, cell, why)
						}
						if a := atomAssigned(outs, atoms); a != "" {
							fatalf("%s assigns atom %s", fname, a)
						}
						t.cells[cell] = outs[0].ret[0].abs.b
					}
				}
			}
		}
	}
	return t
}

func ownSpec(t *contribTable, fr, wc int64) bool {
	switch fr {
	case enumByName(t.fills, "EvenOdd"):
		return true
	case enumByName(t.fills, "NonZero"):
		return wc == 1 || wc == -1
	case enumByName(t.fills, "Positive"):
		return wc == 1
	case enumByName(t.fills, "Negative"):
		return wc == -1
	}
	return false
}

func filledSpec(t *contribTable, fr, w int64) bool {
	switch fr {
	case enumByName(t.fills, "Positive"):
		return w > 0
	case enumByName(t.fills, "Negative"):
		return w < 0
	}
	return w != 0
}

func cellString(t *contribTable, cell contribCell) string {
	n := func(es []enumConst, v int64) string {
		for _, e := range es {
			if e.val == v {
				return e.name
			}
		}
		return fmt.Sprintf("other(%d)", v)
	}
	return fmt.Sprintf("fillRule=%s clipType=%s polyType=%s windCount=%d windCount2=%d", n(t.fills, cell.fr), n(t.clips, cell.ct), n(t.polys, cell.pt), cell.wc, cell.wc2)
}

// ruleContribClosed: C01.table.
func ruleContribClosed(rule string) func(*Ctx) {
	return func(c *Ctx) {
		t := extractContrib(c, "(clipperBase).isContributingClosed", true)
		subj := enumByName(t.polys, "Subject")
		for _, ct := range t.clips {
			if ct.name == "NoClip" {
				continue
			}
			for _, fr := range t.fills {
				bad, n := "", 0
				for _, pt := range t.polys {
					for _, wc := range t.reps {
						for _, wc2 := range t.reps {
							cell := contribCell{fr.val, ct.val, pt.val, wc, wc2}
							in2 := filledSpec(t, fr.val, wc2)
							var want bool
							switch ct.name {
							case "Intersection":
								want = in2
							case "Union":
								want = !in2
							case "Difference":
								want = (pt.val == subj) != in2
							case "Xor":
								want = true
							default:
								fatalf("new ClipType constant %s: the specification table must be extended", ct.name)
							}
							want = want && ownSpec(t, fr.val, wc)
							n++
							if t.cells[cell] != want && bad == "" {
								bad = fmt.Sprintf("cell {%s}: code returns %v, the set-theoretic table requires %v", cellString(t, cell), t.cells[cell], want)
							}
						}
					}
				}
				key := fmt.Sprintf("%s:isContributingClosed:%s/%s", rule, ct.name, fr.name)
				c.check(bad == "", rule, key, t.fn.Pos(), t.name,
					fmt.Sprintf("%d cells (polytype x windCount x windCount2 representatives %v) equal own-boundary AND boolean combination", n, t.reps),
					bad, "every (windCount, windCount2) cell is realised by stacking squares; a wrong cell adds or drops a whole face of the arrangement for that clip type and fill rule")
			}
		}
		// report (not judge) the unconstrained cells
		c.note("isContributingClosed: NoClip and out-of-range ClipType return %v for all cells; out-of-range FillRule behaves like EvenOdd for the own-set test — outside C01's quantifier, printed only", false)
	}
}

// ruleContribIdent: C19.ident — set identities inside the extracted table, no external oracle.
func ruleContribIdent(rule string) func(*Ctx) {
	return func(c *Ctx) {
		t := extractContrib(c, "(clipperBase).isContributingClosed", true)
		I, U, D, X := enumByName(t.clips, "Intersection"), enumByName(t.clips, "Union"), enumByName(t.clips, "Difference"), enumByName(t.clips, "Xor")
		subj, clip := enumByName(t.polys, "Subject"), enumByName(t.polys, "Clip")
		for _, fr := range t.fills {
			type ident struct {
				name string
				ok   func(pt, wc, wc2 int64) bool
			}
			get := func(ct, pt, wc, wc2 int64) bool { return t.cells[contribCell{fr.val, ct, pt, wc, wc2}] }
			ids := []ident{
				{"Union+Intersection partition the boundary edges (area(U)+area(I)=area(S)+area(C))", func(pt, wc, wc2 int64) bool {
					return !get(X, pt, wc, wc2) || (get(U, pt, wc, wc2) != get(I, pt, wc, wc2))
				}},
				{"Xor takes exactly the edges of Union or Intersection (Xor = Union minus Intersection)", func(pt, wc, wc2 int64) bool {
					return get(X, pt, wc, wc2) == (get(U, pt, wc, wc2) || get(I, pt, wc, wc2))
				}},
				{"Difference = Union on subject edges and = Intersection on clip edges (Diff = S minus I; Diff(S,C), I, Diff(C,S) partition U)", func(pt, wc, wc2 int64) bool {
					if pt == subj {
						return get(D, pt, wc, wc2) == get(U, pt, wc, wc2)
					}
					return get(D, pt, wc, wc2) == get(I, pt, wc, wc2)
				}},
			}
			for i, id := range ids {
				bad, n := "", 0
				for _, pt := range []int64{subj, clip} {
					for _, wc := range t.reps {
						for _, wc2 := range t.reps {
							n++
							if !id.ok(pt, wc, wc2) && bad == "" {
								bad = fmt.Sprintf("identity broken at {%s}", cellString(t, contribCell{fr.val, U, pt, wc, wc2}))
							}
						}
					}
				}
				c.check(bad == "", rule, fmt.Sprintf("%s:isContributingClosed:%s:identity%d", rule, fr.name, i+1), t.fn.Pos(), t.name,
					fmt.Sprintf("%s — holds on %d cells", id.name, n), id.name+": "+bad,
					"the four clip types are decided edge by edge from the same winding counts; if the edge-level identity fails for a cell, the area identities fail for any input realising that cell")
			}
		}
	}
}

// ruleContribSym: C17.sym / C17.mirror on the table.
func ruleContribSym(rule string) func(*Ctx) {
	return func(c *Ctx) {
		for _, fname := range []string{"(clipperBase).isContributingClosed", "(clipperBase).isContributingOpen"} {
			closed := strings.HasSuffix(fname, "Closed")
			t := extractContrib(c, fname, closed)
			short := fname[strings.Index(fname, ").")+2:]
			if closed {
				for _, ctn := range []string{"Union", "Intersection", "Xor"} {
					ct := enumByName(t.clips, ctn)
					for _, fr := range t.fills {
						bad := ""
						for _, wc := range t.reps {
							for _, wc2 := range t.reps {
								a := t.cells[contribCell{fr.val, ct, t.polys[0].val, wc, wc2}]
								b := t.cells[contribCell{fr.val, ct, t.polys[1].val, wc, wc2}]
								if a != b && bad == "" {
									bad = fmt.Sprintf("subject edge and clip edge decided differently at windCount=%d windCount2=%d", wc, wc2)
								}
							}
						}
						c.check(bad == "", rule+".sym", fmt.Sprintf("%s.sym:%s:%s/%s", rule, short, ctn, fr.name), t.fn.Pos(), fname,
							"contribution does not depend on the edge's polytype (subject/clip exchangeable)", bad,
							"exchanging subject and clip swaps every edge's polytype and (windCount, windCount2) roles; Union/Intersection/Xor must not care")
					}
				}
			}
			// Negative arm is the Positive arm with all winding numbers negated
			pos, neg := enumByName(t.fills, "Positive"), enumByName(t.fills, "Negative")
			for _, ct := range t.clips {
				if ct.name == "NoClip" {
					continue
				}
				bad := ""
				polys := t.polys
				if !closed {
					polys = polys[:1]
				}
				for _, pt := range polys {
					for _, wc := range t.reps {
						for _, wc2 := range t.reps {
							a := t.cells[contribCell{pos, ct.val, pt.val, wc, wc2}]
							b := t.cells[contribCell{neg, ct.val, pt.val, -wc, -wc2}]
							if a != b && bad == "" {
								bad = fmt.Sprintf("Positive at (wc=%d,wc2=%d) gives %v but Negative at (wc=%d,wc2=%d) gives %v", wc, wc2, a, -wc, -wc2, b)
							}
						}
					}
				}
				c.check(bad == "", rule+".mirror", fmt.Sprintf("%s.mirror:%s:%s", rule, short, ct.name), t.fn.Pos(), fname,
					"Negative cells are the sign-mirror of Positive cells", bad,
					"reversing every path negates every winding number; Positive on the input must equal Negative on the reversed input")
			}
		}
	}
}

// ruleContribOpen: C09.table.
func ruleContribOpen(rule string) func(*Ctx) {
	return func(c *Ctx) {
		t := extractContrib(c, "(clipperBase).isContributingOpen", false)
		for _, ct := range t.clips {
			if ct.name == "NoClip" || ct.name == "Xor" {
				continue // the property does not constrain Xor for open paths
			}
			for _, fr := range t.fills {
				bad, n := "", 0
				for _, wc := range t.reps {
					for _, wc2 := range t.reps {
						inS, inC := filledSpec(t, fr.val, wc), filledSpec(t, fr.val, wc2)
						var want bool
						switch ct.name {
						case "Intersection":
							want = inC
						case "Union":
							want = !inS && !inC
						case "Difference":
							want = !inC
						default:
							fatalf("new ClipType constant %s", ct.name)
						}
						n++
						cell := contribCell{fr.val, ct.val, t.polys[0].val, wc, wc2}
						if t.cells[cell] != want && bad == "" {
							bad = fmt.Sprintf("cell {%s}: code returns %v, property requires %v", cellString(t, cell), t.cells[cell], want)
						}
					}
				}
				c.check(bad == "", rule, fmt.Sprintf("%s:isContributingOpen:%s/%s", rule, ct.name, fr.name), t.fn.Pos(), t.name,
					fmt.Sprintf("%d cells equal the open-path coverage table (Intersection: inClip; Union: !inSubj&&!inClip; Difference: !inClip)", n), bad,
					"an open subject edge starts in the solution exactly when this predicate says so; a wrong cell covers or drops whole pieces of the line")
			}
		}
	}
}

// ruleOpenGuard: C01.open-guard / C09 — the boundary test opening the open-path branch of intersectEdges is `own`.
func ruleOpenGuard(rule string) func(*Ctx) {
	return func(c *Ctx) {
		f := c.fn("(clipperBase).intersectEdges")
		if !loopFree(f) {
			fatalf("intersectEdges is no longer loop-free")
		}
		recv := f.Params[0].Name()
		t := &contribTable{fills: c.enumValues("FillRule"), clips: c.enumValues("ClipType"), polys: c.enumValues("PathType")}
		effects := map[string]bool{"addOutPt": true, "(clipperBase).startOpenPath": true, "setSides": true}
		for _, fr := range t.fills {
			bad := ""
			for wc := int64(-3); wc <= 3; wc++ {
				if fr.name == "EvenOdd" && wc != 1 && wc != -1 {
					// under EvenOdd a closed edge's windCount is always its windDx (+-1): other cells are unreachable
					continue
				}
				atoms := map[string]absVal{
					recv + ".hasOpenPaths":  boolVal(true),
					"isOpen(ae1)":           boolVal(true),
					"isOpen(ae2)":           boolVal(false),
					"isJoined(ae2)":         boolVal(false),
					recv + ".fillRule":      intVal(fr.val),
					recv + ".clipType":      intVal(enumByName(t.clips, "Intersection")),
					"ae2.localMin.PolyType": intVal(enumByName(t.polys, "Clip")),
					"ae2.windCount":         intVal(wc),
				}
				ex := &explorer{c: c, f: f, atoms: atoms, canon: canonParams(f, recv, "ae1", "ae2", "pt")}
				outs := ex.explore(nil)
				if ex.overflow {
					fatalf("intersectEdges: path explosion")
				}
				if m := opaqueMentionsAtom(outs, map[string]absVal{"ae2.windCount": {}, recv + ".fillRule": {}}); m != "" {
					fatalf("intersectEdges open branch: %s", m)
				}
				has := false
				for _, p := range outs {
					for e := range effects {
						if p.called(e) {
							has = true
						}
					}
				}
				want := ownSpec(t, fr.val, wc)
				if has != want && bad == "" {
					bad = fmt.Sprintf("fillRule=%s windCount(closed edge)=%d: open path is cut here=%v, but the closed edge is a region boundary of its own set=%v", fr.name, wc, has, want)
				}
			}
			c.check(bad == "", rule, fmt.Sprintf("%s:intersectEdges:%s", rule, fr.name), f.Pos(), "(clipperBase).intersectEdges",
				"an open path is cut at a closed edge exactly when that edge bounds its own set's region under the fill rule (7 winding representatives)", bad,
				"the open-path branch must agree with isContributingClosed's own-set test, otherwise open lines are cut at interior edges or pass through boundaries")
		}
	}
}

// ruleTriSign: C14.sign / C15.pred.
func ruleTriSign(rule string) func(*Ctx) {
	return func(c *Ctx) {
		f := c.fn("triSign")
		if !loopFree(f) || len(f.Params) != 1 {
			fatalf("triSign changed shape")
		}
		K := maxIntConst(f)
		x := f.Params[0].Name()
		type cellT struct {
			name string
			reps []int64
			want int64
		}
		cells := []cellT{{"x<0", nil, -1}, {"x=0", []int64{0}, 0}, {"x=1", []int64{1}, 1}, {"x>1", nil, 1}}
		for i := int64(1); i <= K+2; i++ {
			cells[0].reps = append(cells[0].reps, -i)
			if i > 1 {
				cells[3].reps = append(cells[3].reps, i)
			}
		}
		for _, cell := range cells {
			bad := ""
			for _, r := range cell.reps {
				ex := &explorer{c: c, f: f, atoms: map[string]absVal{x: intVal(r)}}
				outs := ex.explore(nil)
				if len(outs) != 1 || len(outs[0].conds) != 0 || len(outs[0].ret) != 1 || outs[0].ret[0].abs.k != aInt {
					fatalf("triSign: undecided for x=%d", r)
				}
				if got := outs[0].ret[0].abs.i; got != cell.want && bad == "" {
					bad = fmt.Sprintf("triSign(%d) = %d, the sign function requires %d", r, got, cell.want)
				}
			}
			c.check(bad == "", rule, fmt.Sprintf("%s:triSign:cell(%s)", rule, cell.name), f.Pos(), "triSign",
				fmt.Sprintf("returns %d on representatives %v", cell.want, cell.reps), bad,
				"productsAreEqual compares sign(a)*sign(b) with sign(c)*sign(d); a wrong sign for a cell makes a*b == -(c*d) look equal, so three non-collinear points with a unit coordinate difference are treated as collinear")
		}
	}
}

// ruleIsHole: C04.hole.
func ruleIsHole(rule string) func(*Ctx) {
	return func(c *Ctx) {
		f := c.fn("(PolyPathBase).IsHole")
		if !loopFree(f) {
			fatalf("IsHole is no longer loop-free")
		}
		p := f.Params[0].Name()
		groups := []struct {
			name string
			reps []int64
			want bool
		}{{"level=0(root)", []int64{0}, false}, {"level odd (filled boundary)", []int64{1, 3, 5}, false}, {"level even>0 (hole)", []int64{2, 4, 6}, true}}
		for _, g := range groups {
			bad := ""
			for _, r := range g.reps {
				ex := &explorer{c: c, f: f, atoms: map[string]absVal{"(PolyPathBase).Level(" + p + ")": intVal(r)}}
				outs := ex.explore(nil)
				if len(outs) != 1 || len(outs[0].conds) != 0 || len(outs[0].ret) != 1 || outs[0].ret[0].abs.k != aBool {
					fatalf("IsHole: undecided for level %d (it must depend on Level() only)", r)
				}
				if outs[0].ret[0].abs.b != g.want && bad == "" {
					bad = fmt.Sprintf("IsHole at level %d = %v, want %v", r, outs[0].ret[0].abs.b, g.want)
				}
			}
			c.check(bad == "", rule, fmt.Sprintf("%s:IsHole:%s", rule, strings.NewReplacer(" ", "", "(", "-", ")", "", ">", "gt").Replace(g.name)), f.Pos(), "(PolyPathBase).IsHole",
				g.name+" -> "+fmt.Sprint(g.want), bad, "nesting levels alternate filled/hole; IsHole must be true exactly on even non-zero levels")
		}
		// Level(): counts parents by following .parent to nil, +1 per step
		lf := c.fn("(PolyPathBase).Level")
		ok, why := levelShape(lf)
		c.check(ok, rule, rule+":Level:counts-parents", lf.Pos(), "(PolyPathBase).Level", "result = number of .parent links to nil (one loop, +1 per step, cursor advanced by .parent, exit on nil)", why,
			"IsHole is defined through Level; a Level that skips or double counts a generation flips hole/boundary for a whole subtree")
	}
}

func levelShape(f *ssa.Function) (bool, string) {
	loops := naturalLoops(f)
	if len(loops) != 1 {
		return false, fmt.Sprintf("expected exactly one loop, found %d", len(loops))
	}
	var counter, cursor *ssa.Phi
	for _, in := range loops[0].header.Instrs {
		phi, ok := in.(*ssa.Phi)
		if !ok {
			break
		}
		if _, isPtr := derefStruct(phi.Type()); isPtr {
			cursor = phi
		} else {
			counter = phi
		}
	}
	if counter == nil || cursor == nil {
		return false, "loop header lacks a counter phi and a cursor phi"
	}
	// counter: entry const 0, back edge counter+1
	for i, e := range counter.Edges {
		if loops[0].blocks[counter.Block().Preds[i]] {
			b, ok := e.(*ssa.BinOp)
			if !ok || b.Op != token.ADD || b.X != counter {
				return false, "counter is not incremented by addition on the back edge"
			}
			k, ok := b.Y.(*ssa.Const)
			if !ok || k.Int64() != 1 {
				return false, "counter increment is not 1"
			}
		} else if k, ok := e.(*ssa.Const); !ok || k.Int64() != 0 {
			return false, "counter does not start at 0"
		}
	}
	for i, e := range cursor.Edges {
		if loops[0].blocks[cursor.Block().Preds[i]] {
			x, fld, ok := isLinkLoad(e)
			if !ok || x != cursor || fld != "parent" {
				return false, "cursor is not advanced by .parent"
			}
		} else {
			x, fld, ok := isLinkLoad(e)
			if !ok || fld != "parent" {
				_ = x
				return false, "cursor does not start at p.parent"
			}
		}
	}
	// returned value is the counter
	for _, b := range f.Blocks {
		for _, in := range b.Instrs {
			if r, ok := in.(*ssa.Return); ok {
				if len(r.Results) != 1 || r.Results[0] != counter {
					return false, "Level does not return the counter"
				}
			}
		}
	}
	return true, ""
}

// ruleWrappers: C19.wrap — each named convenience wrapper passes the clip type its name states, and subject, clip, fill rule in order.
func ruleWrappers(rule string) func(*Ctx) {
	return func(c *Ctx) {
		type w struct{ fn, target, ct, clipArg string }
		ws := []w{
			{"UnionPaths64", "BooleanOpPaths64", "Union", "nil"}, {"UnionWithClipPaths64", "BooleanOpPaths64", "Union", "clip"},
			{"IntersectWithClipPaths64", "BooleanOpPaths64", "Intersection", "clip"}, {"DifferenceWithClipPaths64", "BooleanOpPaths64", "Difference", "clip"},
			{"XorWithClipPaths64", "BooleanOpPaths64", "Xor", "clip"},
			{"UnionPathsD", "BooleanOpPathsD", "Union", "nil"}, {"UnionWithClipPathsD", "BooleanOpPathsD", "Union", "clip"},
			{"IntersectWithClipPathsD", "BooleanOpPathsD", "Intersection", "clip"}, {"DifferenceWithClipPathsD", "BooleanOpPathsD", "Difference", "clip"},
			{"XorWithClipPathsD", "BooleanOpPathsD", "Xor", "clip"},
		}
		clips := c.enumValues("ClipType")
		for _, x := range ws {
			f := c.fn(x.fn)
			roles := []string{"subject", "clip", "fillRule", "precision"}
			if x.clipArg == "nil" {
				roles = []string{"subject", "fillRule", "precision"}
			}
			ex := &explorer{c: c, f: f, canon: canonParams(f, roles...)}
			outs := ex.explore(nil)
			bad := ""
			if len(outs) != 1 || len(outs[0].calls) != 1 {
				bad = "wrapper is no longer a single call"
			} else {
				call := outs[0].calls[0]
				switch {
				case call.callee != x.target:
					bad = "calls " + call.callee + " instead of " + x.target
				case len(call.args) < 4:
					bad = "unexpected arity"
				case call.args[0].abs.k != aInt || call.args[0].abs.i != enumByName(clips, x.ct):
					bad = fmt.Sprintf("passes clip type %s, its name says %s", call.args[0].expr, x.ct)
				case call.args[1].expr != "subject":
					bad = "first path set passed is " + call.args[1].expr + ", not subject"
				case call.args[2].expr != x.clipArg:
					bad = "clip argument is " + call.args[2].expr + ", want " + x.clipArg
				case call.args[3].expr != "fillRule":
					bad = "fill rule argument is " + call.args[3].expr
				case len(outs[0].ret) != 1 || !strings.HasPrefix(outs[0].ret[0].expr, x.target+"("):
					bad = "does not return the callee's result"
				}
			}
			c.check(bad == "", rule, fmt.Sprintf("%s:%s", rule, x.fn), f.Pos(), x.fn,
				fmt.Sprintf("= %s(%s, subject, %s, fillRule, ...)", x.target, x.ct, x.clipArg), bad,
				"the set identities relate the four operations by name; a wrapper wired to another clip type or with subject/clip swapped breaks them for asymmetric inputs (Difference)")
		}
		// the generic entries: subject added as Subject, clip as Clip, (clipType, fillRule) passed on in order
		for _, g := range []struct{ fn, add, exec string }{
			{"BooleanOpPaths64", "(clipper64).AddPaths", "(clipper64).Execute"}, {"BooleanOpPathsD", "(clipperD).AddPaths", "(clipperD).Execute"},
			{"BooleanOpPolyTree64", "(clipper64).AddPaths", "(clipper64).ExecutePolyTree64"}, {"BooleanOpPolyTreeD", "(clipperD).AddPaths", "(clipperD).ExecutePolyTreeD"},
		} {
			f := c.fn(g.fn)
			polys := c.enumValues("PathType")
			ex := &explorer{c: c, f: f, canon: canonParams(f, "clipType", "subject", "clip", "fillRule", "precisionV")}
			outs := ex.explore(nil)
			bad := ""
			sawFull := false
			for _, p := range outs {
				var adds []callRec
				var exec *callRec
				for i := range p.calls {
					if p.calls[i].callee == g.add {
						adds = append(adds, p.calls[i])
					}
					if p.calls[i].callee == g.exec {
						exec = &p.calls[i]
					}
				}
				if exec == nil {
					continue // early-return path (nil subject)
				}
				if exec.args[1].expr != "clipType" || exec.args[2].expr != "fillRule" {
					bad = fmt.Sprintf("Execute receives (%s, %s) instead of (clipType, fillRule)", exec.args[1].expr, exec.args[2].expr)
				}
				for _, a := range adds {
					isOpenArg := a.args[3]
					switch a.args[1].expr {
					case "subject":
						if a.args[2].abs.i != enumByName(polys, "Subject") {
							bad = "subject paths added with polytype " + a.args[2].expr
						}
					case "clip":
						sawFull = true
						if a.args[2].abs.i != enumByName(polys, "Clip") {
							bad = "clip paths added with polytype " + a.args[2].expr
						}
					default:
						bad = "AddPaths receives " + a.args[1].expr
					}
					if isOpenArg.abs.k != aBool || isOpenArg.abs.b {
						bad = "paths added as open"
					}
				}
				if len(adds) == 0 {
					bad = "no AddPaths before Execute"
				}
			}
			if !sawFull && bad == "" {
				bad = "no path adds the clip set"
			}
			c.check(bad == "", rule, fmt.Sprintf("%s:%s:wiring", rule, g.fn), f.Pos(), g.fn,
				fmt.Sprintf("subject->Subject, clip->Clip (closed), %s(clipType, fillRule) on all %d paths", g.exec, len(outs)), bad,
				"subject/clip roles and the (clipType, fillRule) order decide which boolean combination is computed")
		}
	}
}

// ruleIntersectMirror: C17.mirror on intersectEdges as a whole (semantic, independent of switch syntax):
// Positive with winding state (w, w2, dx) must take exactly the decisions Negative takes with (-w, -w2, -dx).
func ruleIntersectMirror(rule string) func(*Ctx) {
	return func(c *Ctx) {
		f := c.fn("(clipperBase).intersectEdges")
		if !loopFree(f) {
			fatalf("intersectEdges is no longer loop-free")
		}
		recv := f.Params[0].Name()
		fills := c.enumValues("FillRule")
		clips := c.enumValues("ClipType")
		pos, neg := enumByName(fills, "Positive"), enumByName(fills, "Negative")
		sig := func(fr int64, ct int64, s int64, a, b, d1, d2, w1, w2 int64, samePoly bool) string {
			pt2 := int64(0)
			if !samePoly {
				pt2 = 1
			}
			atoms := map[string]absVal{
				recv + ".hasOpenPaths": boolVal(false), recv + ".fillRule": intVal(fr), recv + ".clipType": intVal(ct),
				"isJoined(ae1)": boolVal(false), "isJoined(ae2)": boolVal(false),
				"ae1.windCount": intVal(s * a), "ae2.windCount": intVal(s * b), "ae1.windDx": intVal(s * d1), "ae2.windDx": intVal(s * d2),
				"ae1.windCount2": intVal(s * w1), "ae2.windCount2": intVal(s * w2),
				"ae1.localMin.PolyType": intVal(0), "ae2.localMin.PolyType": intVal(pt2),
				"getPolyType(ae1)": intVal(0), "getPolyType(ae2)": intVal(pt2), "isSamePolyType(ae1, ae2)": boolVal(samePoly),
			}
			ex := &explorer{c: c, f: f, atoms: atoms, maxPaths: 3000, canon: canonParams(f, recv, "ae1", "ae2", "pt")}
			outs := ex.explore(nil)
			if ex.overflow {
				fatalf("intersectEdges: path explosion")
			}
			var lines []string
			for _, p := range outs {
				var cs []string
				for _, cl := range p.calls {
					if strings.HasPrefix(cl.callee, "(clipperBase).") || cl.callee == "addOutPt" || cl.callee == "swapOutrecs" {
						cs = append(cs, cl.callee)
					}
				}
				var st []string
				for _, x := range p.stores {
					if strings.Contains(x.addr, "windCount") && x.val.abs.k == aInt {
						st = append(st, fmt.Sprintf("%s=%d", x.addr, s*x.val.abs.i))
					}
				}
				lines = append(lines, p.condString()+" => "+strings.Join(cs, ",")+" | "+strings.Join(st, ","))
			}
			sort.Strings(lines)
			return strings.Join(lines, "\n")
		}
		reps := []int64{-2, -1, 0, 1, 2}
		if c.tier != "thorough" {
			reps = []int64{-1, 0, 1, 2}
		}
		for _, ct := range clips {
			if ct.name == "NoClip" {
				continue
			}
			bad := ""
			n := 0
			for _, samePoly := range []bool{true, false} {
				for _, a := range reps {
					for _, b := range reps {
						for _, d := range [][2]int64{{1, 1}, {1, -1}, {-1, 1}, {-1, -1}} {
							for _, w1 := range []int64{-1, 0, 1} {
								for _, w2 := range []int64{-1, 0, 1} {
									if bad != "" {
										continue
									}
									n++
									p := sig(pos, ct.val, 1, a, b, d[0], d[1], w1, w2, samePoly)
									q := sig(neg, ct.val, -1, a, b, d[0], d[1], w1, w2, samePoly)
									if p != q {
										bad = fmt.Sprintf("Positive with (wc1=%d wc2=%d dx=%v w2=%d,%d samePoly=%v) decides\n%s\nbut Negative on the negated state decides\n%s", a, b, d, w1, w2, samePoly, firstLines(p, 6), firstLines(q, 6))
									}
								}
							}
						}
					}
				}
			}
			c.check(bad == "", rule, fmt.Sprintf("%s:intersectEdges:%s", rule, ct.name), f.Pos(), "(clipperBase).intersectEdges",
				fmt.Sprintf("Positive and Negative take mirror-identical decisions (calls and winding updates) on %d winding states", n), bad,
				"reversing all paths negates windCount, windCount2 and windDx of every edge; the Negative rule on the reversed input must do exactly what the Positive rule does on the original")
		}
	}
}

func firstLines(s string, n int) string {
	l := strings.Split(s, "\n")
	if len(l) > n {
		l = l[:n]
	}
	return strings.Join(l, "\n")
}
