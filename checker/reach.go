package main

import (
	"fmt"

	"golang.org/x/tools/go/ssa"
)

// REACH — must-reach / must-not-reach facts in the call graph (VTA refined, so the function-typed field
// RectClip64.getPath, the delta callback and sort closures are resolved).

type reachReq struct {
	entry    string
	must     []string
	mustNot  []string
	whyMust  string
	whyNever string
}

func ruleReach(rule string, reqs []reachReq) func(*Ctx) {
	return func(c *Ctx) {
		g := c.callgraphVTA()
		for _, r := range reqs {
			e := c.fn(r.entry)
			set := reachable(g, []*ssa.Function{e})
			names := map[string]*ssa.Function{}
			for f := range set {
				if c.inRepo(f) {
					names[c.fname(f)] = f
				}
			}
			for _, m := range r.must {
				c.fn(m)
				_, ok := names[m]
				c.check(ok, rule, fmt.Sprintf("%s:%s:reaches:%s", rule, r.entry, m), e.Pos(), r.entry,
					fmt.Sprintf("%s is call-graph reachable from %s (%d repo functions reachable)", m, r.entry, len(names)),
					fmt.Sprintf("%s is NOT reachable from %s in the VTA call graph (%d repo functions reachable)", m, r.entry, len(names)), r.whyMust)
			}
			for _, m := range r.mustNot {
				c.fn(m)
				_, ok := names[m]
				c.check(!ok, rule, fmt.Sprintf("%s:%s:avoids:%s", rule, r.entry, m), e.Pos(), r.entry,
					fmt.Sprintf("%s is not reachable from %s", m, r.entry),
					fmt.Sprintf("%s IS reachable from %s: %s", m, r.entry, pathTo(c, g, e, names[m])), r.whyNever)
			}
		}
	}
}

// pathTo prints one call path entry -> ... -> target (BFS).
func pathTo(c *Ctx, g interface{}, from, to *ssa.Function) string {
	cg := c.callgraphVTA()
	prev := map[*ssa.Function]*ssa.Function{from: nil}
	q := []*ssa.Function{from}
	for len(q) > 0 {
		f := q[0]
		q = q[1:]
		if f == to {
			break
		}
		n := cg.Nodes[f]
		if n == nil {
			continue
		}
		for _, e := range n.Out {
			if _, seen := prev[e.Callee.Func]; !seen {
				prev[e.Callee.Func] = f
				q = append(q, e.Callee.Func)
			}
		}
	}
	if _, ok := prev[to]; !ok {
		return "?"
	}
	var path []string
	for f := to; f != nil; f = prev[f] {
		path = append([]string{c.fname(f)}, path...)
	}
	s := ""
	for i, p := range path {
		if i > 0 {
			s += " -> "
		}
		s += p
	}
	return s
}
