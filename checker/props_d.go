package main

import (
	"fmt"
	"go/token"
	"strings"

	"golang.org/x/tools/go/ssa"
)

// Path utilities: TrimCollinear64 (C15) and SimplifyPath (C16).

// loadOfParamIndex: v is (a phi of) loads path[idx] of parameter `param`; returns the index values.
func loadsOfParam(v ssa.Value, param *ssa.Parameter, seen map[ssa.Value]bool) ([]ssa.Value, bool) {
	if seen[v] {
		return nil, true
	}
	seen[v] = true
	switch x := v.(type) {
	case *ssa.Phi:
		var out []ssa.Value
		for _, e := range x.Edges {
			r, ok := loadsOfParam(e, param, seen)
			if !ok {
				return nil, false
			}
			out = append(out, r...)
		}
		return out, true
	case *ssa.UnOp:
		if x.Op == token.MUL {
			if ia, ok := x.X.(*ssa.IndexAddr); ok {
				base := ia.X
				if sl, isSl := base.(*ssa.Slice); isSl { // pts := path[first:end] — a window of the input is the input
					base = sl.X
				}
				if base == ssa.Value(param) {
					return []ssa.Value{ia.Index}, true
				}
			}
		}
	}
	return nil, false
}

func appendCalls(f *ssa.Function) []*ssa.Call {
	var out []*ssa.Call
	for _, b := range f.Blocks {
		for _, in := range b.Instrs {
			if call, ok := in.(*ssa.Call); ok {
				if bi, ok := call.Call.Value.(*ssa.Builtin); ok && bi.Name() == "append" {
					out = append(out, call)
				}
			}
		}
	}
	return out
}

func ruleTrimCollinear(rule string) func(*Ctx) {
	return func(c *Ctx) {
		f := c.fn("TrimCollinear64")
		path := f.Params[0]
		// subseq: every appended element is an element of the input path
		n := 0
		for i, call := range appendCalls(f) {
			els := appendedValues(call.Call.Args[1])
			if len(els) != 1 {
				continue
			}
			n++
			_, ok := loadsOfParam(els[0], path, map[ssa.Value]bool{})
			c.check(ok, rule+".subseq", fmt.Sprintf("%s.subseq:TrimCollinear64:append#%d", rule, i+1), call.Pos(), "TrimCollinear64",
				"the appended vertex is an element of the input path (path[k] through copies)", "the appended vertex is not taken from the input path: "+els[0].String(),
				"the result must be a sub-sequence of the input: a computed or foreign vertex changes the polygon")
		}
		c.floor(rule+".subseq", n, 2)
		// only-collinear: in the main scan a vertex is skipped exactly when isCollinear(lastKept, path[i], path[i+1]) holds
		loops := naturalLoops(f)
		var main *loopInfo
		for _, l := range loops {
			hasAppend := false
			for _, b := range l.ordered() {
				for _, in := range b.Instrs {
					if call, ok := in.(*ssa.Call); ok {
						if bi, ok := call.Call.Value.(*ssa.Builtin); ok && bi.Name() == "append" {
							hasAppend = true
						}
					}
				}
			}
			uses := false
			for _, b := range l.ordered() {
				for _, in := range b.Instrs {
					if ci, ok := in.(ssa.CallInstruction); ok && calleeName(c, ci) == "isCollinear" {
						uses = true
					}
				}
			}
			if hasAppend && uses {
				main = l
			}
		}
		if main == nil {
			fatalf("TrimCollinear64: main scan loop not found")
		}
		{
			ll := main
			ex := &explorer{c: c, f: f, stop: func(b *ssa.BasicBlock) bool { return !ll.blocks[b] }}
			outs := ex.explore(main.header)
			bad := ""
			nb := 0
			for _, p := range outs {
				if p.end != "loop" {
					continue
				}
				nb++
				appended := p.called("builtin.append")
				coll := false
				for _, cd := range p.conds {
					if strings.HasPrefix(cd.expr, "isCollinear(") && cd.taken {
						coll = true
					}
				}
				if appended == coll {
					bad = fmt.Sprintf("on the scan path [%s] vertex kept=%v although collinear=%v", p.condString(), appended, coll)
				}
			}
			if nb < 2 {
				bad = "main scan has fewer than two body paths"
			}
			c.check(bad == "", rule+".only", rule+".only:TrimCollinear64:main-scan", main.header.Instrs[0].Pos(), "TrimCollinear64",
				"a vertex is dropped exactly when isCollinear(...) holds for it, kept otherwise", bad,
				"only vertices exactly collinear with their current neighbours may disappear")
			// the tested triple: (last kept, path[i], path[i+1])
			for _, b := range main.ordered() {
				for _, in := range b.Instrs {
					ci, ok := in.(ssa.CallInstruction)
					if !ok || calleeName(c, ci) != "isCollinear" {
						continue
					}
					a := ci.Common().Args
					i1, ok1 := loadsOfParam(a[1], path, map[ssa.Value]bool{})
					i2, ok2 := loadsOfParam(a[2], path, map[ssa.Value]bool{})
					_, ok0 := loadsOfParam(a[0], path, map[ssa.Value]bool{})
					lastOfResult := false // result[len(result)-1]: the last kept vertex read back from the output
					if u, isU := a[0].(*ssa.UnOp); isU && u.Op == token.MUL {
						if ia, isIA := u.X.(*ssa.IndexAddr); isIA && paramOf(ia.X) == nil && isLenMinus1(ia.Index, ia.X) {
							if _, fromPath := loadsOfParam(ia.X, path, map[ssa.Value]bool{}); !fromPath {
								lastOfResult, ok0 = true, true
							}
						}
					}
					badT := ""
					switch {
					case !ok0 || !ok1 || !ok2 || len(i1) != 1 || len(i2) != 1:
						badT = "the tested points are not input vertices"
					case !isPlusOne(i2[0], i1[0]):
						badT = "the second and third tested points are not path[i], path[i+1]"
					default:
						if _, isPhi := a[0].(*ssa.Phi); !isPhi && !lastOfResult {
							badT = "the first tested point is not the last KEPT vertex (a loop-carried value)"
						}
					}
					c.check(badT == "", rule+".only", rule+".only:TrimCollinear64:main-triple", ci.Pos(), "TrimCollinear64",
						"tests (last kept vertex, path[i], path[i+1])", badT, "collinearity must be judged against the CURRENT neighbours, i.e. the last retained vertex and the next input vertex")
				}
			}
		}
		// closing test of a closed path: (last KEPT vertex, final input vertex, first kept vertex)
		{
			nClose := 0
			for _, b := range f.Blocks {
				inLoop := false
				for _, l := range loops {
					if l.blocks[b] {
						inLoop = true
					}
				}
				if inLoop {
					continue
				}
				for _, in := range b.Instrs {
					ci, ok := in.(ssa.CallInstruction)
					if !ok || calleeName(c, ci) != "isCollinear" {
						continue
					}
					a := ci.Common().Args
					if _, isInput := loadsOfParam(a[1], path, map[ssa.Value]bool{}); !isInput {
						continue
					}
					// third point: result[0]
					u2, ok2 := a[2].(*ssa.UnOp)
					if !ok2 {
						continue
					}
					ia2, ok2 := u2.X.(*ssa.IndexAddr)
					if !ok2 || !isConstInt(ia2.Index, 0) {
						continue
					}
					if _, fromPath := loadsOfParam(a[2], path, map[ssa.Value]bool{}); fromPath {
						continue
					}
					nClose++
					okFirst := false
					if _, isPhi := a[0].(*ssa.Phi); isPhi {
						okFirst = true // the carried `last`
					}
					if u, isU := a[0].(*ssa.UnOp); isU && u.Op == token.MUL {
						if ia, isIA := u.X.(*ssa.IndexAddr); isIA && isLenMinus1(ia.Index, ia.X) {
							if _, fromPath := loadsOfParam(a[0], path, map[ssa.Value]bool{}); !fromPath {
								okFirst = true // result[len(result)-1]
							}
						}
					}
					c.check(okFirst, rule+".only", fmt.Sprintf("%s.only:TrimCollinear64:closing-triple#%d", rule, nClose), ci.Pos(), "TrimCollinear64",
						"the closing test is (last kept vertex, final input vertex, first kept vertex)",
						"the closing test's first point is an INPUT vertex, not the last vertex that was kept: after a dropped run the final vertex is judged against a neighbour that is no longer in the result",
						"collinearity must be judged against the CURRENT neighbours, i.e. the last retained vertex and the first retained vertex")
				}
			}
		}
		// wrap-around prologue: the anchor vertex of each scan is fixed while the scan moves
		pro := 0
		type ploop struct {
			l    *loopInfo
			path *ssa.Parameter
		}
		var pls []ploop
		for _, l := range loops {
			pls = append(pls, ploop{l, path})
		}
		for _, g := range freshRegion(c, f)[1:] { // the prologue may have been moved into a helper
			for _, gp := range g.Params {
				if typeName(gp.Type()) == "Path64" {
					for _, l := range naturalLoops(g) {
						pls = append(pls, ploop{l, gp})
					}
					break
				}
			}
		}
		for _, pl := range pls {
			l, path := pl.l, pl.path
			if l == main {
				continue
			}
			for _, b := range l.ordered() {
				for _, in := range b.Instrs {
					ci, ok := in.(ssa.CallInstruction)
					if !ok || calleeName(c, ci) != "isCollinear" {
						continue
					}
					// final clean-up loop works on result[], not path[]
					inv := 0
					moving := 0
					onPath := true
					for _, a := range ci.Common().Args {
						idx, ok := loadsOfParam(a, path, map[ssa.Value]bool{})
						if !ok || len(idx) != 1 {
							onPath = false
							break
						}
						if dependsOnLoopPhi(idx[0], l, 0) {
							moving++
						} else {
							inv++
						}
					}
					if !onPath {
						continue
					}
					pro++
					c.check(inv >= 1 && moving >= 1, rule+".wrap", fmt.Sprintf("%s.wrap:TrimCollinear64:prologue#%d", rule, pro), ci.Pos(), "TrimCollinear64",
						fmt.Sprintf("wrap-around scan tests %d moving and %d fixed vertices (the anchor does not move with the scan)", moving, inv),
						"every tested vertex moves with the scan: the run of redundant vertices spanning the start index is compared with the last SKIPPED vertex instead of the fixed neighbour, so a real corner after a duplicated start can be dropped",
						"for a closed path the redundant run may span the start index; its two ends must be compared with the fixed vertices on the other side")
				}
			}
		}
		c.floor(rule+".wrap", pro, 2)
		// open paths keep their last point unconditionally
		{
			ex := &explorer{c: c, f: f, atoms: map[string]absVal{"isOpen": boolVal(true)}, stop: func(b *ssa.BasicBlock) bool { return main.blocks[b] }, canon: canonParams(f, "path", "isOpen")}
			// explore from the first block after the main loop: the exit successor of the header
			var exit *ssa.BasicBlock
			for _, s := range main.header.Succs {
				if !main.blocks[s] {
					exit = s
				}
			}
			bad := "exit of the main scan not found"
			if exit != nil {
				bad = ""
				outs := ex.explore(exit)
				for _, p := range outs {
					if p.end != "return" {
						continue
					}
					if !p.called("builtin.append") {
						bad = "an open path can return without its last point being appended"
					}
					for _, cd := range p.conds {
						if strings.Contains(cd.expr, "isCollinear") {
							bad = "the last point of an OPEN path is subject to a collinearity test"
						}
					}
				}
			}
			c.check(bad == "", rule+".open", rule+".open:TrimCollinear64:last-point", f.Pos(), "TrimCollinear64", "open path: path[l-1] is appended unconditionally after the scan", bad, "the two end points of an open path must be kept")
		}
	}
}

func isPlusOne(a, b ssa.Value) bool {
	bo, ok := a.(*ssa.BinOp)
	if !ok || bo.Op != token.ADD {
		return false
	}
	return (bo.X == b && isConstInt(bo.Y, 1)) || (bo.Y == b && isConstInt(bo.X, 1))
}

func dependsOnLoopPhi(v ssa.Value, l *loopInfo, depth int) bool {
	if depth > 6 {
		return false
	}
	switch x := v.(type) {
	case *ssa.Phi:
		if x.Block() == l.header {
			// moving iff some in-loop edge differs from the phi itself
			for i, e := range x.Edges {
				if l.blocks[x.Block().Preds[i]] && e != ssa.Value(x) {
					return true
				}
			}
			return false
		}
	case *ssa.BinOp:
		return dependsOnLoopPhi(x.X, l, depth+1) || dependsOnLoopPhi(x.Y, l, depth+1)
	}
	return false
}

func ruleSimplify(rule string) func(*Ctx) {
	return func(c *Ctx) {
		for _, name := range []string{"SimplifyPath64", "SimplifyPathD"} {
			f := c.fn(name)
			path := f.Params[0]
			loops := naturalLoops(f)
			// final pass: result = elements with !flags[i], in order
			var final *loopInfo
			for _, l := range loops {
				for _, b := range l.ordered() {
					for _, in := range b.Instrs {
						if call, ok := in.(*ssa.Call); ok {
							if bi, ok := call.Call.Value.(*ssa.Builtin); ok && bi.Name() == "append" {
								final = l
							}
						}
					}
				}
			}
			if final == nil {
				fatalf("%s: result loop not found", name)
			}
			{
				ll := final
				outs := (&explorer{c: c, f: f, stop: func(b *ssa.BasicBlock) bool { return !ll.blocks[b] }}).explore(final.header)
				bad := ""
				nb := 0
				for _, p := range outs {
					if p.end != "loop" {
						continue
					}
					nb++
					flagged, seenFlag := false, false
					for _, cd := range p.conds {
						if strings.Contains(cd.expr, flagsPfx) {
							seenFlag = true
							flagged = cd.taken
						}
					}
					app := p.called("builtin.append")
					if !seenFlag {
						bad = "the result pass does not consult flags[i]"
					} else if app == flagged {
						bad = fmt.Sprintf("vertex appended=%v although removed-flag=%v", app, flagged)
					}
				}
				if nb != 2 && bad == "" {
					bad = fmt.Sprintf("result pass has %d body paths, expected keep/skip", nb)
				}
				for _, call := range appendCalls(f) {
					for _, el := range appendedValues(call.Call.Args[1]) {
						idx, ok := loadsOfParam(el, path, map[ssa.Value]bool{})
						if !ok || len(idx) != 1 {
							bad = "an appended vertex is not path[i]"
						} else if !dependsOnLoopPhi(idx[0], final, 0) {
							bad = "the appended vertex does not follow the pass index"
						}
					}
				}
				c.check(bad == "", rule+".subseq", fmt.Sprintf("%s.subseq:%s:result-pass", rule, name), final.header.Instrs[0].Pos(), name,
					"result = one in-order pass over the input appending path[i] exactly when flags[i] is false", bad,
					"the result must be a sub-sequence of the input; the removed set is exactly the flagged set")
			}
			// short paths returned as they are
			{
				outs := (&explorer{c: c, f: f, atomFn: func(e string) (absVal, bool) {
					if e == "len("+path.Name()+")" {
						return intVal(3), true
					}
					return absVal{}, false
				}}).explore(nil)
				bad := ""
				for _, p := range outs {
					if p.end != "return" || len(p.ret) != 1 || p.ret[0].expr != path.Name() {
						bad = "a 3-point path is not returned unchanged"
					}
				}
				c.check(bad == "" && len(outs) > 0, rule+".short", fmt.Sprintf("%s.short:%s", rule, name), f.Pos(), name, "paths with fewer than 4 points are returned as they are", bad, "stated by the property")
			}
			// ends: for open paths dsq[0] and dsq[high] start at MaxFloat64 and are never refreshed
			var mainL *loopInfo
			for _, l := range loops {
				if l == final {
					continue
				}
				if mainL == nil || len(l.blocks) > len(mainL.blocks) {
					mainL = l
				}
			}
			for _, closed := range []bool{false, true} {
				ml := mainL
				ex := &explorer{c: c, f: f, atoms: map[string]absVal{"isClosedPath": boolVal(closed)}, maxPaths: 60000, canon: canonParams(f, "path", "epsilon", "isClosedPath"),
					stop: func(b *ssa.BasicBlock) bool { return !ml.blocks[b] }}
				outs := ex.explore(mainL.header)
				if ex.overflow {
					fatalf("%s: path explosion in the main loop", name)
				}
				bad := ""
				nb := 0
				for _, p := range outs {
					if p.end != "loop" {
						continue
					}
					removed := false
					nd := 0
					for _, s := range p.stores {
						if strings.HasPrefix(s.addr, flagsPfx) {
							removed = true
						}
						if strings.HasPrefix(s.addr, dsqPfx) {
							nd++
							if !closed {
								idx := s.addr[len(dsqPfx) : len(s.addr)-1]
								ne0, neH := false, false
								for _, cd := range p.conds {
									if cd.taken && cd.expr == "("+idx+" != 0)" {
										ne0 = true
									}
									if cd.taken && strings.HasPrefix(cd.expr, "("+idx+" != ") && cd.expr != "("+idx+" != 0)" {
										neH = true
									}
								}
								if !ne0 || !neH {
									bad = fmt.Sprintf("open path: dsq[%s] is refreshed without idx != 0 && idx != high having been established (path: …%s)", idx, tail(p.condString(), 160))
								}
							}
						}
					}
					if !removed {
						continue
					}
					nb++
					if closed && nd != 2 {
						bad = fmt.Sprintf("closed path: after removing a vertex %d distance cells are refreshed, expected both neighbours (2)", nd)
					}
				}
				if nb == 0 && bad == "" {
					bad = "no removing iteration found"
				}
				c.check(bad == "", rule+".ends", fmt.Sprintf("%s.ends:%s:closed=%v", rule, name, closed), mainL.header.Instrs[0].Pos(), name,
					map[bool]string{true: "closed path: both neighbours' distances are refreshed after every removal, wrap-around included", false: "open path: the end points' distance cells (MaxFloat64) are never refreshed"}[closed], bad,
					"open ends must never become removable; for closed paths a stale distance at index 0 / high leaves a vertex within epsilon in the result")
			}
			// init of the end cells for open paths
			{
				outs := (&explorer{c: c, f: f, atoms: map[string]absVal{"isClosedPath": boolVal(false)}, canon: canonParams(f, "", "epsilon", "isClosedPath"), atomFn: func(e string) (absVal, bool) {
					if e == "len("+path.Name()+")" {
						return intVal(9), true
					}
					return absVal{}, false
				}, stop: func(b *ssa.BasicBlock) bool {
					for _, l := range loops {
						if l.header == b {
							return true
						}
					}
					return false
				}}).explore(nil)
				bad := ""
				for _, p := range outs {
					got := map[string]bool{}
					for _, s := range p.stores {
						if strings.HasPrefix(s.addr, dsqPfx) && s.val.abs.k == aFloat && s.val.abs.f > 1e300 {
							got[s.addr] = true
						}
					}
					if !got[dsqPfx+"0]"] || len(got) != 2 {
						bad = fmt.Sprintf("open path: the end cells are not both initialised to MaxFloat64 (%v)", got)
					}
				}
				c.check(bad == "" && len(outs) > 0, rule+".ends", fmt.Sprintf("%s.ends:%s:open-init", rule, name), f.Pos(), name, "open path: dsq[0] = dsq[high] = MaxFloat64", bad, "the end points of an open path are never candidates for removal")
			}
		}
		// distance: coordinates enter only through same-axis differences (translation invariance)
		ruleOnlyDifferences(rule+".diff", []string{"PerpendicDistFromLineSqr64", "PerpendicDistFromLineSqrD"}, 6,
			"the set of retained indices must not change when the path is translated")(c)
	}
}

// ruleOnlyDifferences: in the named functions every coordinate read of a Point parameter is consumed only by a
// subtraction from a same-axis coordinate, so the function is EXACTLY invariant under translation of its inputs.
func ruleOnlyDifferences(rule string, fns []string, minReads int, why string) func(*Ctx) {
	return func(c *Ctx) {
		for _, name := range fns {
			f := c.fn(name)
			bad := ""
			n := 0
			// a coordinate read is Field(param) or a load of &spill.X where spill is the address-taken copy of a param
			coordAxis := func(v ssa.Value) (string, string, bool) {
				switch x := v.(type) {
				case *ssa.Field:
					if p, ok := x.X.(*ssa.Parameter); ok {
						return p.Name(), fieldName(x.X.Type(), x.Field), true
					}
				case *ssa.UnOp:
					if fa, ok := x.X.(*ssa.FieldAddr); ok && x.Op == token.MUL {
						if al, ok := fa.X.(*ssa.Alloc); ok {
							for _, r := range *al.Referrers() {
								if st, ok := r.(*ssa.Store); ok && st.Addr == ssa.Value(al) {
									if p, ok := st.Val.(*ssa.Parameter); ok {
										return p.Name(), fieldName(fa.X.Type(), fa.Field), true
									}
								}
							}
						}
					}
				}
				return "", "", false
			}
			for _, b := range f.Blocks {
				for _, in := range b.Instrs {
					v, isV := in.(ssa.Value)
					if !isV {
						continue
					}
					pn, axis, ok := coordAxis(v)
					if !ok {
						continue
					}
					n++
					for _, r := range *v.Referrers() {
						bo, ok := r.(*ssa.BinOp)
						if _, dbg := r.(*ssa.DebugRef); dbg {
							continue
						}
						if !ok || (bo.Op != token.SUB && !isCmp(bo.Op)) {
							bad = fmt.Sprintf("coordinate %s.%s is used outside a same-axis difference or comparison: %s", pn, axis, r.String())
							continue
						}
						other := bo.X
						if other == v {
							other = bo.Y
						}
						_, oa, ok := coordAxis(other)
						if !ok || oa != axis {
							bad = fmt.Sprintf("coordinate %s.%s is subtracted from something that is not a %s coordinate", pn, axis, axis)
						}
					}
				}
			}
			if n < minReads && bad == "" {
				bad = fmt.Sprintf("only %d coordinate reads found (expected at least %d): the function changed shape", n, minReads)
			}
			c.check(bad == "", rule, fmt.Sprintf("%s:%s", rule, name), f.Pos(), name,
				fmt.Sprintf("all %d coordinate reads are consumed only by same-axis differences: the result is exactly translation invariant", n), bad, why)
		}
	}
}

// the only []bool in SimplifyPath is the removed-flags slice, the only []float64 the distance cells
const flagsPfx = "make([]bool)["
const dsqPfx = "make([]float64)["

func tail(s string, n int) string {
	if len(s) <= n {
		return s
	}
	return s[len(s)-n:]
}
