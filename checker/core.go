package main

import (
	"fmt"
	"go/ast"
	"go/token"
	"go/types"
	"os"
	"path/filepath"
	"sort"
	"strings"

	"golang.org/x/tools/go/callgraph"
	"golang.org/x/tools/go/callgraph/cha"
	"golang.org/x/tools/go/callgraph/vta"
	"golang.org/x/tools/go/packages"
	"golang.org/x/tools/go/ssa"
	"golang.org/x/tools/go/ssa/ssautil"
)

// Status of one obligation.
type Status int

const (
	Pass      Status = iota // discharged
	Fail                    // violated: armed, produces VIOLATION unless listed as known
	Deviation               // computed and printed, never armed (undemonstrated)
)

func (s Status) String() string {
	switch s {
	case Pass:
		return "discharged"
	case Fail:
		return "VIOLATED"
	default:
		return "deviation(unarmed)"
	}
}

// Ob is one proof obligation produced by a rule instance.
type Ob struct {
	Rule       string `json:"rule"`
	Key        string `json:"key"` // rule:function:construct — never a line number
	Pos        string `json:"pos"`
	Func       string `json:"function"`
	Status     Status `json:"-"`
	StatusText string `json:"status"`
	Detail     string `json:"detail"`
	Why        string `json:"why_necessary,omitempty"`
	Nontrivial bool   `json:"nontrivial"`
}

// checkerError aborts the run with exit status 2 (never a VIOLATION).
type checkerError struct{ msg string }

func fatalf(format string, a ...any) {
	panic(checkerError{fmt.Sprintf(format, a...)})
}

// Ctx is the loaded, type-checked, SSA-built repository plus the obligations collected so far.
type Ctx struct {
	recorded  map[string]bool // names in anchors.json (reference tree)
	freshMemo map[*ssa.Function]bool
	alias     map[*ssa.Function]string // renamed function -> its recorded (reference-tree) name
	byAlias   map[string]*ssa.Function
	hpats     []helperPat
	hpatBusy  bool
	repo      string
	fset      *token.FileSet
	ppkg      *packages.Package
	tpkg      *types.Package
	info      *types.Info
	prog      *ssa.Program
	spkg      *ssa.Package
	all       []*packages.Package
	tier      string
	goos      string
	arch      string
	decls     map[string]*ast.FuncDecl // "Name" or "(T).Name"

	cgCHA *callgraph.Graph
	cgVTA *callgraph.Graph

	mods map[*ssa.Function]map[string]bool

	roTabs *roTables

	obs      []Ob
	analysed map[string]bool
	notes    []string
	controls []string
}

const repoModule = "github.com/bolom009/go-clipper2"

func load(repo, arch, tier string) *Ctx {
	return loadModule(repo, arch, tier, repoModule)
}

func loadModule(repo, arch, tier, module string) *Ctx {
	env := append(os.Environ(), "GOFLAGS=-mod=mod", "GOPROXY=off", "GOWORK=off")
	if arch != "" {
		env = append(env, "GOARCH="+arch)
	}
	cfg := &packages.Config{Mode: packages.LoadAllSyntax, Dir: repo, Env: env, Tests: false}
	pkgs, err := packages.Load(cfg, "./...")
	if err != nil {
		fatalf("load %s: %v", repo, err)
	}
	if len(pkgs) == 0 {
		fatalf("load %s: zero packages", repo)
	}
	var root *packages.Package
	for _, p := range pkgs {
		for _, e := range p.Errors {
			fatalf("package %s does not type-check: %v", p.PkgPath, e)
		}
		if p.PkgPath == module {
			root = p
		}
	}
	if root == nil {
		fatalf("package %s not found under %s", module, repo)
	}
	prog, _ := ssautil.AllPackages(pkgs, ssa.InstantiateGenerics)
	prog.Build()
	c := &Ctx{repo: repo, fset: root.Fset, ppkg: root, tpkg: root.Types, info: root.TypesInfo,
		prog: prog, spkg: prog.Package(root.Types), all: pkgs, tier: tier, arch: arch,
		decls: map[string]*ast.FuncDecl{}, analysed: map[string]bool{}}
	if c.spkg == nil {
		fatalf("no SSA package for %s", module)
	}
	for _, f := range root.Syntax {
		for _, d := range f.Decls {
			fd, ok := d.(*ast.FuncDecl)
			if !ok {
				continue
			}
			c.decls[declName(fd)] = fd
		}
	}
	if module == repoModule {
		c.resolveRenames()
	}
	return c
}

func declName(fd *ast.FuncDecl) string {
	if fd.Recv == nil || len(fd.Recv.List) == 0 {
		return fd.Name.Name
	}
	t := fd.Recv.List[0].Type
	if s, ok := t.(*ast.StarExpr); ok {
		t = s.X
	}
	if ix, ok := t.(*ast.IndexExpr); ok {
		t = ix.X
	}
	if id, ok := t.(*ast.Ident); ok {
		return "(" + id.Name + ")." + fd.Name.Name
	}
	return fd.Name.Name
}

// fn resolves "name" (package-level function) or "(T).name" (method on T or *T). Unresolved ⇒ checker error.
func (c *Ctx) fn(name string) *ssa.Function {
	f := c.fnOpt(name)
	if f == nil {
		fatalf("anchor function %q no longer resolves in %s — the rule table must be revisited", name, repoModule)
	}
	return f
}

func (c *Ctx) fnOpt(name string) *ssa.Function {
	if f, ok := c.byAlias[name]; ok {
		return f
	}
	if strings.HasPrefix(name, "(") {
		i := strings.Index(name, ").")
		tn, mn := name[1:i], name[i+2:]
		obj := c.tpkg.Scope().Lookup(tn)
		if obj == nil {
			return nil
		}
		for _, t := range []types.Type{obj.Type(), types.NewPointer(obj.Type())} {
			ms := c.prog.MethodSets.MethodSet(t)
			for i := 0; i < ms.Len(); i++ {
				sel := ms.At(i)
				if sel.Obj().Name() == mn && len(sel.Index()) == 1 {
					return c.prog.MethodValue(sel)
				}
			}
		}
		return nil
	}
	return c.spkg.Func(name)
}

// decl returns the AST declaration for a function name in fn() syntax.
func (c *Ctx) decl(name string) *ast.FuncDecl {
	d := c.decls[name]
	if d == nil {
		fatalf("anchor declaration %q no longer resolves", name)
	}
	return d
}

func (c *Ctx) pos(p token.Pos) string {
	if !p.IsValid() {
		return "-"
	}
	pp := c.fset.Position(p)
	rel, err := filepath.Rel(c.repo, pp.Filename)
	if err != nil || strings.HasPrefix(rel, "..") {
		rel = pp.Filename
	}
	return fmt.Sprintf("%s:%d:%d", rel, pp.Line, pp.Column)
}

func (c *Ctx) fname(f *ssa.Function) string {
	if f == nil {
		return "?"
	}
	if a, ok := c.alias[f]; ok {
		return a
	}
	if f.Parent() != nil {
		return c.fname(f.Parent()) + "$" + strings.TrimPrefix(f.Name(), f.Parent().Name()+"$")
	}
	if recv := f.Signature.Recv(); recv != nil {
		t := recv.Type()
		if p, ok := t.(*types.Pointer); ok {
			t = p.Elem()
		}
		if n, ok := t.(*types.Named); ok {
			return "(" + n.Obj().Name() + ")." + f.Name()
		}
	}
	return f.Name()
}

func (c *Ctx) add(o Ob) {
	o.StatusText = o.Status.String()
	c.obs = append(c.obs, o)
	if o.Func != "" {
		c.analysed[o.Func] = true
	}
}

func (c *Ctx) pass(rule, key string, p token.Pos, fn, detail string) {
	c.add(Ob{Rule: rule, Key: key, Pos: c.pos(p), Func: fn, Status: Pass, Detail: detail, Nontrivial: true})
}

func (c *Ctx) fail(rule, key string, p token.Pos, fn, detail, why string) {
	c.add(Ob{Rule: rule, Key: key, Pos: c.pos(p), Func: fn, Status: Fail, Detail: detail, Why: why, Nontrivial: true})
}

func (c *Ctx) check(ok bool, rule, key string, p token.Pos, fn, okDetail, failDetail, why string) {
	if ok {
		c.pass(rule, key, p, fn, okDetail)
	} else {
		c.fail(rule, key, p, fn, failDetail, why)
	}
}

func (c *Ctx) deviation(rule, key string, p token.Pos, fn, detail string) {
	c.add(Ob{Rule: rule, Key: key, Pos: c.pos(p), Func: fn, Status: Deviation, Detail: detail, Nontrivial: true})
}

func (c *Ctx) note(format string, a ...any) { c.notes = append(c.notes, fmt.Sprintf(format, a...)) }

// floor enforces the hand-confirmed minimum instance count of a rule.
func (c *Ctx) floor(rule string, got, want int) {
	if got < want {
		// the constructs the rule was confirmed on are gone: the structure it checks no longer exists in that form.
		// Reported as a violation of the rule (not as a checker error): an instance that was removed is as much a
		// finding as one that was changed.
		c.fail(rule, rule+":instances", token.NoPos, "", fmt.Sprintf("the rule matched %d instances; %d were confirmed by hand on the reference tree — a construct this rule checks has been removed or rewritten beyond recognition (a rule that matches nothing would pass vacuously)", got, want),
			"each confirmed instance is a place where the property depends on the checked structure; its disappearance must be reviewed")
	}
}

// srcFuncs returns every function with a body in the repository package (incl. methods, closures, generic instances).
func (c *Ctx) srcFuncs() []*ssa.Function {
	var out []*ssa.Function
	seen := map[*ssa.Function]bool{}
	for f := range ssautil.AllFunctions(c.prog) {
		if f.Blocks == nil {
			continue
		}
		if c.inRepo(f) {
			out = append(out, f)
			seen[f] = true
		}
	}
	// AllFunctions omits methods of unexported types that nothing in the program refers to; they are still callable
	// by users through a value an exported constructor returns (clipperBase.AddPath via *clipper64): add every
	// declared function and method of the package, and the closures inside them
	var addWithAnon func(f *ssa.Function)
	addWithAnon = func(f *ssa.Function) {
		if f == nil || f.Blocks == nil || seen[f] {
			return
		}
		seen[f] = true
		out = append(out, f)
		for _, a := range f.AnonFuncs {
			addWithAnon(a)
		}
	}
	for _, obj := range c.info.Defs {
		if fo, ok := obj.(*types.Func); ok {
			addWithAnon(c.prog.FuncValue(fo))
		}
	}
	// order by (file, offset): token.Pos across files depends on the (parallel) parse order and is not stable
	key := func(f *ssa.Function) string {
		p := c.fset.Position(f.Pos())
		return fmt.Sprintf("%s:%09d:%s", p.Filename, p.Offset, f.String())
	}
	sort.Slice(out, func(i, j int) bool { return key(out[i]) < key(out[j]) })
	return out
}

func (c *Ctx) inRepo(f *ssa.Function) bool {
	for g := f; g != nil; g = g.Parent() {
		if g.Pkg != nil {
			return g.Pkg == c.spkg
		}
		if o := g.Origin(); o != nil && o.Pkg != nil {
			return o.Pkg == c.spkg
		}
	}
	// synthetic wrappers etc.: decide by position
	if f.Pos().IsValid() {
		return strings.HasPrefix(c.fset.Position(f.Pos()).Filename, c.repo)
	}
	return false
}

func (c *Ctx) callgraphCHA() *callgraph.Graph {
	if c.cgCHA == nil {
		c.cgCHA = cha.CallGraph(c.prog)
	}
	return c.cgCHA
}

func (c *Ctx) callgraphVTA() *callgraph.Graph {
	if c.cgVTA == nil {
		c.cgVTA = vta.CallGraph(ssautil.AllFunctions(c.prog), c.callgraphCHA())
	}
	return c.cgVTA
}

// apiEntries: exported package-level functions and exported methods of every named type (engine objects are
// returned as unexported pointer types whose exported methods are the public API).
func (c *Ctx) apiEntries() []*ssa.Function {
	var out []*ssa.Function
	seen := map[*ssa.Function]bool{}
	for _, m := range c.spkg.Members {
		switch m := m.(type) {
		case *ssa.Function:
			if ast.IsExported(m.Name()) && m.Blocks != nil && !seen[m] {
				seen[m] = true
				out = append(out, m)
			}
		case *ssa.Type:
			for _, t := range []types.Type{m.Type(), types.NewPointer(m.Type())} {
				ms := c.prog.MethodSets.MethodSet(t)
				for i := 0; i < ms.Len(); i++ {
					sel := ms.At(i)
					if !ast.IsExported(sel.Obj().Name()) {
						continue
					}
					f := c.prog.MethodValue(sel)
					if f != nil && !seen[f] {
						seen[f] = true
						out = append(out, f)
					}
				}
			}
		}
	}
	sort.Slice(out, func(i, j int) bool { return out[i].String() < out[j].String() })
	return out
}

// reachable returns the set of functions reachable from roots in graph g.
func reachable(g *callgraph.Graph, roots []*ssa.Function) map[*ssa.Function]bool {
	seen := map[*ssa.Function]bool{}
	var stack []*ssa.Function
	for _, r := range roots {
		if !seen[r] {
			seen[r] = true
			stack = append(stack, r)
		}
	}
	for len(stack) > 0 {
		f := stack[len(stack)-1]
		stack = stack[:len(stack)-1]
		n := g.Nodes[f]
		if n == nil {
			continue
		}
		for _, e := range n.Out {
			if !seen[e.Callee.Func] {
				seen[e.Callee.Func] = true
				stack = append(stack, e.Callee.Func)
			}
		}
	}
	return seen
}

// staticCallees lists the static callees (in the repo package) of f in instruction order, with call instructions.
func calls(f *ssa.Function) []ssa.CallInstruction {
	var out []ssa.CallInstruction
	for _, b := range f.Blocks {
		for _, in := range b.Instrs {
			if ci, ok := in.(ssa.CallInstruction); ok {
				out = append(out, ci)
			}
		}
	}
	return out
}

func calleeName(c *Ctx, ci ssa.CallInstruction) string {
	if f := ci.Common().StaticCallee(); f != nil {
		if f.Origin() != nil {
			f = f.Origin()
		}
		if f.Pkg == c.spkg || (f.Pkg == nil && c.inRepo(f)) {
			return c.fname(f)
		}
		if f.Pkg != nil {
			return f.Pkg.Pkg.Path() + "." + c.fname(f)
		}
		return c.fname(f)
	}
	if b, ok := ci.Common().Value.(*ssa.Builtin); ok {
		return "builtin." + b.Name()
	}
	return ""
}

// modSet: names of struct fields ("x"), slice/array elements ("[]") and pointer targets ("*") a function may
// store to, transitively through static callees and closures it creates; dynamic calls give "*".
func (c *Ctx) modSet(f *ssa.Function) map[string]bool {
	if c.mods == nil {
		c.mods = map[*ssa.Function]map[string]bool{}
		funcs := c.srcFuncs()
		for _, g := range funcs {
			c.mods[g] = map[string]bool{}
		}
		for changed := true; changed; {
			changed = false
			for _, g := range funcs {
				m := c.mods[g]
				add := func(k string) {
					if !m[k] {
						m[k] = true
						changed = true
					}
				}
				for _, b := range g.Blocks {
					for _, in := range b.Instrs {
						switch x := in.(type) {
						case *ssa.Store:
							switch a := x.Addr.(type) {
							case *ssa.FieldAddr:
								add(fieldName(a.X.Type(), a.Field))
							case *ssa.IndexAddr:
								add("[]")
							case *ssa.Alloc:
							default:
								add("*")
							}
						case *ssa.MakeClosure:
							for k := range c.mods[x.Fn.(*ssa.Function)] {
								add(k)
							}
						case ssa.CallInstruction:
							if sc := x.Common().StaticCallee(); sc != nil {
								for k := range c.mods[sc] {
									add(k)
								}
							} else if _, isB := x.Common().Value.(*ssa.Builtin); !isB {
								add("*")
							}
						}
					}
				}
			}
		}
	}
	if m, ok := c.mods[f]; ok {
		return m
	}
	return map[string]bool{"*": true}
}
