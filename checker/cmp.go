package main

import (
	"fmt"
	"regexp"
	"sort"
	"strings"

	"golang.org/x/tools/go/ssa"
)

// C17.cmp — comparison closures handed to sort.Slice are strict weak orders on every ordering of their keys.

var keyRe = regexp.MustCompile(`\**[A-Za-z_][A-Za-z0-9_.]*\[i\][A-Za-z0-9_.]*`)

// comparator: a closure handed to sort.Slice / sort.SliceStable (less(i, j) bool, keys X[i].f / X[j].f) or to
// slices.SortFunc / SortStableFunc (cmp(a, b) int, keys a.f / b.f). Both are read through lt(a, b).
type comparator struct {
	f     *ssa.Function
	three bool // three-way (int) comparator
	canon map[string]string
	keyRe *regexp.Regexp
	other func(key string) string // the same key of the second element
}

func comparators(c *Ctx) []comparator {
	var out []comparator
	for _, f := range c.srcFuncs() {
		for _, ci := range calls(f) {
			n := calleeName(c, ci)
			if len(ci.Common().Args) < 2 {
				continue
			}
			var g *ssa.Function
			switch a := ci.Common().Args[1].(type) {
			case *ssa.MakeClosure:
				g = a.Fn.(*ssa.Function)
			case *ssa.Function:
				// a function literal without free variables, or a named comparator the reference record does not know
				// (the closure given a name by the change under analysis); recorded named comparators have their own rule
				if a.Parent() != nil || c.freshFunc(a) {
					g = a
				}
			}
			if g == nil {
				continue
			}
			switch {
			case n == "sort.Slice" || n == "sort.SliceStable":
				out = append(out, comparator{f: g, canon: canonParams(g, "i", "j"), keyRe: keyRe,
					other: func(k string) string { return strings.Replace(k, "[i]", "[j]", 1) }})
			case strings.HasPrefix(n, "slices.SortFunc") || strings.HasPrefix(n, "slices.SortStableFunc"):
				out = append(out, comparator{f: g, three: true, canon: canonParams(g, "a", "b"), keyRe: keyRe3,
					other: func(k string) string { return "b" + k[1:] }})
			}
		}
	}
	sort.Slice(out, func(i, j int) bool { return out[i].f.Pos() < out[j].f.Pos() })
	return out
}

var keyRe3 = regexp.MustCompile(`\ba\.[A-Za-z0-9_.]+`)

// keysOf discovers the keys the comparator reads of its first element.
func (cm comparator) keysOf(c *Ctx) []string {
	probe := (&explorer{c: c, f: cm.f, canon: cm.canon}).explore(nil)
	keySet := map[string]bool{}
	add := func(e string) {
		for _, k := range cm.keyRe.FindAllString(e, -1) {
			keySet[k] = true
		}
	}
	for _, p := range probe {
		for _, cd := range p.conds {
			add(cd.expr)
		}
		for _, r := range p.ret {
			add(r.expr)
		}
		for _, cl := range p.calls {
			for _, a := range cl.args {
				add(a.expr)
			}
		}
	}
	if len(keySet) == 0 {
		// the elements were first copied into locals (`a, b := list[i].pt, list[j].pt`): keys are fields of the
		// local holding the first element; its partner holds the same expression of the second
		first, second := map[string]string{}, map[string]string{}
		for _, p := range probe {
			for _, st := range p.stores {
				v := st.val.v()
				switch {
				case strings.Contains(v, "[i]") && !strings.Contains(v, "[j]"):
					first[st.addr] = v
				case strings.Contains(v, "[j]") && !strings.Contains(v, "[i]"):
					second[st.addr] = v
				}
			}
		}
		partner := map[string]string{}
		for a, va := range first {
			for b, vb := range second {
				if strings.Replace(va, "[i]", "[j]", -1) == vb {
					partner[a] = b
				}
			}
		}
		for a, b := range partner {
			re := regexp.MustCompile(`\b` + regexp.QuoteMeta(a) + `\.[A-Za-z0-9_.]+`)
			found := map[string]bool{}
			for _, p := range probe {
				for _, cd := range p.conds {
					for _, k := range re.FindAllString(cd.expr, -1) {
						found[k] = true
					}
				}
				for _, r := range p.ret {
					for _, k := range re.FindAllString(r.expr, -1) {
						found[k] = true
					}
				}
			}
			for k := range found {
				keySet[k] = true
				localPartner[k] = b + k[len(a):]
			}
		}
	}
	var keys []string
	for k := range keySet {
		keys = append(keys, k)
	}
	sort.Strings(keys)
	return keys
}

// localPartner: for keys read through a local copy of the first element, the same key of the second element.
var localPartner = map[string]string{}

// lt evaluates "first sorts strictly before second" for concrete key values; eq3 = the three-way result is 0.
func (cm comparator) lt(c *Ctx, keys []string, x, y []int64) (lt, eq3 bool) {
	atoms := map[string]absVal{}
	for i, k := range keys {
		atoms[k] = intVal(x[i])
		if p, ok := localPartner[k]; ok {
			atoms[p] = intVal(y[i])
		} else {
			atoms[cm.other(k)] = intVal(y[i])
		}
	}
	outs := (&explorer{c: c, f: cm.f, atoms: atoms, canon: cm.canon}).explore(nil)
	fn := c.fname(cm.f)
	if len(outs) != 1 || len(outs[0].conds) != 0 || len(outs[0].ret) != 1 {
		fatalf("%s: comparison is not a function of its keys %v alone — undecided", fn, keys)
	}
	r := outs[0].ret[0].abs
	if cm.three {
		if r.k != aInt {
			fatalf("%s: three-way comparison is not a function of its keys %v alone — undecided", fn, keys)
		}
		return r.i < 0, r.i == 0
	}
	if r.k != aBool {
		fatalf("%s: comparison is not a function of its keys %v alone — undecided", fn, keys)
	}
	return r.b, false
}

func ruleLessStrict(rule string, minInstances int) func(*Ctx) {
	return func(c *Ctx) {
		cls := comparators(c)
		c.floor(rule, len(cls), minInstances)
		for _, cm := range cls {
			f := cm.f
			fn := c.fname(f)
			if !loopFree(f) {
				fatalf("%s: comparison closure has a loop — undecided", fn)
			}
			keys := cm.keysOf(c)
			if len(keys) == 0 || len(keys) > 3 {
				fatalf("%s: %d comparison keys found — undecided", fn, len(keys))
			}
			// all key tuples over {0,1,2}
			var tuples [][]int64
			var gen func(pre []int64)
			gen = func(pre []int64) {
				if len(pre) == len(keys) {
					tuples = append(tuples, append([]int64(nil), pre...))
					return
				}
				for v := int64(0); v < 3; v++ {
					gen(append(pre, v))
				}
			}
			gen(nil)
			type res struct{ lt, eq bool }
			memo := map[string]res{}
			ev := func(x, y []int64) res {
				k := fmt.Sprint(x, y)
				if v, ok := memo[k]; ok {
					return v
				}
				l, e := cm.lt(c, keys, x, y)
				memo[k] = res{l, e}
				return memo[k]
			}
			L := func(x, y []int64) bool { return ev(x, y).lt }
			bad := ""
			for _, x := range tuples {
				if L(x, x) && bad == "" {
					bad = fmt.Sprintf("not irreflexive: less(a,a) is true for keys %v=%v", keys, x)
				}
				for _, y := range tuples {
					if L(x, y) && L(y, x) && bad == "" {
						bad = fmt.Sprintf("not asymmetric: less(a,b) and less(b,a) both true for a=%v b=%v (keys %v)", x, y, keys)
					}
					if cm.three && ev(x, y).eq != (!L(x, y) && !L(y, x)) && bad == "" {
						bad = fmt.Sprintf("the three-way result is 0 for a=%v b=%v (keys %v) although one sorts before the other, or non-zero both ways", x, y, keys)
					}
					for _, z := range tuples {
						if L(x, y) && L(y, z) && !L(x, z) && bad == "" {
							bad = fmt.Sprintf("not transitive: a<b, b<c but not a<c for a=%v b=%v c=%v (keys %v)", x, y, z, keys)
						}
						eq := func(p, q []int64) bool { return !L(p, q) && !L(q, p) }
						if eq(x, y) && eq(y, z) && !eq(x, z) && bad == "" {
							bad = fmt.Sprintf("incomparability is not transitive for a=%v b=%v c=%v (keys %v)", x, y, z, keys)
						}
					}
				}
			}
			c.check(bad == "", rule, fmt.Sprintf("%s:%s", rule, fn), f.Pos(), fn,
				fmt.Sprintf("strict weak order over keys %v (%d key tuples, all pairs and triples)", keys, len(tuples)), bad,
				"a sort comparator that is not a strict weak order may order equal inputs differently depending on their initial permutation, or loop/misplace elements: the sweep then processes minima or intersections in a wrong order")
		}
	}
}

// ruleCmp3: three-way comparator handed to slices.SortFunc must satisfy cmp(a,b) == -cmp(b,a). Computed and
// printed; NOT armed for horzSegSort (deviation: only region-equivalent differences could be demonstrated).
func ruleCmp3(rule string) func(*Ctx) {
	return func(c *Ctx) {
		f := c.fn("horzSegSort")
		if !loopFree(f) {
			fatalf("horzSegSort has a loop")
		}
		a, b := f.Params[0].Name(), f.Params[1].Name()
		eval := func(r1, r2 absVal, x1, x2 int64) int64 {
			atoms := map[string]absVal{a: {k: aPtr, i: 1}, b: {k: aPtr, i: 2}, a + ".rightOp": r1, b + ".rightOp": r2,
				a + ".leftOp.pt.X": intVal(x1), b + ".leftOp.pt.X": intVal(x2)}
			outs := (&explorer{c: c, f: f, atoms: atoms}).explore(nil)
			if len(outs) != 1 || len(outs[0].conds) != 0 || len(outs[0].ret) != 1 || outs[0].ret[0].abs.k != aInt {
				fatalf("horzSegSort is not a function of (rightOp nil-ness, leftOp.pt.X) alone — undecided")
			}
			return outs[0].ret[0].abs.i
		}
		ptr := absVal{k: aPtr, i: 7}
		nilv := absVal{k: aNil}
		bad := ""
		for _, r1 := range []absVal{ptr, nilv} {
			for _, r2 := range []absVal{ptr, nilv} {
				for x1 := int64(0); x1 < 3; x1++ {
					for x2 := int64(0); x2 < 3; x2++ {
						if eval(r1, r2, x1, x2) != -eval(r2, r1, x2, x1) && bad == "" {
							bad = fmt.Sprintf("cmp(a,b)=%d but cmp(b,a)=%d for rightOp nil-ness (%v,%v), leftOp.pt.X (%d,%d)", eval(r1, r2, x1, x2), eval(r2, r1, x2, x1), r1.k == aNil, r2.k == aNil, x1, x2)
						}
					}
				}
			}
		}
		if bad == "" {
			c.pass(rule, rule+":horzSegSort:antisymmetric", f.Pos(), "horzSegSort", "cmp(a,b) == -cmp(b,a) on all 36 cells")
		} else {
			c.deviation(rule, rule+":horzSegSort:antisymmetric", f.Pos(), "horzSegSort",
				"three-way comparator is not antisymmetric: "+bad+" — NOT ARMED: against a copy with a proper comparator 256 of 120 000 random inputs differ, always region-equivalently, which C17 allows")
		}
	}
}

// ruleSweepOrder: the two sort comparators implement the sweep's processing order: local minima bottom-up
// (larger Y first), intersections bottom-up and, within one Y, left to right.
func ruleSweepOrder(rule string) func(*Ctx) {
	return func(c *Ctx) {
		n := 0
		for _, cm := range comparators(c) {
			f := cm.f
			fn := c.fname(f)
			var ky, kx string
			for _, k := range cm.keysOf(c) {
				if strings.HasSuffix(k, ".Y") {
					ky = k
				}
				if strings.HasSuffix(k, ".X") {
					kx = k
				}
			}
			if ky == "" {
				continue // not a sweep comparator (no Y key)
			}
			n++
			keys := []string{ky}
			if kx != "" {
				keys = append(keys, kx)
			}
			bad := ""
			for ay := int64(0); ay < 3; ay++ {
				for by := int64(0); by < 3; by++ {
					for ax := int64(0); ax < 3; ax++ {
						for bx := int64(0); bx < 3; bx++ {
							x, y := []int64{ay}, []int64{by}
							if kx != "" {
								x, y = append(x, ax), append(y, bx)
							}
							got, _ := cm.lt(c, keys, x, y)
							want := ay > by
							if kx != "" {
								want = ay > by || (ay == by && ax < bx)
							}
							if got != want && bad == "" {
								bad = fmt.Sprintf("a sorts before b = %v for a=(x%d,y%d) b=(x%d,y%d); the sweep order requires %v", got, ax, ay, bx, by, want)
							}
						}
					}
				}
			}
			spec := "larger Y first (bottom-up)"
			if kx != "" {
				spec = "larger Y first (bottom-up), then smaller X first (left to right)"
			}
			c.check(bad == "", rule, fmt.Sprintf("%s:%s", rule, fn), f.Pos(), fn, "comparator = "+spec, bad,
				"the sweep processes scanbeams from the bottom up and swaps intersecting edges left to right so that they are adjacent when swapped; another order mis-pairs edges (visible as a lost X-mirror symmetry of the result)")
		}
		c.floor(rule, n, 2)
	}
}
