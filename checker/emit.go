package main

import (
	"fmt"
	"go/token"
	"go/types"
	"sort"
	"strings"

	"golang.org/x/tools/go/ssa"
)

// EMIT — must-precede / guard / must-store facts on the CFG, and clear-before-append tracking of out-parameters.

func callsTo(c *Ctx, f *ssa.Function, name string) []ssa.CallInstruction {
	var out []ssa.CallInstruction
	for _, ci := range calls(f) {
		if calleeName(c, ci) == name {
			out = append(out, ci)
		}
	}
	sort.Slice(out, func(i, j int) bool { return out[i].Pos() < out[j].Pos() })
	return out
}

func instrIndex(in ssa.Instruction) int {
	for i, x := range in.Block().Instrs {
		if x == in {
			return i
		}
	}
	return -1
}

// precedes: every path from the function entry to b passes through a (a dominates b).
func precedes(a, b ssa.Instruction) bool {
	if a.Block() == b.Block() {
		return instrIndex(a) < instrIndex(b)
	}
	return a.Block().Dominates(b.Block())
}

// guardedBy: instruction x executes only on the `want` outcome of a condition satisfying pred.
func guardedBy(x ssa.Instruction, want bool, pred func(ssa.Value) bool) bool {
	for d := x.Block(); d != nil; d = d.Idom() {
		if len(d.Preds) != 1 {
			continue
		}
		p := d.Preds[0]
		ifi, ok := p.Instrs[len(p.Instrs)-1].(*ssa.If)
		if !ok || p.Succs[0] == p.Succs[1] {
			continue
		}
		if (want && p.Succs[0] == d || !want && p.Succs[1] == d) && pred(ifi.Cond) {
			return true
		}
	}
	return false
}

// mustStoreField: on every path from f's entry to a return, a field `field` of a struct named typ is stored
// (directly, or through a call to a method on the same type for which the same holds). Panicking paths are ignored.
func mustStoreField(c *Ctx, f *ssa.Function, typ, field string, memo map[*ssa.Function]int) bool {
	switch memo[f] {
	case 1:
		return true
	case 2, 3:
		return false // 3 = in progress (recursion): pessimistic
	}
	memo[f] = 3
	_, out := mustStoreFlow(c, f, typ, field, memo)
	ok := true
	for _, b := range f.Blocks {
		if len(b.Instrs) == 0 {
			continue
		}
		if _, isRet := b.Instrs[len(b.Instrs)-1].(*ssa.Return); isRet && !out[b] {
			ok = false
		}
	}
	if ok {
		memo[f] = 1
	} else {
		memo[f] = 2
	}
	return ok
}

func storesField(c *Ctx, f *ssa.Function, in ssa.Instruction, typ, field string, memo map[*ssa.Function]int) bool {
	switch x := in.(type) {
	case *ssa.Store:
		if fa, ok := x.Addr.(*ssa.FieldAddr); ok && typeName(fa.X.Type()) == "*"+typ && fieldName(fa.X.Type(), fa.Field) == field {
			return true
		}
	case ssa.CallInstruction:
		if sc := x.Common().StaticCallee(); sc != nil && sc.Blocks != nil && c.inRepo(sc) && sc != f {
			if r := sc.Signature.Recv(); r != nil && typeName(r.Type()) == "*"+typ && mustStoreField(c, sc, typ, field, memo) {
				return true
			}
		}
	}
	return false
}

// mustStoreFlow returns, per block, whether the field is definitely stored at block entry / exit.
func mustStoreFlow(c *Ctx, f *ssa.Function, typ, field string, memo map[*ssa.Function]int) (in, out map[*ssa.BasicBlock]bool) {
	gen := map[*ssa.BasicBlock]bool{}
	for _, b := range f.Blocks {
		for _, ins := range b.Instrs {
			if storesField(c, f, ins, typ, field, memo) {
				gen[b] = true
			}
		}
	}
	in = map[*ssa.BasicBlock]bool{}
	out = map[*ssa.BasicBlock]bool{}
	for _, b := range f.Blocks {
		out[b] = true
		in[b] = true
	}
	in[f.Blocks[0]] = false
	out[f.Blocks[0]] = gen[f.Blocks[0]]
	for changed := true; changed; {
		changed = false
		for _, b := range f.Blocks {
			ni := true
			if b == f.Blocks[0] {
				ni = false
			} else {
				for _, p := range b.Preds {
					ni = ni && out[p]
				}
			}
			no := ni || gen[b]
			if ni != in[b] || no != out[b] {
				in[b], out[b] = ni, no
				changed = true
			}
		}
	}
	return
}

// mustStoreBefore: the field is definitely stored on every path from f's entry to instruction at.
func mustStoreBefore(c *Ctx, f *ssa.Function, typ, field string, at ssa.Instruction) bool {
	memo := map[*ssa.Function]int{f: 3}
	in, _ := mustStoreFlow(c, f, typ, field, memo)
	if in[at.Block()] {
		return true
	}
	for _, ins := range at.Block().Instrs {
		if ins == at {
			return false
		}
		if storesField(c, f, ins, typ, field, memo) {
			return true
		}
	}
	return false
}

func isFieldLoadOf(v ssa.Value, typ, field string) bool {
	u, ok := v.(*ssa.UnOp)
	if !ok || u.Op != token.MUL {
		return false
	}
	fa, ok := u.X.(*ssa.FieldAddr)
	return ok && typeName(fa.X.Type()) == "*"+typ && fieldName(fa.X.Type(), fa.Field) == field
}

func isCallNamed(c *Ctx, v ssa.Value, name string) bool {
	call, ok := v.(*ssa.Call)
	return ok && calleeName(c, call) == name
}

func constBool(v ssa.Value) (bool, bool) {
	k, ok := v.(*ssa.Const)
	if !ok || k.Value == nil {
		return false, false
	}
	switch k.Value.String() {
	case "true":
		return true, true
	case "false":
		return false, true
	}
	return false, false
}

// appendStoresTo finds `*dst = append(*dst, x)` stores in f where dst satisfies pred; returns the store and x's values.
type appendStore struct {
	store *ssa.Store
	elems []ssa.Value
}

func appendStores(f *ssa.Function, pred func(addr ssa.Value) bool) []appendStore {
	var out []appendStore
	for _, b := range f.Blocks {
		for _, in := range b.Instrs {
			st, ok := in.(*ssa.Store)
			if !ok || !pred(st.Addr) {
				continue
			}
			call, ok := st.Val.(*ssa.Call)
			if !ok {
				continue
			}
			if bi, ok := call.Call.Value.(*ssa.Builtin); !ok || bi.Name() != "append" {
				continue
			}
			out = append(out, appendStore{st, appendedValues(call.Call.Args[1])})
		}
	}
	sort.Slice(out, func(i, j int) bool { return out[i].store.Pos() < out[j].store.Pos() })
	return out
}

// ruleEmitClosed: C02.emit / C02.reverse / C09.route / C04.same-pipeline.
func ruleEmit(rule string) func(*Ctx) {
	return func(c *Ctx) {
		whyClean := "cleanCollinear (with fixSelfIntersects) is what removes collinear spikes, duplicate points and tiny self-intersections before a ring becomes a solution path; emitting without it returns non-canonical polygons"
		whyGuard := "buildPath returns false for rings that do not make a polygon (< 3 distinct points, very small triangles); appending regardless emits degenerate paths"
		// --- flat pipeline
		bp := c.fn("(clipperBase).buildPaths")
		isParam := func(name string) func(ssa.Value) bool {
			return func(a ssa.Value) bool { p, ok := a.(*ssa.Parameter); return ok && p.Name() == name }
		}
		for _, kind := range []struct {
			param  string
			open   bool
			floorN int
		}{{"solutionClosed", false, 1}, {"solutionOpen", true, 1}} {
			as := appendStores(bp, isParam(kind.param))
			c.floor(rule+".emit", len(as), kind.floorN)
			for i, a := range as {
				key := fmt.Sprintf("%s.emit:buildPaths:%s#%d", rule, kind.param, i+1)
				bad := ""
				var bcall *ssa.Call
				if !guardedBy(a.store, true, func(v ssa.Value) bool {
					if isCallNamed(c, v, "(clipperBase).buildPath") {
						bcall = v.(*ssa.Call)
						return true
					}
					return false
				}) {
					bad = "append to " + kind.param + " is not conditional on buildPath(...) returning true"
				} else {
					br := buildPathRoles(c)
					rev := bpArg(c, bcall, br.reverse)
					if !isFieldLoadOf(rev, "clipperBase", "reverseSolution") {
						bad = "buildPath's reverse argument is " + rev.String() + ", not the engine's reverseSolution option"
					} else if b, ok, txt := bpOpenArg(c, bcall); !ok || b != kind.open {
						bad = fmt.Sprintf("buildPath is called with isOpen=%s for the %s solution", txt, kind.param)
					} else if len(a.elems) != 1 || !loadsAllocPassedTo(a.elems[0], bcall, br.path) {
						bad = "the appended path is not the one buildPath just filled"
					}
				}
				if bad == "" {
					if !guardedBy(a.store, kind.open, func(v ssa.Value) bool { return isFieldLoadOf(v, "OutRec", "isOpen") }) {
						bad = fmt.Sprintf("append to %s is not selected by outrec.isOpen == %v", kind.param, kind.open)
					}
				}
				if bad == "" && !kind.open {
					cc := callsTo(c, bp, "(clipperBase).cleanCollinear")
					ok := false
					for _, x := range cc {
						if precedes(x, bcall) {
							ok = true
						}
					}
					if !ok {
						bad = "no cleanCollinear(outrec) call precedes buildPath on every path"
					}
				}
				why := whyGuard
				if strings.Contains(bad, "cleanCollinear") {
					why = whyClean
				}
				c.check(bad == "", rule+".emit", key, a.store.Pos(), "(clipperBase).buildPaths",
					fmt.Sprintf("append to %s: selected by outrec.isOpen==%v, guarded by buildPath(pts, c.reverseSolution, %v, &path)==true%s", kind.param, kind.open, kind.open, map[bool]string{false: ", preceded by cleanCollinear(outrec)", true: ""}[kind.open]), bad, why)
			}
		}
		// --- tree pipeline: checkBounds builds outrec.path exactly like the flat pipeline
		cb := c.fn("(clipperBase).checkBounds")
		{
			bcs := callsTo(c, cb, "(clipperBase).buildPath")
			bad := ""
			if len(bcs) != 1 {
				bad = fmt.Sprintf("expected one buildPath call in checkBounds, found %d", len(bcs))
			} else {
				br := buildPathRoles(c)
				args := []ssa.Value{nil, nil, bpArg(c, bcs[0], br.reverse), nil, bpArg(c, bcs[0], br.path)}
				fa, isFA := args[4].(*ssa.FieldAddr)
				switch {
				case !isFieldLoadOf(args[2], "clipperBase", "reverseSolution"):
					bad = "tree polygons are built with reverse=" + args[2].String() + " instead of the engine's reverseSolution"
				case func() bool { b, ok, _ := bpOpenArg(c, bcs[0]); return !ok || b }():
					_, _, txt := bpOpenArg(c, bcs[0])
					bad = "tree polygons are built with isOpen=" + txt
				case !isFA || fieldName(fa.X.Type(), fa.Field) != "path":
					bad = "buildPath does not fill outrec.path"
				default:
					ok := false
					for _, x := range callsTo(c, cb, "(clipperBase).cleanCollinear") {
						if precedes(x, bcs[0]) {
							ok = true
						}
					}
					if !ok {
						bad = "cleanCollinear(outrec) does not precede buildPath in checkBounds"
					}
				}
			}
			c.check(bad == "", rule+".tree", rule+".tree:checkBounds:pipeline", cb.Pos(), "(clipperBase).checkBounds",
				"outrec.path = cleanCollinear -> buildPath(pts, c.reverseSolution, false, &outrec.path): the same pipeline as the flat solution", bad,
				"the tree must hold exactly the polygons the flat result holds: a different cleaning or orientation pipeline gives different vertex lists")
		}
		// outrec.path is written nowhere else
		{
			n := 0
			for _, f := range c.srcFuncs() {
				for _, b := range f.Blocks {
					for _, in := range b.Instrs {
						st, ok := in.(*ssa.Store)
						if !ok {
							continue
						}
						if fa, ok := st.Addr.(*ssa.FieldAddr); ok && typeName(fa.X.Type()) == "*OutRec" && fieldName(fa.X.Type(), fa.Field) == "path" {
							n++
							c.fail(rule+".tree", fmt.Sprintf("%s.tree:%s:writes-outrec.path#%d", rule, c.fname(f), n), st.Pos(), c.fname(f), "outrec.path is assigned outside buildPath", "the tree polygon must come from the shared pipeline only")
						}
					}
				}
			}
			if n == 0 {
				c.pass(rule+".tree", rule+".tree:package:outrec.path-single-writer", token.NoPos, "package", "OutRec.path is written only through buildPath(&outrec.path) in checkBounds")
			}
		}
		// --- AddChild: once per record, with outrec.path, result kept in outrec.polypath
		rco := c.fn("(clipperBase).recursiveCheckOwners")
		acs := callsTo(c, rco, "(PolyPathBase).AddChild")
		c.floor(rule+".tree", len(acs), 1) // the two AddChild sites may be merged into one with a chosen parent
		for i, ac := range acs {
			bad := ""
			args := ac.Common().Args
			if !isFieldLoadOf(args[1], "OutRec", "path") {
				bad = "AddChild receives " + args[1].String() + ", not outrec.path"
			}
			// result stored into outrec.polypath
			stored := false
			if v, ok := ac.(ssa.Value); ok {
				for _, r := range *v.Referrers() {
					if st, ok := r.(*ssa.Store); ok {
						if fa, ok := st.Addr.(*ssa.FieldAddr); ok && fieldName(fa.X.Type(), fa.Field) == "polypath" {
							stored = true
						}
					}
				}
			}
			if bad == "" && !stored {
				bad = "AddChild's node is not remembered in outrec.polypath: the record can be inserted again"
			}
			// dominated by the false edge of `outrec.polypath != nil || ...` entry guard
			if bad == "" && !guardedBy(ac, false, func(v ssa.Value) bool {
				b, ok := v.(*ssa.BinOp)
				return ok && b.Op == token.NEQ && isFieldLoadOf(b.X, "OutRec", "polypath")
			}) {
				bad = "AddChild is not protected by the `outrec.polypath != nil -> return` guard"
			}
			c.check(bad == "", rule+".tree", fmt.Sprintf("%s.tree:recursiveCheckOwners:AddChild#%d", rule, i+1), ac.Pos(), "(clipperBase).recursiveCheckOwners",
				"AddChild(outrec.path) under the polypath==nil guard, node stored in outrec.polypath (at most one insertion per record)", bad,
				"each output record must appear in the tree exactly once")
		}
		// AddChild has no other internal caller
		{
			var others []string
			for _, f := range c.srcFuncs() {
				if f == rco || f.Synthetic != "" {
					continue
				}
				for range callsTo(c, f, "(PolyPathBase).AddChild") {
					others = append(others, c.fname(f))
				}
			}
			c.check(len(others) == 0, rule+".tree", rule+".tree:package:AddChild-single-caller", token.NoPos, "package", "AddChild is called only from recursiveCheckOwners",
				"AddChild is also called from "+strings.Join(others, ", "), "a second insertion site can add a record twice or add a polygon that did not pass the shared pipeline")
		}
		// buildTree: open records go to solutionOpen via buildPath(..., true, ...); tree insertion only after checkBounds
		bt := c.fn("(clipperBase).buildTree")
		for i, a := range appendStores(bt, isParam("solutionOpen")) {
			bad := ""
			var bcall *ssa.Call
			if !guardedBy(a.store, true, func(v ssa.Value) bool {
				if isCallNamed(c, v, "(clipperBase).buildPath") {
					bcall = v.(*ssa.Call)
					return true
				}
				return false
			}) {
				bad = "open append is not conditional on buildPath"
			} else if b, ok, txt := bpOpenArg(c, bcall); !ok || !b {
				bad = "open paths are built with isOpen=" + txt
			} else if !isFieldLoadOf(bpArg(c, bcall, buildPathRoles(c).reverse), "clipperBase", "reverseSolution") {
				bad = "open paths ignore reverseSolution"
			} else if !guardedBy(a.store, true, func(v ssa.Value) bool { return isFieldLoadOf(v, "OutRec", "isOpen") }) {
				bad = "append to solutionOpen is not selected by outrec.isOpen"
			}
			c.check(bad == "", rule+".emit", fmt.Sprintf("%s.emit:buildTree:solutionOpen#%d", rule, i+1), a.store.Pos(), "(clipperBase).buildTree",
				"open records reach only solutionOpen, through buildPath(pts, c.reverseSolution, true, ...)", bad, whyGuard)
		}
		for i, rc := range callsTo(c, bt, "(clipperBase).recursiveCheckOwners") {
			ok := guardedBy(rc, true, func(v ssa.Value) bool { return isCallNamed(c, v, "(clipperBase).checkBounds") })
			c.check(ok, rule+".tree", fmt.Sprintf("%s.tree:buildTree:insert#%d", rule, i+1), rc.Pos(), "(clipperBase).buildTree",
				"a record is inserted only after checkBounds(outrec) built and accepted its polygon", "recursiveCheckOwners is called without checkBounds(outrec) being true", whyGuard)
		}
		// all buildPath call sites pass the option (C02.reverse)
		n := 0
		for _, f := range c.srcFuncs() {
			for i, bc := range callsTo(c, f, "(clipperBase).buildPath") {
				n++
				c.check(isFieldLoadOf(bpArg(c, bc, buildPathRoles(c).reverse), "clipperBase", "reverseSolution"), rule+".reverse", fmt.Sprintf("%s.reverse:%s:buildPath#%d", rule, c.fname(f), i+1), bc.Pos(), c.fname(f),
					"reverse argument is the engine's reverseSolution option", "reverse argument is "+bpArg(c, bc, buildPathRoles(c).reverse).String()+": this site ignores the reverse-solution option",
					"with reverse-solution every orientation must flip together; a site with a hard-wired flag flips some paths and not others")
			}
		}
		c.floor(rule+".reverse", n, 4)
	}
}

// loadsAllocPassedTo: v is a load of the local whose address is argument #idx of call.
func loadsAllocPassedTo(v ssa.Value, call *ssa.Call, idx int) bool {
	u, ok := v.(*ssa.UnOp)
	if !ok || u.Op != token.MUL {
		return false
	}
	return idx < len(call.Call.Args) && call.Call.Args[idx] == u.X
}

// ruleBuildPath: buildPath rejects degenerate rings before writing and never emits equal consecutive points.
func ruleBuildPath(rule string) func(*Ctx) {
	return func(c *Ctx) {
		f := c.fn("(clipperBase).buildPath")
		loops := naturalLoops(f)
		if len(loops) != 1 {
			fatalf("buildPath: expected one loop, found %d", len(loops))
		}
		hdr := loops[0].header
		for _, closed := range []bool{true, false} {
			br := buildPathRoles(c)
			canon := map[string]string{}
			if br.op >= 0 {
				canon[f.Params[br.op].Name()] = "op"
			}
			if br.flag >= 0 {
				canon[f.Params[br.flag].Name()] = "isOpen"
			}
			openVal := !closed
			if !br.openMeansTrue {
				openVal = closed // the flag means `closed`
			}
			ex := &explorer{c: c, f: f, atoms: map[string]absVal{"isOpen": boolVal(openVal)}, stop: func(b *ssa.BasicBlock) bool { return b == hdr }, canon: canon}
			outs := ex.explore(nil)
			bad := ""
			rejects := []string{"(op == nil)", "(op.next == op)"}
			if closed {
				rejects = append(rejects, "(op.next == op.prev)")
			}
			for _, rj := range rejects {
				found := false
				for _, p := range outs {
					for _, cd := range p.conds {
						if cd.expr == rj && cd.taken {
							found = true
							if p.end != "return" || len(p.ret) != 1 || p.ret[0].abs.k != aBool || p.ret[0].abs.b || len(p.stores) > 0 {
								bad = "ring with " + rj + " is not rejected before writing the path"
							}
						}
					}
				}
				if !found && bad == "" {
					bad = "no test for " + rj + " before the path is written"
				}
			}
			if !closed && bad == "" {
				// an open two-point path (op.next == op.prev) must NOT be rejected
				for _, p := range outs {
					for _, cd := range p.conds {
						if cd.expr == "(op.next == op.prev)" {
							bad = "open paths are tested for op.next == op.prev: two-point open results would be dropped"
						}
					}
				}
			}
			c.check(bad == "", rule, fmt.Sprintf("%s:buildPath:reject:%s", rule, map[bool]string{true: "closed", false: "open"}[closed]), f.Pos(), "(clipperBase).buildPath",
				fmt.Sprintf("returns false before touching *path for %v", rejects), bad,
				"a closed solution path must have at least 3 vertices; rings of one or two points must be refused")
		}
		// after the copy loop an OPEN path is always kept: the sliver-triangle filter is for closed rings
		{
			br := buildPathRoles(c)
			var exit *ssa.BasicBlock
			for _, sb := range hdr.Succs {
				if !loops[0].blocks[sb] {
					exit = sb
				}
			}
			bad := ""
			if exit != nil && br.flag >= 0 {
				canon := map[string]string{f.Params[br.flag].Name(): "isOpen"}
				ex := &explorer{c: c, f: f, atoms: map[string]absVal{"isOpen": boolVal(br.openMeansTrue)}, canon: canon, maxPaths: 2000}
				for _, p := range ex.explore(exit) {
					if p.end != "return" || len(p.ret) != 1 {
						continue
					}
					if p.ret[0].abs.k != aBool || !p.ret[0].abs.b {
						bad = "an open path can be refused after it was copied (path: " + p.condString() + " returns " + p.ret[0].expr + "): the three-point sliver filter is meant for closed rings"
					}
				}
			}
			c.check(bad == "", rule, rule+":buildPath:open-kept", f.Pos(), "(clipperBase).buildPath",
				"once copied, an open path is always reported (the sliver-triangle filter applies to closed rings only)", bad,
				"an open result piece of three points whose ends lie close together is a legitimate polyline; dropping it loses part of the clipped line")
		}
		// appends inside the loop are guarded by `op2.pt != lastPt`
		as := appendStores(f, func(a ssa.Value) bool { return a == ssa.Value(param(f, "path", 4)) })
		inLoop := 0
		for i, a := range as {
			if !loops[0].blocks[a.store.Block()] {
				continue
			}
			inLoop++
			ok := guardedBy(a.store, true, func(v ssa.Value) bool {
				b, ok := v.(*ssa.BinOp)
				return ok && b.Op == token.NEQ && typeName(b.X.Type()) == "Point64"
			})
			c.check(ok, rule, fmt.Sprintf("%s:buildPath:dup-filter#%d", rule, i+1), a.store.Pos(), "(clipperBase).buildPath",
				"a point is appended only if it differs from the last appended point", "loop append is not guarded by `pt != lastPt`: consecutive equal vertices can be emitted",
				"no two consecutive equal vertices may appear in a solution path")
		}
		c.floor(rule, inLoop, 1)
	}
}

// ruleSucceeded: C03.flag — every path through executeInternal assigns c.succeeded.
func ruleSucceeded(rule string) func(*Ctx) {
	return func(c *Ctx) {
		f := c.fn("(clipperBase).executeInternal")
		ok := mustStoreField(c, f, "clipperBase", "succeeded", map[*ssa.Function]int{})
		c.check(ok, rule, rule+":executeInternal:succeeded", f.Pos(), "(clipperBase).executeInternal",
			"c.succeeded is assigned on every path from entry to every return (directly or via reset)",
			"some path through executeInternal (or reset) returns without assigning c.succeeded: Execute then reports the previous run's flag (false on a fresh engine)",
			"Execute* return c.succeeded right after executeInternal; the property demands success for every in-range input including NoClip and empty input")
		// every exported Execute* reads the flag only after executeInternal
		for _, name := range []string{"(clipperBase).execute", "(clipper64).ExecutePolyTree64", "(clipperD).ExecutePolyTreeD"} {
			g := c.fn(name)
			// the run may sit in a helper the reference record does not know (executeTree): the same holds there,
			// and in g the flag is read only after the call to that helper
			var readAfterRun func(g *ssa.Function, depth int) string
			readAfterRun = func(g *ssa.Function, depth int) string {
				eis := callsTo(c, g, "(clipperBase).executeInternal")
				if len(eis) == 0 && depth < 2 {
					for _, ci := range calls(g) {
						if h := ci.Common().StaticCallee(); h != nil && c.freshFunc(h) && fnWithCallsTo(c, h, "(clipperBase).executeInternal", 0) != nil {
							if b := readAfterRun(h, depth+1); b != "" {
								return b
							}
							eis = append(eis, ci)
						}
					}
				}
				if len(eis) != 1 {
					return "expected exactly one executeInternal call"
				}
				for _, b := range g.Blocks {
					for _, in := range b.Instrs {
						if u, ok := in.(*ssa.UnOp); ok && isFieldLoadOf(u, "clipperBase", "succeeded") && !precedes(eis[0], u) {
							return "c.succeeded is read before executeInternal ran"
						}
					}
				}
				return ""
			}
			bad := readAfterRun(g, 0)
			c.check(bad == "", rule, fmt.Sprintf("%s:%s:read-after-run", rule, name), g.Pos(), name, "the success flag is read only after executeInternal", bad, "a flag read before the run is the previous run's")
		}
	}
}

// ---------------------------------------------------------------------------------------------------------
// clear-before-append tracking (C12.clear)

type clearVerdict struct {
	ok     bool
	reason string
}

type clearTracker struct {
	c    *Ctx
	memo map[string]clearVerdict
}

// clearsFirst: in f, along every path, the first effect on the tracked out-parameter (named by access path
// `tracked`, e.g. "solution", "co.solution", "polytree") is a truncation / fresh assignment / tree Clear — never
// an append or AddChild — possibly delegated to a callee that receives it.
func (t *clearTracker) clearsFirst(f *ssa.Function, tracked string, depth int) clearVerdict {
	key := f.String() + "|" + tracked
	if v, ok := t.memo[key]; ok {
		return v
	}
	if depth > 6 {
		return clearVerdict{false, "delegation too deep"}
	}
	t.memo[key] = clearVerdict{false, "recursive delegation"}
	ex := &explorer{c: t.c, f: f, maxPaths: 5000}
	outs := ex.explore(nil)
	res := clearVerdict{true, ""}
	if ex.overflow {
		res = clearVerdict{false, "too many paths in " + t.c.fname(f)}
	}
	for _, p := range outs {
		if !res.ok {
			break
		}
		names := []string{tracked}
	path:
		for _, s := range p.seq {
			if s < 0 {
				st := p.stores[-s-1]
				// alias: the pointer itself is stored somewhere (co.solution = solution)
				for _, n := range names {
					if st.val.expr == n && !strings.HasPrefix(st.addr, "*") {
						names = append(names, st.addr)
					}
				}
				for _, n := range names {
					if st.addr == "*"+n {
						v := st.val.expr
						switch {
						case strings.HasSuffix(v, "[:0]") || strings.HasPrefix(v, "make("):
							break path // cleared
						case strings.HasPrefix(v, "builtin.append("):
							res = clearVerdict{false, fmt.Sprintf("%s appends to %s at %s before clearing it (path: %s)", t.c.fname(f), n, t.c.pos(st.pos), p.condString())}
							break path
						default:
							break path // overwritten with a fresh value
						}
					}
				}
				continue
			}
			call := p.calls[s-1]
			sc := call.instr.Common().StaticCallee()
			for ai, a := range call.args {
				for _, n := range names {
					var sub string
					switch {
					case a.expr == n || strings.HasPrefix(a.expr, n+"."):
						sub = ""
					case strings.HasPrefix(n, a.expr+"."):
						sub = n[len(a.expr):]
					default:
						continue
					}
					// tree primitives
					if call.callee == "(PolyPathBase).Clear" && ai == 0 {
						break path
					}
					if call.callee == "(PolyPathBase).AddChild" && ai == 0 {
						res = clearVerdict{false, fmt.Sprintf("%s adds a child to %s before clearing it", t.c.fname(f), n)}
						break path
					}
					if sc == nil || sc.Blocks == nil || !t.c.inRepo(sc) {
						if call.callee == "builtin.len" || call.callee == "builtin.cap" {
							continue
						}
						res = clearVerdict{false, fmt.Sprintf("%s hands %s to %s before clearing it", t.c.fname(f), n, call.callee)}
						break path
					}
					if ai >= len(sc.Params) {
						continue
					}
					v := t.clearsFirst(sc, sc.Params[ai].Name()+sub, depth+1)
					if !v.ok {
						res = clearVerdict{false, v.reason}
					}
					break path // the callee is the first to touch it
				}
			}
		}
	}
	t.memo[key] = res
	return res
}

func ruleClearFirst(rule string) func(*Ctx) {
	return func(c *Ctx) {
		t := &clearTracker{c: c, memo: map[string]clearVerdict{}}
		n := 0
		for _, f := range c.apiEntries() {
			if f.Synthetic != "" {
				continue
			}
			fn := c.fname(f)
			if !strings.Contains(fn, "Execute") {
				continue
			}
			for _, p := range f.Params {
				tn := typeName(p.Type())
				if tn != "*Paths64" && tn != "*PathsD" && tn != "*PolyTree64" && tn != "*PolyTreeD" {
					continue
				}
				n++
				v := t.clearsFirst(f, p.Name(), 0)
				c.check(v.ok, rule, fmt.Sprintf("%s:%s:%s", rule, fn, p.Name()), p.Pos(), fn,
					fmt.Sprintf("on every path the first effect on %s (%s) is a truncation / tree Clear (possibly in the callee that receives it)", p.Name(), tn), v.reason,
					"a solution argument that already holds data must be replaced, not appended to: the second Execute with the same slice would return old and new paths together")
			}
		}
		c.floor(rule, n, 12)
	}
}

var _ = types.Identical

// ruleCleanCollinear: C02.clean — a ring vertex is disposed exactly when it is collinear with its neighbours AND
// (it duplicates a neighbour, or collinear vertices are not preserved, or it is a 180-degree spike).
func ruleCleanCollinear(rule string) func(*Ctx) {
	return func(c *Ctx) {
		f := c.fn("(clipperBase).cleanCollinear")
		loops := naturalLoops(f)
		if len(loops) != 1 {
			fatalf("cleanCollinear: expected one loop, found %d", len(loops))
		}
		ll := loops[0]
		recv := f.Params[0].Name()
		for _, preserve := range []bool{true, false} {
			ex := &explorer{c: c, f: f, atoms: map[string]absVal{recv + ".preserveCollinear": boolVal(preserve)},
				stop: func(b *ssa.BasicBlock) bool { return !ll.blocks[b] }, maxPaths: 2000}
			outs := ex.explore(ll.header)
			bad := ""
			n := 0
			for _, p := range outs {
				if p.end != "loop" && p.end != "stop" && p.end != "return" {
					continue
				}
				coll, evaluated := false, false
				anyDisj := false
				for _, cd := range p.conds {
					switch {
					case strings.HasPrefix(cd.expr, "isCollinear("):
						coll, evaluated = cd.taken, true
					case strings.Contains(cd.expr, ".pt == ") && cd.taken:
						anyDisj = true
					case strings.HasPrefix(cd.expr, "(dotProduct64(") && strings.HasSuffix(cd.expr, "< 0)") && cd.taken:
						anyDisj = true
					}
				}
				if !evaluated {
					continue
				}
				n++
				disposed := p.called("disposeOutPt")
				want := coll && (anyDisj || !preserve)
				if disposed != want {
					bad = fmt.Sprintf("preserveCollinear=%v: vertex disposed=%v on path [%s], the rule requires %v", preserve, disposed, p.condString(), want)
				}
			}
			if n < 3 && bad == "" {
				bad = fmt.Sprintf("only %d decision paths found", n)
			}
			c.check(bad == "", rule, fmt.Sprintf("%s:cleanCollinear:preserve=%v", rule, preserve), f.Pos(), "(clipperBase).cleanCollinear",
				fmt.Sprintf("preserveCollinear=%v: a vertex is removed iff collinear && (duplicate of a neighbour || !preserve || spike) — %d decision paths", preserve, n), bad,
				"with preserve-collinear off every collinear vertex must go; with it on only duplicates and 180-degree spikes may: otherwise solutions keep repeated points / spikes or lose wanted vertices")
		}
	}
}

// roleArgs returns the call's arguments in the order of the given parameter roles: an argument is found through the
// callee parameter that carries the role's name, otherwise at the role's position (a method that became a function,
// reordered parameters). Missing ones are a nil constant of no use to any test.
func roleArgs(ci ssa.CallInstruction, roles ...string) []ssa.Value {
	out := make([]ssa.Value, len(roles))
	for i, r := range roles {
		k := roleIndex(ci, r, i)
		if k >= 0 && k < len(ci.Common().Args) {
			out[i] = ci.Common().Args[k]
		} else {
			out[i] = ssa.NewConst(nil, types.Typ[types.UntypedNil])
		}
	}
	return out
}

func roleIndex(ci ssa.CallInstruction, role string, pos int) int {
	if g := ci.Common().StaticCallee(); g != nil {
		for k, p := range g.Params {
			if p.Name() == role {
				return k
			}
		}
	}
	return pos
}

// buildPathRoles: which parameter of buildPath is the ring, the reverse flag, the open/closed flag and the output
// path — by type and name, so that a method turned into a function or a flag renamed `closed` (with its meaning
// turned round) is still read correctly. openMeansTrue says whether the flag is true for OPEN paths; it is read from
// the body: two-point rings (op.next == op.prev) are refused for closed paths only.
type bpRoles struct {
	op, reverse, flag, path int
	openMeansTrue         bool
}

func buildPathRoles(c *Ctx) bpRoles {
	g := c.fn("(clipperBase).buildPath")
	r := bpRoles{op: -1, reverse: -1, flag: -1, path: -1, openMeansTrue: true}
	var bools []int
	for i, p := range g.Params {
		switch typeName(p.Type()) {
		case "*OutPt":
			r.op = i
		case "*Path64":
			r.path = i
		case "bool":
			bools = append(bools, i)
		}
	}
	for _, i := range bools {
		if g.Params[i].Name() == "reverse" {
			r.reverse = i
		}
	}
	for _, i := range bools {
		if i != r.reverse {
			if r.reverse < 0 {
				r.reverse = i // the first flag
				continue
			}
			r.flag = i
		}
	}
	if r.flag < 0 {
		return r
	}
	// polarity: with the flag fixed, is the two-point test evaluated?
	fp := g.Params[r.flag]
	tested := map[bool]bool{}
	for _, v := range []bool{false, true} {
		ex := &explorer{c: c, f: g, atoms: map[string]absVal{fp.Name(): boolVal(v)}, maxPaths: 2000}
		loops := naturalLoops(g)
		if len(loops) > 0 {
			hdr := loops[0].header
			ex.stop = func(b *ssa.BasicBlock) bool { return b == hdr }
		}
		for _, p := range ex.explore(nil) {
			for _, cd := range p.conds {
				if strings.Contains(cd.expr, ".next == ") && strings.Contains(cd.expr, ".prev") {
					tested[v] = true
				}
			}
		}
	}
	if tested[true] && !tested[false] {
		r.openMeansTrue = false // the refusal of two-point rings applies when the flag is TRUE: the flag means `closed`
	}
	return r
}

// bpOpenArg: the open/closed argument of a buildPath call, as "is the path open": value, whether it is a constant,
// and a rendering.
func bpOpenArg(c *Ctx, call ssa.CallInstruction) (open bool, known bool, text string) {
	r := buildPathRoles(c)
	if r.flag < 0 || r.flag >= len(call.Common().Args) {
		return false, false, "?"
	}
	a := call.Common().Args[r.flag]
	b, ok := constBool(a)
	if !ok {
		return false, false, a.String()
	}
	if !r.openMeansTrue {
		return !b, true, fmt.Sprintf("%v (closed=%v)", !b, b)
	}
	return b, true, fmt.Sprint(b)
}

func bpArg(c *Ctx, call ssa.CallInstruction, idx int) ssa.Value {
	if idx >= 0 && idx < len(call.Common().Args) {
		return call.Common().Args[idx]
	}
	return ssa.NewConst(nil, types.Typ[types.UntypedNil])
}
