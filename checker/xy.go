package main

import (
	"fmt"
	"go/ast"
	"go/token"
	"regexp"
	"sort"
	"strings"
)

// XY — axis pairing: wherever a point is built coordinate by coordinate, the Y expression must be the X
// expression under the axis swap. Rotations / reflections / deliberately mixed constructions are a frozen
// exemption table keyed by function, one line of reason each.

var xyExempt = map[string]string{
	"getUnitNormal":                     "returns the edge direction rotated by 90 degrees: {dy, -dx}",
	"(ClipperOffset).doSquare":          "builds perpendicular vectors {Y, -X} and {-Y, X} on purpose",
	"(ClipperOffset).doRound":           "rotation step: newX = x*cos - sin*y, newY = x*sin + y*cos",
	"Ellipse64":                         "first point is (center.X + radiusX, center.Y); then a rotation recurrence",
	"EllipseD":                          "first point is (center.X + radiusX, center.Y); then a rotation recurrence",
	"(Rect64).AsPath":                   "enumerates the four corners (left,top),(right,top),(right,bottom),(left,bottom)",
	"(RectD).AsPath":                    "enumerates the four corners",
	"(clipperBase).addNewIntersectNode": "X is the edge's current x, Y the scanline: Point64{X: ae1.curX, Y: topY}",
	"(clipperBase).doHorizontal":        "points on a horizontal edge: X from curX, Y is the edge's constant Y",
	"(Group).GetLowestPathInfo":         "start value of a lexicographic (lowest Y, then lowest X) search: {MaxInt64, MinInt64}",
	"intersectPoint":                    "line equations y = m*x + b are not symmetric in x and y",
	"ScaleRectD":                        "corner points (left,top) and (right,bottom)",
}

var lowerPairs = map[string]string{"x": "y", "y": "x", "dx": "dy", "dy": "dx", "rx": "ry", "ry": "rx", "xV": "yV", "yV": "xV", "mxV": "myV", "myV": "mxV",
	"xsV": "ysV", "ysV": "xsV", "dx1": "dy1", "dy1": "dx1", "dx2": "dy2", "dy2": "dx2", "left": "top", "top": "left", "right": "bottom", "bottom": "right"}

var identRe = regexp.MustCompile(`[A-Za-z_][A-Za-z0-9_]*`)

func axisSwap(s string) string {
	return identRe.ReplaceAllStringFunc(s, func(id string) string {
		if t, ok := lowerPairs[id]; ok {
			return t
		}
		if id == "X" {
			return "Y"
		}
		if id == "Y" {
			return "X"
		}
		// names with an axis letter: mulX/mulY, offsetX/offsetY, radiusX/radiusY, rX/rY, ptX/ptY, newX/newY
		if strings.HasSuffix(id, "X") && len(id) > 1 {
			return id[:len(id)-1] + "Y"
		}
		if strings.HasSuffix(id, "Y") && len(id) > 1 {
			return id[:len(id)-1] + "X"
		}
		return id
	})
}

type xyInstance struct {
	fn   string
	pos  token.Pos
	x, y string
	kind string
}

func xyInstances(c *Ctx, files map[string]bool) []xyInstance {
	var out []xyInstance
	for _, file := range c.ppkg.Syntax {
		fname := c.fset.Position(file.Pos()).Filename
		base := fname[strings.LastIndex(fname, "/")+1:]
		if files != nil && !files[base] {
			continue
		}
		for _, d := range file.Decls {
			fd, ok := d.(*ast.FuncDecl)
			if !ok || fd.Body == nil {
				continue
			}
			fn := declName(fd)
			ast.Inspect(fd.Body, func(n ast.Node) bool {
				switch x := n.(type) {
				case *ast.CompositeLit:
					tn := ""
					if id, ok := x.Type.(*ast.Ident); ok {
						tn = id.Name
					}
					if tn != "Point64" && tn != "PointD" {
						return true
					}
					var xe, ye ast.Expr
					if len(x.Elts) == 2 {
						if kv0, ok := x.Elts[0].(*ast.KeyValueExpr); ok {
							kv1, ok1 := x.Elts[1].(*ast.KeyValueExpr)
							if ok1 && render(kv0.Key) == "X" && render(kv1.Key) == "Y" {
								xe, ye = kv0.Value, kv1.Value
							} else if ok1 && render(kv0.Key) == "Y" && render(kv1.Key) == "X" {
								xe, ye = kv1.Value, kv0.Value
							}
						} else {
							xe, ye = x.Elts[0], x.Elts[1]
						}
					}
					if xe != nil && ye != nil {
						out = append(out, xyInstance{fn, x.Pos(), render(xe), render(ye), "literal"})
					}
				case *ast.BlockStmt:
					for i := 0; i+1 < len(x.List); i++ {
						a, ok1 := x.List[i].(*ast.AssignStmt)
						b, ok2 := x.List[i+1].(*ast.AssignStmt)
						if !ok1 || !ok2 || len(a.Lhs) != 1 || len(b.Lhs) != 1 || len(a.Rhs) != 1 || len(b.Rhs) != 1 || a.Tok != b.Tok {
							continue
						}
						la, lb := render(a.Lhs[0]), render(b.Lhs[0])
						if la != lb && axisSwap(la) == lb && (strings.HasSuffix(la, ".X") || strings.HasSuffix(la, "X") || lowerPairs[la] != "") {
							out = append(out, xyInstance{fn, a.Pos(), render(a.Rhs[0]), render(b.Rhs[0]), "assign " + la + "/" + lb})
						}
					}
				}
				return true
			})
		}
	}
	sort.Slice(out, func(i, j int) bool { return out[i].pos < out[j].pos })
	return out
}

func ruleXY(rule string, files []string, minInstances int) func(*Ctx) {
	return func(c *Ctx) {
		fs := map[string]bool{}
		for _, f := range files {
			fs[f] = true
		}
		if len(files) == 0 {
			fs = nil
		}
		ins := xyInstances(c, fs)
		cnt := map[string]int{}
		usedExempt := map[string]bool{}
		for _, in := range ins {
			cnt[in.fn]++
			key := fmt.Sprintf("%s:%s:point#%d", rule, in.fn, cnt[in.fn])
			ok := axisSwap(in.x) == in.y
			if !ok {
				reason, ex := xyExempt[in.fn]
				if !ex {
					// code moved out of an exempt function into a helper the reference record does not know keeps the
					// exemption (same asymmetric construction, new home)
					for efn, r := range xyExempt {
						if ef := c.fnOpt(efn); ef != nil {
							for _, g := range freshRegion(c, ef)[1:] {
								if c.fname(g) == in.fn {
									reason, ex = r+" (moved out of "+efn+")", true
								}
							}
						}
					}
				}
				if ex {
					usedExempt[in.fn] = true
					c.add(Ob{Rule: rule, Key: key, Pos: c.pos(in.pos), Func: in.fn, Status: Pass, Detail: fmt.Sprintf("exempt (%s): X=%s Y=%s", reason, in.x, in.y)})
					continue
				}
			}
			c.check(ok, rule, key, in.pos, in.fn,
				fmt.Sprintf("%s: Y expression is the X expression with the axes swapped (X=%s)", in.kind, in.x),
				fmt.Sprintf("%s: X=`%s` but Y=`%s`; the axis swap of X is `%s`", in.kind, in.x, in.y, axisSwap(in.x)),
				"a coordinate computed from the wrong axis (an .X/.Y typo) displaces every constructed point unless the input happens to be symmetric under x<->y — which the two-square goldens are")
		}
		c.floor(rule, len(ins), minInstances)
	}
}
