package main

import (
	"fmt"
	"go/constant"
	"go/token"
	"go/types"
	"sort"
	"strings"

	"golang.org/x/tools/go/ssa"
)

// SCALE — dataflow rules for the floating-point ("D") wrappers (C07).

var scaleInFns = map[string]bool{"ScalePathDToPath64": true, "ScalePathsDToPaths64": true, "ScaleRectD": true}
var scaleOutFns = map[string]bool{"ScalePath64ToPathD": true, "ScalePaths64ToPathsD": true}

// type converters without a precision: not operations of the property (no 64-bit counterpart is invoked)
var plainConverters = map[string]bool{"PathDToPath64": true, "PathsDToPaths64": true, "Path64ToPathD": true, "Paths64ToPathsD": true}

func typeName(t types.Type) string {
	if p, ok := t.(*types.Pointer); ok {
		return "*" + typeName(p.Elem())
	}
	if n, ok := t.(*types.Named); ok {
		return n.Obj().Name()
	}
	return t.String()
}

func isDType(t types.Type) bool {
	switch typeName(t) {
	case "PathD", "PathsD", "RectD", "*PathsD", "*PathD", "*PolyTreeD":
		return true
	}
	return false
}

func is64Type(t types.Type) bool {
	switch typeName(t) {
	case "Path64", "Paths64", "Rect64", "*Paths64", "*Path64", "*PolyTree64":
		return true
	}
	return false
}

// dEntries enumerates, by type, the exported functions/methods that bridge D types to 64-bit routines.
func dEntries(c *Ctx) []*ssa.Function {
	var out, cand []*ssa.Function
	for _, f := range c.apiEntries() {
		if f.Synthetic != "" {
			continue
		}
		name := c.fname(f)
		if scaleInFns[name] || scaleOutFns[name] || plainConverters[name] {
			continue
		}
		hasD := false
		sig := f.Signature
		for i := 0; i < sig.Params().Len(); i++ {
			if isDType(sig.Params().At(i).Type()) {
				hasD = true
			}
		}
		for i := 0; i < sig.Results().Len(); i++ {
			if isDType(sig.Results().At(i).Type()) {
				hasD = true
			}
		}
		if r := sig.Recv(); r != nil && typeName(r.Type()) == "*clipperD" {
			hasD = true
		}
		if name == "NewClipperD" {
			hasD = true
		}
		if !hasD {
			continue
		}
		// bridges: calls something that takes or returns a 64-bit geometry type, or another D entry
		bridges := false
		for _, ci := range callsDeep(c, f, 0) {
			sc := ci.Common().StaticCallee()
			if sc == nil || !c.inRepo(sc) {
				continue
			}
			s2 := sc.Signature
			for i := 0; i < s2.Params().Len(); i++ {
				if is64Type(s2.Params().At(i).Type()) {
					bridges = true
				}
			}
			for i := 0; i < s2.Results().Len(); i++ {
				if is64Type(s2.Results().At(i).Type()) {
					bridges = true
				}
			}
			if rr := s2.Recv(); rr != nil && (typeName(rr.Type()) == "*clipperBase" || typeName(rr.Type()) == "*clipperD") {
				bridges = true
			}
		}
		if name == "NewClipperD" {
			bridges = true
		}
		if bridges {
			out = append(out, f)
		} else {
			cand = append(cand, f)
		}
	}
	// delegating wrappers: D-typed exported functions that call an already recognised D entry point
	for changed := true; changed; {
		changed = false
		for i, f := range cand {
			if f == nil {
				continue
			}
			for _, ci := range calls(f) {
				sc := ci.Common().StaticCallee()
				if sc == nil {
					continue
				}
				for _, e := range out {
					if e == sc {
						out = append(out, f)
						cand[i] = nil
						changed = true
					}
				}
				if cand[i] == nil {
					break
				}
			}
		}
	}
	sort.Slice(out, func(i, j int) bool { return c.fname(out[i]) < c.fname(out[j]) })
	return out
}

// callsDeep: the calls of f, with calls to fresh helpers (code the change under analysis extracted from f, see
// rename.go) replaced by the helper's own calls.
func callsDeep(c *Ctx, f *ssa.Function, depth int) []ssa.CallInstruction {
	var out []ssa.CallInstruction
	for _, ci := range calls(f) {
		if sc := ci.Common().StaticCallee(); sc != nil && depth < 3 && (c.freshFunc(sc) || pureDelegate(c, f) == ci) {
			out = append(out, callsDeep(c, sc, depth+1)...)
			continue
		}
		out = append(out, ci)
	}
	return out
}

func staticName(c *Ctx, v ssa.Value) string {
	if call, ok := v.(*ssa.Call); ok {
		return calleeName(c, call)
	}
	return ""
}

// powCalls returns the math.Pow calls in f.
func powCalls(c *Ctx, f *ssa.Function) []*ssa.Call {
	var out []*ssa.Call
	for _, ci := range calls(f) {
		if call, ok := ci.(*ssa.Call); ok && calleeName(c, ci) == "math.Pow" {
			out = append(out, call)
		}
	}
	return out
}

func constFloat(v ssa.Value) (float64, bool) {
	k, ok := v.(*ssa.Const)
	if !ok || k.Value == nil {
		return 0, false
	}
	f, _ := constant.Float64Val(constant.ToFloat(k.Value))
	return f, true
}

// scaleValue returns the SSA value(s) that denote "scale" in f: the Pow result or loads of clipperD.scale.
func scaleValues(c *Ctx, f *ssa.Function) (scale []ssa.Value, inv []ssa.Value) {
	for _, p := range powCalls(c, f) {
		scale = append(scale, p)
	}
	for _, b := range f.Blocks {
		for _, in := range b.Instrs {
			u, ok := in.(*ssa.UnOp)
			if !ok || u.Op != token.MUL {
				continue
			}
			fa, ok := u.X.(*ssa.FieldAddr)
			if !ok || typeName(fa.X.Type()) != "*clipperD" {
				continue
			}
			switch fieldName(fa.X.Type(), fa.Field) {
			case "scale":
				scale = append(scale, u)
			case "invScale":
				inv = append(inv, u)
			}
		}
	}
	for _, b := range f.Blocks {
		for _, in := range b.Instrs {
			if q, ok := in.(*ssa.BinOp); ok && q.Op == token.QUO {
				if k, ok := constFloat(q.X); ok && k == 1 && containsVal(scale, q.Y) {
					inv = append(inv, q)
				}
			}
		}
	}
	// a result of a helper the reference record does not know that is the helper's own scale on every return
	// (`cfg, scale := resolveOptions(...)`) is a scale here
	for _, b := range f.Blocks {
		for _, in := range b.Instrs {
			call, ok := in.(*ssa.Call)
			if !ok {
				continue
			}
			g := call.Call.StaticCallee()
			if g == nil || !c.freshFunc(g) || scaleBusy[g] {
				continue
			}
			if scaleBusy == nil {
				scaleBusy = map[*ssa.Function]bool{}
			}
			scaleBusy[g] = true
			gs, gi := scaleValues(c, g)
			delete(scaleBusy, g)
			nres := g.Signature.Results().Len()
			for ri := 0; ri < nres; ri++ {
				allS, allI, rets := true, true, 0
				for _, gb := range g.Blocks {
					if len(gb.Instrs) == 0 {
						continue
					}
					if r, ok := gb.Instrs[len(gb.Instrs)-1].(*ssa.Return); ok && ri < len(r.Results) {
						rets++
						if !containsVal(gs, r.Results[ri]) {
							allS = false
						}
						if !containsVal(gi, r.Results[ri]) {
							allI = false
						}
					}
				}
				if rets == 0 || (!allS && !allI) {
					continue
				}
				var vals []ssa.Value
				if nres == 1 {
					vals = []ssa.Value{call}
				} else {
					for _, ref := range *call.Referrers() {
						if ex, ok := ref.(*ssa.Extract); ok && ex.Index == ri {
							vals = append(vals, ex)
						}
					}
				}
				if allS {
					scale = append(scale, vals...)
				}
				if allI {
					inv = append(inv, vals...)
				}
			}
		}
	}
	// 1/scale of a scale found above
	for _, b := range f.Blocks {
		for _, in := range b.Instrs {
			if q, ok := in.(*ssa.BinOp); ok && q.Op == token.QUO && !containsVal(inv, q) {
				if k, ok := constFloat(q.X); ok && k == 1 && containsVal(scale, q.Y) {
					inv = append(inv, q)
				}
			}
		}
	}
	// a helper the reference record does not know: a float parameter that receives the scale (1/scale) at EVERY
	// call site is the scale (1/scale) inside the helper
	if c.freshFunc(f) && !scaleBusy[f] {
		if scaleBusy == nil {
			scaleBusy = map[*ssa.Function]bool{}
		}
		scaleBusy[f] = true
		for i, p := range f.Params {
			if !isFloat(p.Type()) {
				continue
			}
			sites, nScale, nInv := 0, 0, 0
			for _, g := range c.srcFuncs() {
				var gs, gi []ssa.Value
				got := false
				for _, ci := range calls(g) {
					if ci.Common().StaticCallee() != f || i >= len(ci.Common().Args) {
						continue
					}
					if !got {
						gs, gi = scaleValues(c, g)
						got = true
					}
					sites++
					if containsVal(gs, ci.Common().Args[i]) {
						nScale++
					}
					if containsVal(gi, ci.Common().Args[i]) {
						nInv++
					}
				}
			}
			if sites > 0 && nScale == sites {
				scale = append(scale, p)
			}
			if sites > 0 && nInv == sites {
				inv = append(inv, p)
			}
		}
		delete(scaleBusy, f)
	}
	return
}

var scaleBusy map[*ssa.Function]bool

func containsVal(vs []ssa.Value, v ssa.Value) bool {
	for _, x := range vs {
		if x == v {
			return true
		}
	}
	return false
}

// precisionLeaves walks phis from the value converted for math.Pow and classifies the leaves.
// leafCtx / leafSubst: precisionLeaves reads a helper the reference record does not know (loop-free, one result)
// through: its parameters stand for the call's arguments.
var leafCtx *Ctx
var leafSubst = map[*ssa.Parameter]ssa.Value{}

func precisionLeaves(v ssa.Value, seen map[ssa.Value]bool, leaves *[]string, variadic *bool) {
	if p, ok := v.(*ssa.Parameter); ok {
		if a, ok := leafSubst[p]; ok {
			precisionLeaves(a, seen, leaves, variadic)
			return
		}
	}
	if seen[v] {
		return
	}
	seen[v] = true
	switch x := v.(type) {
	case *ssa.Call:
		if g := x.Call.StaticCallee(); g != nil && leafCtx != nil && leafCtx.freshFunc(g) && loopFree(g) && g.Signature.Results().Len() == 1 {
			for i, gp := range g.Params {
				if i < len(x.Call.Args) {
					leafSubst[gp] = x.Call.Args[i]
				}
			}
			for _, b := range g.Blocks {
				if len(b.Instrs) == 0 {
					continue
				}
				if r, ok := b.Instrs[len(b.Instrs)-1].(*ssa.Return); ok && len(r.Results) == 1 {
					precisionLeaves(r.Results[0], seen, leaves, variadic)
				}
			}
			for _, gp := range g.Params {
				delete(leafSubst, gp)
			}
			return
		}
		*leaves = append(*leaves, "other:"+v.String())
	case *ssa.Phi:
		for _, e := range x.Edges {
			precisionLeaves(e, seen, leaves, variadic)
		}
	case *ssa.Parameter:
		*leaves = append(*leaves, "param:"+x.Name())
	case *ssa.Const:
		*leaves = append(*leaves, "const:"+x.Value.String())
	case *ssa.UnOp:
		if x.Op == token.MUL {
			switch a := x.X.(type) {
			case *ssa.IndexAddr:
				ax := a.X
				if hp, ok := ax.(*ssa.Parameter); ok {
					if sub, ok := leafSubst[hp]; ok {
						ax = sub
					}
				}
				if p, ok := ax.(*ssa.Parameter); ok {
					if k, ok := a.Index.(*ssa.Const); ok && k.Int64() == 0 {
						*variadic = true
						*leaves = append(*leaves, "variadic:"+p.Name()+"[0]")
						return
					}
				}
			case *ssa.FieldAddr:
				*leaves = append(*leaves, "field:"+fieldName(a.X.Type(), a.Field))
				return
			}
		}
		*leaves = append(*leaves, "other:"+x.String())
	default:
		*leaves = append(*leaves, "other:"+v.String())
	}
}

// rangeChecked: P is validated before pos: a call checkPrecision(P) in a dominating block, or an inline
// `P < -8 || P > 8 -> panic(ErrPrecisionRange)` whose panic block is fed by both comparisons.
func rangeChecked(c *Ctx, f *ssa.Function, P ssa.Value, at *ssa.BasicBlock) (bool, string) {
	for _, ci := range calls(f) {
		if calleeName(c, ci) == "checkPrecision" && ci.Block().Dominates(at) && (ci.Common().Args[0] == P || sameFieldReload(ci.Common().Args[0], P)) {
			return true, "checkPrecision(p) dominates the use"
		}
	}
	if ok := inlineRangePanic(c, f, P); ok {
		return true, "inline range test with panic(ErrPrecisionRange)"
	}
	return false, ""
}

func inlineRangePanic(c *Ctx, f *ssa.Function, P ssa.Value) bool {
	for _, b := range f.Blocks {
		if len(b.Instrs) == 0 {
			continue
		}
		pn, ok := b.Instrs[len(b.Instrs)-1].(*ssa.Panic)
		if !ok || !strings.Contains(renderPanic(pn), "ErrPrecisionRange") {
			continue
		}
		lo, hi := false, false
		for _, p := range b.Preds {
			ifi, ok := p.Instrs[len(p.Instrs)-1].(*ssa.If)
			if !ok || p.Succs[0] != b {
				continue
			}
			collectRange(ifi.Cond, P, &lo, &hi)
			// `a || b` : first comparison's true edge also goes to the panic block from an earlier block
		}
		if lo && hi {
			return true
		}
	}
	return false
}

func collectRange(cond ssa.Value, P ssa.Value, lo, hi *bool) {
	b, ok := cond.(*ssa.BinOp)
	if !ok {
		return
	}
	k, isK := b.Y.(*ssa.Const)
	if b.X != P || !isK || k.Value == nil {
		return
	}
	v, _ := constant.Int64Val(k.Value)
	if b.Op == token.LSS && v == -8 {
		*lo = true
	}
	if b.Op == token.GTR && v == 8 {
		*hi = true
	}
}

func renderPanic(p *ssa.Panic) string {
	v := p.X
	if mi, ok := v.(*ssa.MakeInterface); ok {
		v = mi.X
	}
	if ci, ok := v.(*ssa.ChangeInterface); ok {
		v = ci.X
	}
	if u, ok := v.(*ssa.UnOp); ok {
		if g, ok := u.X.(*ssa.Global); ok {
			return g.Name()
		}
	}
	return v.String()
}

// paramUses returns the "value uses" of a parameter, looking through a spill to an Alloc (address-taken params).
type use struct {
	instr   ssa.Instruction
	val     ssa.Value // the value (param or a load of its spill slot) being used
	viaAddr bool      // the use takes the spill slot's address (method call with pointer receiver)
}

func paramUses(p *ssa.Parameter) []use {
	var out []use
	for _, r := range *p.Referrers() {
		if st, ok := r.(*ssa.Store); ok && st.Val == p {
			if al, ok := st.Addr.(*ssa.Alloc); ok {
				for _, r2 := range *al.Referrers() {
					if r2 == st {
						continue
					}
					if u, ok := r2.(*ssa.UnOp); ok && u.Op == token.MUL {
						for _, r3 := range *u.Referrers() {
							out = append(out, use{r3, u, false})
						}
						continue
					}
					out = append(out, use{r2, al, true})
				}
				continue
			}
		}
		if _, ok := r.(*ssa.DebugRef); ok {
			continue
		}
		out = append(out, use{r, p, false})
	}
	return out
}

func ruleScale(rule string) func(*Ctx) {
	return func(c *Ctx) {
		entries := dEntries(c)
		entrySet := map[string]bool{}
		for _, e := range entries {
			entrySet[c.fname(e)] = true
		}
		c.floor(rule+".entries", len(entries), 22)
		// fresh helpers (code extracted from entry points by the change under analysis) that take or return D geometry
		// carry the entry's obligations: they are analysed as entries, and handing them a D value is not a leak
		for i := 0; i < len(entries); i++ {
			for _, ci := range calls(entries[i]) {
				h := ci.Common().StaticCallee()
				if h == nil || !c.freshFunc(h) || entrySet[c.fname(h)] {
					continue
				}
				hasD := false
				for k := 0; k < h.Signature.Params().Len(); k++ {
					hasD = hasD || isDType(h.Signature.Params().At(k).Type())
				}
				for k := 0; k < h.Signature.Results().Len(); k++ {
					hasD = hasD || isDType(h.Signature.Results().At(k).Type())
				}
				if hasD {
					entries = append(entries, h)
					entrySet[c.fname(h)] = true
				}
			}
		}
		var names []string
		for _, e := range entries {
			names = append(names, c.fname(e))
		}
		c.note("D entry points enumerated by type (%d): %s", len(entries), strings.Join(names, ", "))

		// ---- SCALE.prec
		for _, f := range entries {
			fn := c.fname(f)
			pows := powCalls(c, f)
			if len(pows) == 0 {
				continue
			}
			if len(pows) > 1 {
				c.fail(rule+".prec", fmt.Sprintf("%s.prec:%s:pow", rule, fn), pows[1].Pos(), fn, "more than one math.Pow: ambiguous scale", "one precision, one scale")
				continue
			}
			pw := pows[0]
			base, okb := constFloat(pw.Call.Args[0])
			conv, okc := pw.Call.Args[1].(*ssa.Convert)
			if !okb || base != 10 || !okc {
				c.fail(rule+".prec", fmt.Sprintf("%s.prec:%s:pow", rule, fn), pw.Pos(), fn, "scale is not math.Pow(10, float64(precision)): "+pw.String(), "the scale must be 10^p")
				continue
			}
			P := conv.X
			var leaves []string
			variadic := false
			leafCtx = c
			precisionLeaves(P, map[ssa.Value]bool{}, &leaves, &variadic)
			sort.Strings(leaves)
			bad := ""
			nParam, nConst, nOther := 0, 0, 0
			for _, l := range leaves {
				switch {
				case strings.HasPrefix(l, "param:") || strings.HasPrefix(l, "variadic:") || strings.HasPrefix(l, "field:"):
					nParam++
				case strings.HasPrefix(l, "const:"):
					nConst++
					if l != "const:2" {
						bad = "default precision is " + l[6:] + ", the documented default is 2"
					}
				default:
					nOther++
				}
			}
			if nOther > 0 {
				bad = "precision reaching 10^p is computed, not the caller's value: " + strings.Join(leaves, ", ")
			} else if nConst > 0 && !variadic {
				bad = "the caller's precision is replaced by a constant on some path (" + strings.Join(leaves, ", ") + "): only an ABSENT optional precision may default"
			} else if nParam == 0 {
				bad = "precision does not come from the caller: " + strings.Join(leaves, ", ")
			}
			c.check(bad == "", rule+".prec", fmt.Sprintf("%s.prec:%s:value", rule, fn), pw.Pos(), fn,
				"10^p uses the caller's precision unmodified ("+strings.Join(leaves, ", ")+")", bad,
				"a rewritten precision quantises on another grid than the 64-bit counterpart would (UnionPathsD(..., 0) kept two decimals)")
			ok, how := rangeChecked(c, f, P, pw.Block())
			c.check(ok, rule+".prec", fmt.Sprintf("%s.prec:%s:range", rule, fn), pw.Pos(), fn,
				"precision range [-8,8] enforced before 10^p: "+how, "no range check of the precision dominates math.Pow(10, p): a precision outside [-8,8] is silently accepted",
				"the property demands the documented ErrPrecisionRange panic and nothing else for p outside [-8,8]")
		}
		// checkPrecision itself
		cp := c.fn("checkPrecision")
		c.check(inlineRangePanic(c, cp, cp.Params[0]), rule+".prec", rule+".prec:checkPrecision:body", cp.Pos(), "checkPrecision",
			"panics with ErrPrecisionRange exactly when p < -8 || p > 8", "checkPrecision no longer tests p < -8 || p > 8 -> panic(ErrPrecisionRange)", "all D entry points delegate the range check to it")
		// a precision read from the option struct is read AFTER the options were applied: no call through a function
		// value that receives the struct is reachable from the load that feeds 10^p
		for _, f := range c.srcFuncs() {
			for _, pw := range powCalls(c, f) {
				if len(pw.Call.Args) != 2 {
					continue
				}
				var ld *ssa.UnOp
				v := pw.Call.Args[1]
				for k := 0; k < 4 && ld == nil; k++ {
					switch x := v.(type) {
					case *ssa.Convert:
						v = x.X
					case *ssa.UnOp:
						if fa, ok := x.X.(*ssa.FieldAddr); ok && x.Op == token.MUL && typeName(fa.X.Type()) == "*inflateConfig" && fieldName(fa.X.Type(), fa.Field) == "precision" {
							ld = x
						}
						k = 4
					default:
						k = 4
					}
				}
				appliesOptions := false // f hands the option struct to option functions (calls through function values)
				for _, ci := range calls(f) {
					if ci.Common().StaticCallee() != nil || ci.Common().IsInvoke() {
						continue
					}
					if _, isBuiltin := ci.Common().Value.(*ssa.Builtin); isBuiltin {
						continue
					}
					for _, a := range ci.Common().Args {
						if typeName(a.Type()) == "*inflateConfig" {
							appliesOptions = true
						}
					}
				}
				if ld == nil {
					if appliesOptions {
						c.fail(rule+".prec", fmt.Sprintf("%s.prec:%s:after-options", rule, c.fname(f)), pw.Pos(), c.fname(f),
							"10^p is computed from "+exprOf(pw.Call.Args[1])+" in a function that applies the caller's options to the option struct, not from the struct's precision afterwards: WithPrecision(p) is range-checked but the paths are scaled with the default",
							"the D result must be the 64-bit result on input quantised with THIS call's precision")
					}
					continue
				}
				bad := ""
				// forward reachability from the load
				seen := map[*ssa.BasicBlock]bool{}
				type pos struct {
					b *ssa.BasicBlock
					i int
				}
				work := []pos{{ld.Block(), instrIndex(ld) + 1}}
				for len(work) > 0 && bad == "" {
					p := work[len(work)-1]
					work = work[:len(work)-1]
					for j := p.i; j < len(p.b.Instrs); j++ {
						ci, ok := p.b.Instrs[j].(ssa.CallInstruction)
						if !ok || ci.Common().StaticCallee() != nil || ci.Common().IsInvoke() {
							continue
						}
						if _, isBuiltin := ci.Common().Value.(*ssa.Builtin); isBuiltin {
							continue
						}
						for _, a := range ci.Common().Args {
							if typeName(a.Type()) == "*inflateConfig" {
								bad = "the precision that feeds 10^p is read at " + c.pos(ld.Pos()) + " BEFORE the options are applied (" + c.pos(ci.Pos()) + "): WithPrecision(p) is range-checked but the paths are scaled with the default"
							}
						}
					}
					for _, sb := range p.b.Succs {
						if !seen[sb] {
							seen[sb] = true
							work = append(work, pos{sb, 0})
						}
					}
				}
				c.check(bad == "", rule+".prec", fmt.Sprintf("%s.prec:%s:after-options", rule, c.fname(f)), pw.Pos(), c.fname(f),
					"the option struct's precision is read after every option has been applied", bad,
					"the D result must be the 64-bit result on input quantised with THIS call's precision")
			}
		}
		// field-configured precision (InflatePathsD): the default stored in the config literal must be 2
		for _, f := range entries {
			for _, b := range f.Blocks {
				for _, in := range b.Instrs {
					st, ok := in.(*ssa.Store)
					if !ok {
						continue
					}
					fa, ok := st.Addr.(*ssa.FieldAddr)
					if !ok || typeName(fa.X.Type()) != "*inflateConfig" || fieldName(fa.X.Type(), fa.Field) != "precision" {
						continue
					}
					k, isK := st.Val.(*ssa.Const)
					c.check(isK && k.Int64() == 2, rule+".prec", fmt.Sprintf("%s.prec:%s:default", rule, c.fname(f)), st.Pos(), c.fname(f),
						"default precision in the option struct is 2", "default precision in the option struct is not the constant 2", "documented default")
				}
			}
		}

		// ---- SCALE.in
		for _, f := range entries {
			fn := c.fname(f)
			scales, _ := scaleValues(c, f)
			for _, p := range f.Params {
				tn := typeName(p.Type())
				if tn != "PathD" && tn != "PathsD" && tn != "RectD" {
					continue
				}
				bad := ""
				nUses := 0
				for _, u := range paramUses(p) {
					nUses++
					if b := classifyDUse(c, f, u, scales, entrySet); b != "" && bad == "" {
						bad = b
					}
				}
				c.check(bad == "", rule+".in", fmt.Sprintf("%s.in:%s:%s", rule, fn, p.Name()), p.Pos(), fn,
					fmt.Sprintf("%s %s reaches 64-bit code only through the scale-in helpers with this call's scale (%d uses)", tn, p.Name(), nUses), bad,
					"a D input that reaches the integer routine without x10^p-and-round is clipped on another grid than the 64-bit counterpart")
			}
		}
		// scalar parameters of InflatePathsD: explored (helpers the reference record does not know are read inline), so
		// the two calls are found wherever the wrapper's body has been moved; not finding them is a failure
		if f := c.fnOpt("InflatePathsD"); f != nil {
			ex := &explorer{c: c, f: f, canon: canonParams(f, "paths", "delta", "joinType", "endType", "opts"), maxPaths: 2000,
				atomFn: func(x string) (absVal, bool) {
					if strings.HasPrefix(x, "(rangeindex") || strings.Contains(x, "< len(opts)") {
						return boolVal(false), true // no options given
					}
					return absVal{}, false
				}}
			outs := ex.explore(nil)
			// a scale is 10^p written out, or the result of a helper that SCALE found to be that helper's own scale
			type scaleRes struct {
				fn  string
				idx int
			}
			var helperScales []scaleRes
			fsc, _ := scaleValues(c, f)
			for _, sv := range fsc {
				if exv, ok := sv.(*ssa.Extract); ok {
					if call, ok := exv.Tuple.(*ssa.Call); ok && call.Call.StaticCallee() != nil {
						helperScales = append(helperScales, scaleRes{c.fname(call.Call.StaticCallee()), exv.Index})
					}
				} else if call, ok := sv.(*ssa.Call); ok && call.Call.StaticCallee() != nil && c.freshFunc(call.Call.StaticCallee()) {
					helperScales = append(helperScales, scaleRes{c.fname(call.Call.StaticCallee()), -1})
				}
			}
			isScale := func(e string) bool {
				if strings.Contains(e, "math.Pow(10") {
					return true
				}
				for _, hs := range helperScales {
					if strings.HasPrefix(e, hs.fn+"(") && (hs.idx < 0 || strings.HasSuffix(e, fmt.Sprintf(")#%d", hs.idx))) {
						return true
					}
				}
				return false
			}
			prod := func(e, operand string) bool { // e is operand*scale or scale*operand
				e = strings.TrimSuffix(strings.TrimPrefix(e, "("), ")")
				for _, sep := range []string{" * "} {
					if k := strings.Index(e, sep); k > 0 {
						a, b := e[:k], e[k+len(sep):]
						if (strings.HasSuffix(a, operand) && isScale(b)) || (strings.HasSuffix(b, operand) && isScale(a)) {
							return true
						}
					}
				}
				return false
			}
			var dArg, atArg, mlArg string
			var pos token.Pos
			for _, p := range outs {
				if p.end != "return" {
					continue
				}
				for _, cl := range p.calls {
					switch cl.callee {
					case "(ClipperOffset).Execute64":
						dArg = roleArg(cl, "delta", 1).v()
					case "NewClipperOffset":
						atArg = roleArg(cl, "arcTolerance", 1).v()
						mlArg = roleArg(cl, "miterLimit", 0).expr
						if cl.instr != nil {
							pos = cl.instr.Pos()
						}
					}
				}
			}
			c.check(prod(dArg, "delta"), rule+".in", rule+".in:InflatePathsD:delta", pos, "InflatePathsD", "delta is passed as delta*scale", "the offset distance handed to the integer offsetter is not delta*scale: "+dArg,
				"delta is a length: it must be multiplied by 10^p like the coordinates")
			c.check(prod(atArg, "arcTolerance"), rule+".in", rule+".in:InflatePathsD:arcTolerance", pos, "InflatePathsD", "arc tolerance is passed as scale*arcTolerance", "arc tolerance handed to the integer offsetter is not scale*arcTolerance: "+atArg,
				"arc tolerance is a length: it must be multiplied by 10^p")
			c.check(strings.HasSuffix(mlArg, "miterLimit"), rule+".in", rule+".in:InflatePathsD:miterLimit", pos, "InflatePathsD", "miter limit is passed unscaled (it is a ratio)", "miter limit is not passed through unchanged: "+mlArg,
				"the miter limit is a ratio, not a length")
		}

		// ---- SCALE.out
		for _, f := range entries {
			fn := c.fname(f)
			_, invs := scaleValues(c, f)
			n := 0
			for _, b := range f.Blocks {
				for _, in := range b.Instrs {
					switch x := in.(type) {
					case *ssa.Return:
						for ri, r := range x.Results {
							tn := typeName(r.Type())
							if tn != "PathD" && tn != "PathsD" {
								continue
							}
							n++
							badr := classifyDResult(c, f, r, invs, entrySet, map[ssa.Value]bool{})
							c.check(badr == "", rule+".out", fmt.Sprintf("%s.out:%s:return#%d.%d", rule, fn, retOrdinal(f, x), ri), x.Pos(), fn,
								"returned D value is the 64-bit result scaled by 1/scale (or an empty/delegated result)", badr,
								"the D result must be the 64-bit result divided by 10^p (RectClipPathsD returned coordinates x10^p)")
						}
					case *ssa.Store:
						// stores through a *PathsD out-parameter
						if base, ok := x.Addr.(*ssa.Parameter); ok && typeName(base.Type()) == "*PathsD" {
							n++
							badr := classifyOutStore(c, f, x, base, invs)
							c.check(badr == "", rule+".out", fmt.Sprintf("%s.out:%s:store:%s#%d", rule, fn, base.Name(), storeOrdinal(f, x)), x.Pos(), fn,
								"value stored into the D solution argument is a truncation or an append of ScalePath64ToPathD(path, invScale)", badr,
								"every path written to the caller's D solution must be divided by 10^p")
						}
					}
				}
			}
		}
		// NewClipperD: fields scale / invScale
		if f := c.fnOpt("NewClipperD"); f != nil {
			scales, _ := scaleValues(c, f)
			var sawScale, sawInv bool
			for _, b := range f.Blocks {
				for _, in := range b.Instrs {
					st, ok := in.(*ssa.Store)
					if !ok {
						continue
					}
					fa, ok := st.Addr.(*ssa.FieldAddr)
					if !ok || typeName(fa.X.Type()) != "*clipperD" {
						continue
					}
					switch fieldName(fa.X.Type(), fa.Field) {
					case "scale":
						sawScale = containsVal(scales, st.Val)
					case "invScale":
						q, ok := st.Val.(*ssa.BinOp)
						if ok && q.Op == token.QUO {
							k, isK := constFloat(q.X)
							sawInv = isK && k == 1 && containsVal(scales, q.Y)
						}
					}
				}
			}
			c.check(sawScale && sawInv, rule+".out", rule+".out:NewClipperD:fields", f.Pos(), "NewClipperD", "clipperD.scale = 10^p and clipperD.invScale = 1/scale",
				"clipperD.scale / invScale are not initialised as 10^p and its reciprocal", "every clipperD method scales in by c.scale and out by c.invScale")
			// nobody else writes them
			for _, g := range c.srcFuncs() {
				if g == f {
					continue
				}
				for _, b := range g.Blocks {
					for _, in := range b.Instrs {
						if st, ok := in.(*ssa.Store); ok {
							if fa, ok := st.Addr.(*ssa.FieldAddr); ok && typeName(fa.X.Type()) == "*clipperD" {
								fnm := fieldName(fa.X.Type(), fa.Field)
								if fnm == "scale" || fnm == "invScale" {
									c.fail(rule+".out", fmt.Sprintf("%s.out:%s:writes-%s", rule, c.fname(g), fnm), st.Pos(), c.fname(g), "clipperD."+fnm+" is reassigned outside the constructor", "scale and invScale must stay reciprocal for the engine's lifetime")
								}
							}
						}
					}
				}
			}
		}
		// PolyTreeD polygons: some accessor must hand out unscaled (PathD) polygons
		{
			found := false
			for _, f := range c.srcFuncs() {
				if r := f.Signature.Recv(); r == nil {
					continue
				} else if tn := typeName(r.Type()); tn != "*PolyPathBase" && tn != "*PolyPathD" && tn != "*PolyTreeD" {
					continue
				}
				res := f.Signature.Results()
				if res.Len() == 1 && typeName(res.At(0).Type()) == "PathD" {
					for _, ci := range calls(f) {
						if scaleOutFns[calleeName(c, ci)] {
							found = true
						}
					}
				}
			}
			f := c.fn("(clipperD).ExecutePolyTreeD")
			c.check(found, rule+".out", rule+".out:(clipperD).ExecutePolyTreeD:tree-polygons", f.Pos(), "(clipperD).ExecutePolyTreeD",
				"tree polygons are available divided by 10^p through a PathD accessor",
				"the polygons stored in a PolyTreeD are the scaled INTEGER paths: no method of PolyPathBase/PolyPathD/PolyTreeD returns a PathD built with ScalePath64ToPathD, and the tree stores `scale`, not its reciprocal",
				"BooleanOpPolyTreeD's polygons must equal the 64-bit tree's polygons divided by 10^p")
		}

		// ---- SCALE.round: the scale-in helpers quantise with a rounding operation
		ruleScaleRound(c, rule+".round")
		// ---- SCALE.same: call skeleton equals the 64-bit sibling's
		ruleScaleSame(c, rule+".same")
	}
}

func isParamNamed(v ssa.Value, name string) bool {
	p, ok := v.(*ssa.Parameter)
	return ok && p.Name() == name
}

func isFieldLoad(v ssa.Value, field string) bool {
	u, ok := v.(*ssa.UnOp)
	if !ok || u.Op != token.MUL {
		return false
	}
	fa, ok := u.X.(*ssa.FieldAddr)
	return ok && fieldName(fa.X.Type(), fa.Field) == field
}

func retOrdinal(f *ssa.Function, r *ssa.Return) int {
	n := 0
	var rs []*ssa.Return
	for _, b := range f.Blocks {
		for _, in := range b.Instrs {
			if x, ok := in.(*ssa.Return); ok {
				rs = append(rs, x)
			}
		}
	}
	sort.Slice(rs, func(i, j int) bool { return rs[i].Pos() < rs[j].Pos() })
	for i, x := range rs {
		if x == r {
			n = i + 1
		}
	}
	return n
}

func storeOrdinal(f *ssa.Function, s *ssa.Store) int {
	var ss []*ssa.Store
	for _, b := range f.Blocks {
		for _, in := range b.Instrs {
			if x, ok := in.(*ssa.Store); ok && x.Addr == s.Addr {
				ss = append(ss, x)
			}
		}
	}
	sort.Slice(ss, func(i, j int) bool { return ss[i].Pos() < ss[j].Pos() })
	for i, x := range ss {
		if x == s {
			return i + 1
		}
	}
	return 0
}

// classifyDUse returns "" when the use of a D input is admissible.
func classifyDUse(c *Ctx, f *ssa.Function, u use, scales []ssa.Value, entries map[string]bool) string {
	switch in := u.instr.(type) {
	case *ssa.DebugRef:
		return ""
	case ssa.CallInstruction:
		com := in.Common()
		name := calleeName(c, in)
		if u.viaAddr {
			// method with pointer receiver on the spilled parameter
			if strings.HasSuffix(name, ".IsEmpty") {
				return ""
			}
			return "address of the D input is passed to " + name
		}
		switch {
		case name == "builtin.len":
			return ""
		case scaleInFns[name]:
			if len(com.Args) == 2 && com.Args[0] == u.val {
				if containsVal(scales, com.Args[1]) {
					return ""
				}
				return fmt.Sprintf("%s is called with a scale that is not this call's 10^p: %s", name, com.Args[1])
			}
			return "unexpected argument position in " + name
		case entries[name]:
			return "" // delegation to another D entry point (checked on its own)
		case name == "":
			// dynamic call: only a caller-supplied scale function may receive raw D data
			if p, ok := com.Value.(*ssa.Parameter); ok {
				if _, isFn := p.Type().Underlying().(*types.Signature); isFn {
					return ""
				}
			}
			return "D input passed to a dynamic call"
		case strings.HasSuffix(name, ".IsEmpty"):
			return ""
		}
		return "D input is passed to " + name + " without quantisation"
	case *ssa.BinOp:
		if k, ok := in.Y.(*ssa.Const); ok && k.IsNil() {
			return ""
		}
		if k, ok := in.X.(*ssa.Const); ok && k.IsNil() {
			return ""
		}
	case *ssa.Store:
		// PathsD{path}: stored into a fresh array whose slice is only delegated
		if ia, ok := in.Addr.(*ssa.IndexAddr); ok {
			if al, ok := ia.X.(*ssa.Alloc); ok {
				for _, r := range *al.Referrers() {
					if sl, ok := r.(*ssa.Slice); ok {
						for _, r2 := range *sl.Referrers() {
							if ci, ok := r2.(ssa.CallInstruction); ok && entries[calleeName(c, ci)] {
								continue
							}
							if _, ok := r2.(*ssa.DebugRef); ok {
								continue
							}
							return "composite built from the D input flows to " + r2.String()
						}
					}
				}
				return ""
			}
		}
		return "D input is stored: " + in.String()
	case *ssa.Field, *ssa.FieldAddr:
		return "a coordinate of the D input is read directly: " + in.String()
	}
	return "D input used by " + u.instr.String()
}

// classifyDResult returns "" when a returned D value is admissible.
func classifyDResult(c *Ctx, f *ssa.Function, r ssa.Value, invs []ssa.Value, entries map[string]bool, seen map[ssa.Value]bool) string {
	if seen[r] {
		return ""
	}
	seen[r] = true
	switch x := r.(type) {
	case *ssa.Call:
		name := calleeName(c, x)
		if scaleOutFns[name] {
			if containsVal(invs, x.Call.Args[1]) {
				return ""
			}
			return fmt.Sprintf("%s is called with %s, which is not 1/scale of this call", name, describeOperand(x.Call.Args[1]))
		}
		if entries[name] {
			return ""
		}
		return "result comes from " + name + ", not from a scale-out helper"
	case *ssa.Phi:
		for _, e := range x.Edges {
			if b := classifyDResult(c, f, e, invs, entries, seen); b != "" {
				return b
			}
		}
		return ""
	case *ssa.Const:
		return ""
	case *ssa.Slice:
		if al, ok := x.X.(*ssa.Alloc); ok {
			if arr, ok := al.Type().Underlying().(*types.Pointer).Elem().Underlying().(*types.Array); ok && arr.Len() == 0 {
				return "" // PathsD{}
			}
		}
	case *ssa.MakeSlice:
		if k, ok := x.Len.(*ssa.Const); ok && k.Int64() == 0 {
			return ""
		}
	case *ssa.UnOp:
		// load of a local that was handed (by address) only to D entry points as their solution argument
		if al, ok := x.X.(*ssa.Alloc); ok && x.Op == token.MUL {
			for _, rr := range *al.Referrers() {
				switch y := rr.(type) {
				case *ssa.Store:
					if b := classifyDResult(c, f, y.Val, invs, entries, seen); b != "" {
						return b
					}
				case ssa.CallInstruction:
					if !entries[calleeName(c, y)] {
						return "solution local is passed to " + calleeName(c, y)
					}
				case *ssa.UnOp, *ssa.DebugRef:
				default:
					return "solution local used by " + rr.String()
				}
			}
			return ""
		}
	}
	return "returned D value has an unrecognised origin: " + r.String()
}

func describeOperand(v ssa.Value) string {
	if u, ok := v.(*ssa.UnOp); ok {
		if fa, ok := u.X.(*ssa.FieldAddr); ok {
			return "field " + fieldName(fa.X.Type(), fa.Field)
		}
	}
	if c, ok := v.(*ssa.Call); ok {
		return "the result of " + c.Call.String()
	}
	return v.String()
}

func classifyOutStore(c *Ctx, f *ssa.Function, st *ssa.Store, base *ssa.Parameter, invs []ssa.Value) string {
	switch v := st.Val.(type) {
	case *ssa.Slice:
		// (*p)[:0]
		if u, ok := v.X.(*ssa.UnOp); ok && u.X == base {
			if k, ok := v.High.(*ssa.Const); ok && k.Int64() == 0 {
				return ""
			}
		}
	case *ssa.Call:
		if b, ok := v.Call.Value.(*ssa.Builtin); ok && b.Name() == "append" {
			if u, ok := v.Call.Args[0].(*ssa.UnOp); !ok || u.X != base {
				return "append does not extend the argument itself"
			}
			// appended element(s): a slice built from one value
			elems := appendedValues(v.Call.Args[1])
			if len(elems) == 0 {
				return "cannot identify the appended element"
			}
			for _, e := range elems {
				call, ok := e.(*ssa.Call)
				if !ok {
					return "appended element is not a scale-out call: " + e.String()
				}
				name := calleeName(c, call)
				if scaleOutFns[name] {
					if !containsVal(invs, call.Call.Args[1]) {
						return fmt.Sprintf("%s is called with %s instead of the engine's 1/scale", name, describeOperand(call.Call.Args[1]))
					}
					continue
				}
				if name == "" {
					if p, ok := call.Call.Value.(*ssa.Parameter); ok {
						if _, isFn := p.Type().Underlying().(*types.Signature); isFn && len(call.Call.Args) == 2 && containsVal(invs, call.Call.Args[1]) {
							if b := scaleFnParamOK(c, p); b != "" {
								return b
							}
							continue // caller-supplied scale function, given 1/scale
						}
						if len(call.Call.Args) == 2 {
							return fmt.Sprintf("the scale-out routine %s is called with %s, which is not the engine's 1/scale at every call site of %s", p.Name(), describeOperand(call.Call.Args[1]), c.fname(f))
						}
					}
				}
				return "appended element comes from " + name
			}
			return ""
		}
	case *ssa.MakeSlice:
		if k, ok := v.Len.(*ssa.Const); ok && k.Int64() == 0 {
			return ""
		}
	}
	return "unrecognised value stored into the solution argument: " + st.Val.String()
}

// appendedValues: for append(s, x) SSA builds new [1]T; store x; slice. Return the stored values.
func appendedValues(v ssa.Value) []ssa.Value {
	sl, ok := v.(*ssa.Slice)
	if !ok {
		return nil
	}
	al, ok := sl.X.(*ssa.Alloc)
	if !ok {
		return nil
	}
	var out []ssa.Value
	for _, r := range *al.Referrers() {
		if ia, ok := r.(*ssa.IndexAddr); ok {
			for _, r2 := range *ia.Referrers() {
				if st, ok := r2.(*ssa.Store); ok {
					out = append(out, st.Val)
				}
			}
		}
	}
	return out
}

// ruleScaleRound: inside ScalePathDToPath64 every int64 coordinate is produced by decimal rounding of coord*scale;
// ScaleRectD takes its four bounds from ScalePathDToPath64 of its own corners.
func ruleScaleRound(c *Ctx, rule string) {
	f := c.fn("ScalePathDToPath64")
	scaleP := f.Params[1]
	n := 0
	for _, b := range f.Blocks {
		for _, in := range b.Instrs {
			st, ok := in.(*ssa.Store)
			if !ok {
				continue
			}
			fa, ok := st.Addr.(*ssa.FieldAddr)
			if !ok || typeName(fa.X.Type()) != "*Point64" {
				continue
			}
			axis := fieldName(fa.X.Type(), fa.Field)
			n++
			bad := roundedCoord(c, st.Val, axis, scaleP)
			c.check(bad == "", rule, fmt.Sprintf("%s:ScalePathDToPath64:%s", rule, axis), st.Pos(), "ScalePathDToPath64",
				"Point64."+axis+" = round-to-integer(pt."+axis+" * scale) via decimal.Int64(0)", bad,
				"quantisation must ROUND coord*10^p to the nearest integer, and X must come from X")
		}
	}
	if n != 2 {
		// struct literal stored as a whole value
		c.floor(rule, n, 2)
	}
	// ScaleRectD
	g := c.fn("ScaleRectD")
	want := map[string][2]string{"left": {"0", "X"}, "top": {"0", "Y"}, "right": {"1", "X"}, "bottom": {"1", "Y"}}
	srcWant := map[string]string{"0.X": "left", "0.Y": "top", "1.X": "right", "1.Y": "bottom"}
	ex := &explorer{c: c, f: g}
	outs := ex.explore(nil)
	bad := ""
	if len(outs) != 1 {
		bad = "ScaleRectD is no longer straight-line"
	} else {
		var q *callRec
		for i := range outs[0].calls {
			if outs[0].calls[i].callee == "ScalePathDToPath64" {
				q = &outs[0].calls[i]
			}
		}
		if q == nil {
			bad = "rectangle bounds are not quantised by ScalePathDToPath64 (the path quantiser)"
		} else {
			if q.args[1].expr != g.Params[1].Name() {
				bad = "quantiser is called with " + q.args[1].expr + " instead of the scale argument"
			}
			// corner construction: stores into the temporary PathD
			for _, s := range outs[0].stores {
				for k, fld := range srcWant {
					parts := strings.Split(k, ".")
					if strings.HasSuffix(s.addr, "["+parts[0]+"]."+parts[1]) && !strings.HasSuffix(s.val.expr, "."+fld) {
						bad = fmt.Sprintf("corner %s is built from %s, want rec.%s", k, s.val.expr, fld)
					}
				}
			}
			// result fields
			if len(outs[0].ret) == 1 {
				// returned struct literal is materialised through stores to a local
			}
			for _, s := range outs[0].stores {
				for fld, w := range want {
					if strings.HasSuffix(s.addr, "."+fld) && !strings.Contains(s.addr, "[") {
						if !strings.HasSuffix(s.val.expr, "["+w[0]+"]."+w[1]) {
							bad = fmt.Sprintf("Rect64.%s is taken from %s, want corner[%s].%s", fld, s.val.expr, w[0], w[1])
						}
					}
				}
			}
		}
	}
	c.check(bad == "", rule, rule+":ScaleRectD:corners", g.Pos(), "ScaleRectD",
		"left/top and right/bottom are quantised as the two corner points by the path quantiser (same rounding, ties included)", bad,
		"rectangle bounds must be quantised like path coordinates, otherwise the D clipper clips against another rectangle than the 64-bit counterpart (10.5 at precision 0)")
}

// roundedCoord: v must be Extract#0(decimal.Int64(Extract#0(decimal.NewFromFloat64(pt.<axis> * scale)), 0)).
func roundedCoord(c *Ctx, v ssa.Value, axis string, scaleP *ssa.Parameter) string {
	ex, ok := v.(*ssa.Extract)
	if !ok || ex.Index != 0 {
		return "coordinate is not the integer part returned by decimal.Int64: " + v.String()
	}
	call, ok := ex.Tuple.(*ssa.Call)
	if !ok || !strings.HasSuffix(calleeName(c, call), "Int64") {
		if call != nil && (calleeName(c, call) == "math.Round" || calleeName(c, call) == "math.RoundToEven") {
			return ""
		}
		return "coordinate does not come from a rounding conversion"
	}
	args := call.Call.Args
	if k, ok := args[len(args)-1].(*ssa.Const); !ok || k.Int64() != 0 {
		return "decimal.Int64 is not asked for 0 decimals"
	}
	ex2, ok := args[0].(*ssa.Extract)
	if !ok {
		return "decimal value has an unrecognised origin"
	}
	nf, ok := ex2.Tuple.(*ssa.Call)
	if !ok || !strings.HasSuffix(calleeName(c, nf), "NewFromFloat64") {
		return "decimal value is not decimal.NewFromFloat64(coord*scale)"
	}
	m, ok := nf.Call.Args[0].(*ssa.BinOp)
	if !ok || m.Op != token.MUL {
		return "quantised value is not coord*scale"
	}
	coord, sc := m.X, m.Y
	if sc != ssa.Value(scaleP) {
		coord, sc = m.Y, m.X
	}
	if sc != ssa.Value(scaleP) {
		return "coordinate is not multiplied by the scale argument"
	}
	fld, ok := coord.(*ssa.Field)
	if ok {
		if fieldName(fld.X.Type(), fld.Field) != axis {
			return "Point64." + axis + " is computed from the other axis"
		}
		return ""
	}
	if u, ok := coord.(*ssa.UnOp); ok {
		if fa, ok := u.X.(*ssa.FieldAddr); ok {
			if fieldName(fa.X.Type(), fa.Field) != axis {
				return "Point64." + axis + " is computed from the other axis"
			}
			return ""
		}
	}
	return "coordinate operand not recognised: " + coord.String()
}

// ruleScaleSame: after removing scaling/validation calls the D wrapper calls what its 64-bit sibling calls.
func ruleScaleSame(c *Ctx, rule string) {
	pairs := [][2]string{
		{"MinkowskiSumD", "MinkowskiSum64"}, {"MinkowskiDiffD", "MinkowskiDiff64"},
		{"RectClipPathsD", "RectClipPaths64"}, {"RectClipPathD", "RectClipPath64"},
		{"RectClipLinesPathsD", "RectClipLinesPaths64"}, {"RectClipLinesPathD", "RectClipLinesPath64"},
		{"InflatePathsD", "InflatePaths64"}, {"BooleanOpPathsD", "BooleanOpPaths64"}, {"BooleanOpPolyTreeD", "BooleanOpPolyTree64"},
		{"(clipperD).Execute", "(clipper64).Execute"}, {"(clipperD).ExecuteOC", "(clipper64).ExecuteOC"},
		{"(clipperD).ExecutePolyTreeD", "(clipper64).ExecutePolyTree64"}, {"(clipperD).AddPaths", "(clipper64).AddPaths"},
		{"TrimCollinearD", ""},
	}
	for _, p := range pairs {
		d := c.fn(p[0])
		ds := skeleton(c, d)
		var ws []string
		if p[1] == "" {
			ws = []string{"TrimCollinear64(_,_)"}
		} else {
			ws = skeleton(c, c.fn(p[1]))
		}
		// compared as multisets: the order in which nested call expressions are written (f(g(x)) against
		// t := g(x); f(t)) is not what the rule is about
		// clearSolutionOnly() after a routine that itself clears before every return is a repetition: dropped on
		// both sides
		if ex := c.fnOpt("(clipperBase).execute"); ex != nil && allReturnsPrecededBy(c, ex, "(clipperBase).clearSolutionOnly", 0) {
			drop := func(l []string) []string {
				has := false
				for _, x := range l {
					if strings.HasPrefix(x, "(clipperBase).execute(") {
						has = true
					}
				}
				if !has {
					return l
				}
				var o []string
				for _, x := range l {
					if x != "(clipperBase).clearSolutionOnly()" {
						o = append(o, x)
					}
				}
				return o
			}
			ds, ws = drop(ds), drop(ws)
		}
		sd, sw := append([]string(nil), ds...), append([]string(nil), ws...)
		sort.Strings(sd)
		sort.Strings(sw)
		c.check(strings.Join(sd, " ; ") == strings.Join(sw, " ; "), rule, fmt.Sprintf("%s:%s", rule, p[0]), d.Pos(), p[0],
			"calls the same routines with the same constant arguments as "+p[1]+": "+strings.Join(ds, " ; "),
			fmt.Sprintf("D wrapper calls [%s] but its 64-bit counterpart calls [%s]", strings.Join(ds, " ; "), strings.Join(ws, " ; ")),
			"the D entry point must be the 64-bit routine applied to the quantised input: another routine, flag or fill rule gives another result")
	}
}

func skeleton(c *Ctx, f *ssa.Function) []string { return skeletonWith(c, f, nil, 0) }

// skeletonWith: bind gives the constants a delegating caller passes for f's parameters (a fresh helper is expanded
// in place with the constants of its call site).
func skeletonWith(c *Ctx, f *ssa.Function, bind map[*ssa.Parameter]string, depth int) []string {
	var cs []ssa.CallInstruction
	cs = append(cs, calls(f)...)
	sort.SliceStable(cs, func(i, j int) bool { return cs[i].Pos() < cs[j].Pos() })
	var out []string
	for _, ci := range cs {
		if sc := ci.Common().StaticCallee(); sc != nil && depth < 3 && (c.freshFunc(sc) || pureDelegate(c, f) == ci) {
			b2 := map[*ssa.Parameter]string{}
			for i, a := range ci.Common().Args {
				if i >= len(sc.Params) {
					break
				}
				if k, ok := a.(*ssa.Const); ok && !k.IsNil() && k.Value != nil {
					b2[sc.Params[i]] = k.Value.String()
				} else if p, ok := a.(*ssa.Parameter); ok && bind[p] != "" {
					b2[sc.Params[i]] = bind[p]
				}
			}
			out = append(out, skeletonWith(c, sc, b2, depth+1)...)
			continue
		}
		name := calleeName(c, ci)
		if name == "" || strings.HasPrefix(name, "builtin.") || scaleInFns[name] || scaleOutFns[name] || name == "checkPrecision" || name == "math.Pow" ||
			strings.HasSuffix(name, ".SetScale") {
			continue
		}
		// D -> 64 renaming
		name = strings.NewReplacer("(clipperD)", "(clipper64)", "NewClipperD", "NewClipper64", "(RectD)", "(Rect64)", "NewPolyTreeD", "NewPolyTree64",
			"(PolyTreeD)", "(PolyTree64)", "ExecutePolyTreeD", "ExecutePolyTree64", "BooleanOpPathsD", "BooleanOpPaths64", "RectClipPathsD", "RectClipPaths64",
			"RectClipLinesPathsD", "RectClipLinesPaths64").Replace(name)
		var as []string
		args := ci.Common().Args
		if sc := ci.Common().StaticCallee(); sc != nil && sc.Signature.Recv() != nil && len(args) > 0 {
			args = args[1:]
		}
		if name == "NewClipper64" {
			args = nil // the precision argument exists only on the D side
		}
		if sc := ci.Common().StaticCallee(); sc != nil && sc.Signature.Variadic() && len(args) > 0 {
			args = args[:len(args)-1] // optional trailing precision / options
		}
		for _, a := range args {
			if k, ok := a.(*ssa.Const); ok && !k.IsNil() && k.Value != nil {
				as = append(as, k.Value.String())
			} else if p, ok := a.(*ssa.Parameter); ok && bind[p] != "" {
				as = append(as, bind[p])
			} else {
				as = append(as, "_")
			}
		}
		out = append(out, name+"("+strings.Join(as, ",")+")")
	}
	return out
}

// sameFieldReload: a and b are loads of the same field of the same base, in one block, with no store to memory
// and no call that receives the base between them (so they denote the same value).
func sameFieldReload(a, b ssa.Value) bool {
	ua, ok1 := a.(*ssa.UnOp)
	ub, ok2 := b.(*ssa.UnOp)
	if !ok1 || !ok2 || ua.Op != token.MUL || ub.Op != token.MUL {
		return false
	}
	fa, ok1 := ua.X.(*ssa.FieldAddr)
	fb, ok2 := ub.X.(*ssa.FieldAddr)
	if !ok1 || !ok2 || fa.X != fb.X || fa.Field != fb.Field || ua.Block() != ub.Block() {
		return false
	}
	in := false
	for _, ins := range ua.Block().Instrs {
		if ins == ssa.Instruction(ua) || ins == ssa.Instruction(ub) {
			if in {
				return true
			}
			in = true
			continue
		}
		if !in {
			continue
		}
		switch x := ins.(type) {
		case *ssa.Store:
			return false
		case ssa.CallInstruction:
			for _, arg := range x.Common().Args {
				if arg == fa.X {
					return false
				}
			}
			if x.Common().StaticCallee() == nil {
				return false
			}
		}
	}
	return false
}

// scaleFnParamOK: a function-typed parameter used to scale results out. In an entry point it is the caller's own
// choice; in a helper the reference record does not know, every call site must hand it a scale-out routine or the
// enclosing entry point's own function parameter.
func scaleFnParamOK(c *Ctx, p *ssa.Parameter) string {
	f := p.Parent()
	if !c.freshFunc(f) {
		return ""
	}
	idx := -1
	for i, q := range f.Params {
		if q == p {
			idx = i
		}
	}
	for _, g := range c.srcFuncs() {
		for _, ci := range calls(g) {
			if ci.Common().StaticCallee() != f || idx >= len(ci.Common().Args) {
				continue
			}
			switch a := ci.Common().Args[idx].(type) {
			case *ssa.Function:
				if !scaleOutFns[c.fname(a)] {
					return fmt.Sprintf("%s passes %s as the routine that scales results out", c.fname(g), c.fname(a))
				}
			case *ssa.Parameter:
			default:
				return fmt.Sprintf("%s passes %s as the routine that scales results out", c.fname(g), a.String())
			}
		}
	}
	return ""
}
