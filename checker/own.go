package main

import (
	"fmt"
	"go/ast"
	"go/token"
	"go/types"
	"sort"
	"strings"

	"golang.org/x/tools/go/ssa"
)

// OWN — ownership and effects: a whole-package, flow- and context-insensitive, field-insensitive inclusion
// (Andersen-style) points-to analysis over SSA, with explicit root objects for what an API caller hands in:
//   input:<func>.<param>  memory reachable from a slice-typed input parameter of an exported function
//   out:<func>.<param>    memory behind a pointer-typed (out) parameter
//   recv:<Type>           an engine/receiver object owned by the caller
//   user:<func>.<param>   a caller-supplied function value
// Every write effect (Store, append into, copy into, sort of, map update) is then classified by the objects
// its target may denote. No go/pointer is available in x/tools v0.50.0; this is ~400 lines tailored to the
// repository (no reflection, no unsafe, no interfaces besides error — their absence is itself checked).

type objKind int

const (
	kLocal objKind = iota
	kInput
	kOut
	kRecv
	kUser
	kGlobal
	kFunc
)

type absObj struct {
	id        int
	kind      objKind
	name      string
	pos       token.Pos
	fn        *ssa.Function // for kFunc
	collapsed bool          // all fields/levels are one location and it contains itself (caller memory of unknown shape)
	typ       types.Type    // allocated element type for kLocal sites (used to seed receivers)
	paths     map[string]bool
}

// loc is a memory location: an abstract object plus a field path inside it ("" = the object / its elements).
type loc struct {
	obj  int
	path string
}

type oset map[loc]struct{}

func (s oset) addAll(t oset) bool {
	ch := false
	for k := range t {
		if _, ok := s[k]; !ok {
			s[k] = struct{}{}
			ch = true
		}
	}
	return ch
}

type writeEffect struct {
	instr  ssa.Instruction
	fn     *ssa.Function
	target ssa.Value
	what   string
}

type ownAnalysis struct {
	c        *Ctx
	objs     []*absObj
	pt       map[ssa.Value]oset
	contents map[loc]oset
	siteObj  map[ssa.Value]int
	fnObj    map[*ssa.Function]int
	globObj  map[*ssa.Global]int
	rets     map[*ssa.Function]oset
	writes   []writeEffect
	userCall []ssa.Instruction
	unknown  []string
	iterOf   map[ssa.Value]ssa.Value // slices.Backward(x)/All/Values result -> x
	funcs    []*ssa.Function
	changed  bool
}

func hasPointers(t types.Type) bool {
	return hasPtr(t, map[types.Type]bool{})
}

func hasPtr(t types.Type, seen map[types.Type]bool) bool {
	if seen[t] {
		return false
	}
	seen[t] = true
	switch u := t.Underlying().(type) {
	case *types.Basic:
		return u.Kind() == types.UnsafePointer
	case *types.Pointer, *types.Slice, *types.Map, *types.Chan, *types.Signature, *types.Interface:
		return true
	case *types.Struct:
		for i := 0; i < u.NumFields(); i++ {
			if hasPtr(u.Field(i).Type(), seen) {
				return true
			}
		}
	case *types.Array:
		return hasPtr(u.Elem(), seen)
	case *types.Tuple:
		for i := 0; i < u.Len(); i++ {
			if hasPtr(u.At(i).Type(), seen) {
				return true
			}
		}
	}
	return false
}

func (a *ownAnalysis) newObj(kind objKind, name string, pos token.Pos, collapsed bool) int {
	o := &absObj{id: len(a.objs), kind: kind, name: name, pos: pos, collapsed: collapsed, paths: map[string]bool{"": true}}
	a.objs = append(a.objs, o)
	if collapsed {
		l := loc{o.id, ""}
		a.contents[l] = oset{l: {}}
	}
	return o.id
}

func (a *ownAnalysis) ptOf(v ssa.Value) oset {
	switch v := v.(type) {
	case *ssa.Const:
		return nil
	case *ssa.Function:
		return oset{loc{a.funcObj(v), ""}: {}}
	case *ssa.Global:
		id, ok := a.globObj[v]
		if !ok {
			id = a.newObj(kGlobal, "global:"+v.Name(), v.Pos(), false)
			a.globObj[v] = id
		}
		return oset{loc{id, ""}: {}}
	case *ssa.Builtin:
		return nil
	}
	s := a.pt[v]
	if s == nil {
		s = oset{}
		a.pt[v] = s
	}
	return s
}

func (a *ownAnalysis) funcObj(f *ssa.Function) int {
	id, ok := a.fnObj[f]
	if !ok {
		id = a.newObj(kFunc, "func:"+f.String(), f.Pos(), false)
		a.objs[id].fn = f
		a.fnObj[f] = id
	}
	return id
}

func (a *ownAnalysis) include(dst ssa.Value, src oset) {
	if len(src) == 0 {
		return
	}
	// a *T or []T value can only denote cells of type T (no unsafe in this code base — checked by C18.local):
	// drop locations whose cell type is known and different (removes type-confused pollution)
	var want types.Type
	switch u := dst.Type().Underlying().(type) {
	case *types.Pointer:
		want = u.Elem()
	case *types.Slice:
		want = u.Elem()
	}
	d := a.ptOf(dst)
	for l := range src {
		if _, ok := d[l]; ok {
			continue
		}
		if want != nil {
			if lt := a.locType(l); lt != nil && !types.Identical(lt, want) && !cellCompatible(lt, want) {
				continue
			}
		}
		d[l] = struct{}{}
		a.changed = true
	}
}

// cellCompatible: a pointer to T may address a cell of array type [n]T (IndexAddr on arrays) or vice versa.
func cellCompatible(cell, want types.Type) bool {
	if arr, ok := cell.Underlying().(*types.Array); ok && types.Identical(arr.Elem(), want) {
		return true
	}
	if arr, ok := want.Underlying().(*types.Array); ok && types.Identical(arr.Elem(), cell) {
		return true
	}
	return false
}

// locType returns the type of the memory cell(s) at l, or nil if unknown.
func (a *ownAnalysis) locType(l loc) types.Type {
	o := a.objs[l.obj]
	if o.collapsed || o.typ == nil {
		return nil
	}
	t := o.typ
	if l.path == "" {
		return t
	}
	for _, f := range strings.Split(l.path[1:], ".") {
		st, ok := t.Underlying().(*types.Struct)
		if !ok {
			return nil
		}
		found := false
		for i := 0; i < st.NumFields(); i++ {
			if fieldAliasName(st.Field(i)) == f {
				t = st.Field(i).Type()
				found = true
				break
			}
		}
		if !found {
			return nil
		}
	}
	return t
}

// fieldOf maps every location in s to its sub-location for field f.
func (a *ownAnalysis) fieldOf(s oset, f string) oset {
	r := oset{}
	for l := range s {
		o := a.objs[l.obj]
		if o.collapsed {
			r[l] = struct{}{}
			continue
		}
		nl := loc{l.obj, l.path + "." + f}
		if !o.paths[nl.path] {
			o.paths[nl.path] = true
		}
		r[nl] = struct{}{}
	}
	return r
}

// contentsOf: what pointers stored at the locations in s may point to. A whole-struct store at a prefix path
// and field stores at extension paths are both visible (struct copies).
func (a *ownAnalysis) contentsOf(s oset) oset {
	r := oset{}
	for l := range s {
		o := a.objs[l.obj]
		if o.collapsed {
			r.addAll(a.contents[loc{l.obj, ""}])
			continue
		}
		for p := range o.paths {
			if p == l.path || strings.HasPrefix(p, l.path+".") || strings.HasPrefix(l.path, p+".") {
				r.addAll(a.contents[loc{l.obj, p}])
			}
		}
	}
	return r
}

func (a *ownAnalysis) addContents(targets oset, vals oset) {
	if len(vals) == 0 {
		return
	}
	for l := range targets {
		if a.objs[l.obj].collapsed {
			l = loc{l.obj, ""}
		}
		c := a.contents[l]
		if c == nil {
			c = oset{}
			a.contents[l] = c
		}
		if c.addAll(vals) {
			a.changed = true
		}
	}
}

func (a *ownAnalysis) site(v ssa.Value, what string, t types.Type) int {
	id, ok := a.siteObj[v]
	if !ok {
		fn := ""
		if in, ok := v.(ssa.Instruction); ok && in.Parent() != nil {
			fn = a.c.fname(in.Parent())
		}
		id = a.newObj(kLocal, fmt.Sprintf("local:%s@%s(%s)", what, fn, a.c.pos(v.Pos())), v.Pos(), false)
		a.objs[id].typ = t
		a.siteObj[v] = id
	}
	return id
}

var pureExternalPkgs = map[string]bool{"math": true, "math/bits": true, "fmt": true, "errors": true, "strconv": true,
	"github.com/govalues/decimal": true, "strings": true}

// seedSliceRoot models caller memory behind a (pointer to a) slice (of slices) level by level.
func (a *ownAnalysis) seedRoot(kind objKind, name string, p *ssa.Parameter) {
	t := p.Type()
	cur := a.ptOf(p)
	level := 0
	for {
		var elem types.Type
		switch u := t.Underlying().(type) {
		case *types.Pointer:
			elem = u.Elem()
		case *types.Slice:
			elem = u.Elem()
		default:
			elem = nil
		}
		if elem == nil {
			return
		}
		switch elem.Underlying().(type) {
		case *types.Slice:
		case *types.Pointer, *types.Struct, *types.Map, *types.Interface, *types.Signature, *types.Chan, *types.Array:
			if _, isSlice := t.Underlying().(*types.Slice); !isSlice || hasPointers(elem) {
				if hasPointers(elem) || !isSliceOrPtrToSlice(t) {
					// unknown shape: one collapsed object for everything reachable
					id := a.newObj(kind, fmt.Sprintf("%s[level%d+]", name, level), p.Pos(), true)
					cur[loc{id, ""}] = struct{}{}
					return
				}
			}
		}
		id := a.newObj(kind, fmt.Sprintf("%s[level%d]", name, level), p.Pos(), false)
		a.objs[id].typ = elem
		l := loc{id, ""}
		cur[l] = struct{}{}
		if !hasPointers(elem) {
			return
		}
		next := oset{}
		a.contents[l] = next
		cur = next
		t = elem
		level++
	}
}

func isSliceOrPtrToSlice(t types.Type) bool {
	switch u := t.Underlying().(type) {
	case *types.Slice:
		return true
	case *types.Pointer:
		_, ok := u.Elem().Underlying().(*types.Slice)
		return ok
	}
	return false
}

func runOwn(c *Ctx) *ownAnalysis {
	a := &ownAnalysis{c: c, pt: map[ssa.Value]oset{}, contents: map[loc]oset{}, siteObj: map[ssa.Value]int{},
		fnObj: map[*ssa.Function]int{}, globObj: map[*ssa.Global]int{}, rets: map[*ssa.Function]oset{}}
	a.funcs = c.srcFuncs()
	type recvSeed struct {
		p *ssa.Parameter
		t types.Type
	}
	var recvs []recvSeed
	for _, e := range c.apiEntries() {
		en := c.fname(e)
		for i, p := range e.Params {
			if !hasPointers(p.Type()) {
				continue
			}
			switch {
			case i == 0 && e.Signature.Recv() != nil:
				t := p.Type()
				if pp, ok := t.Underlying().(*types.Pointer); ok {
					t = pp.Elem()
				}
				recvs = append(recvs, recvSeed{p, t})
			default:
				switch p.Type().Underlying().(type) {
				case *types.Signature:
					id := a.newObj(kUser, "user:"+en+"."+p.Name(), p.Pos(), true)
					a.ptOf(p)[loc{id, ""}] = struct{}{}
				case *types.Pointer:
					a.seedRoot(kOut, "out:"+en+"."+p.Name(), p)
				default:
					a.seedRoot(kInput, "input:"+en+"."+p.Name(), p)
				}
			}
		}
	}
	extRecv := map[string]int{}
	for iter := 0; iter < 300; iter++ {
		a.changed = false
		a.writes = a.writes[:0]
		a.userCall = a.userCall[:0]
		a.unknown = a.unknown[:0]
		for _, f := range a.funcs {
			a.doFunc(f)
		}
		// receivers of exported methods are objects this package's constructors allocate (unexported fields
		// force callers through them); a type nobody allocates gets one fresh caller-owned object.
		for _, r := range recvs {
			found := false
			for _, o := range a.objs {
				if o.kind == kLocal && o.typ != nil && types.Identical(o.typ, r.t) {
					found = true
					l := loc{o.id, ""}
					if _, ok := a.ptOf(r.p)[l]; !ok {
						a.ptOf(r.p)[l] = struct{}{}
						a.changed = true
					}
				}
			}
			if !found {
				tn := types.TypeString(r.t, func(*types.Package) string { return "" })
				id, ok := extRecv[tn]
				if !ok {
					id = a.newObj(kRecv, "recv:"+tn, r.p.Pos(), false)
					a.objs[id].typ = r.t
					extRecv[tn] = id
				}
				l := loc{id, ""}
				if _, ok := a.ptOf(r.p)[l]; !ok {
					a.ptOf(r.p)[l] = struct{}{}
					a.changed = true
				}
			}
		}
		if !a.changed {
			break
		}
		if iter == 299 {
			fatalf("OWN: no fixpoint after 300 iterations")
		}
	}
	return a
}

func (a *ownAnalysis) doFunc(f *ssa.Function) {
	for _, b := range f.Blocks {
		for _, in := range b.Instrs {
			a.doInstr(f, in)
		}
	}
}

func one(id int) oset { return oset{loc{id, ""}: {}} }

func (a *ownAnalysis) doInstr(f *ssa.Function, in ssa.Instruction) {
	switch v := in.(type) {
	case *ssa.Alloc:
		a.include(v, one(a.site(v, "alloc "+v.Comment, v.Type().Underlying().(*types.Pointer).Elem())))
	case *ssa.MakeSlice:
		a.include(v, one(a.site(v, "make", v.Type().Underlying().(*types.Slice).Elem())))
	case *ssa.MakeMap:
		a.include(v, one(a.site(v, "makemap", nil)))
	case *ssa.MakeChan:
		a.include(v, one(a.site(v, "makechan", nil)))
	case *ssa.MakeClosure:
		fn := v.Fn.(*ssa.Function)
		a.include(v, one(a.funcObj(fn)))
		for i, b := range v.Bindings {
			if i < len(fn.FreeVars) {
				a.include(fn.FreeVars[i], a.ptOf(b))
			}
		}
	case *ssa.Phi:
		for _, e := range v.Edges {
			a.include(v, a.ptOf(e))
		}
	case *ssa.FieldAddr:
		a.include(v, a.fieldOf(a.ptOf(v.X), fieldName(v.X.Type(), v.Field)))
	case *ssa.IndexAddr:
		a.include(v, a.ptOf(v.X))
	case *ssa.Slice:
		a.include(v, a.ptOf(v.X))
	case *ssa.ChangeType:
		a.include(v, a.ptOf(v.X))
	case *ssa.Convert:
		if hasPointers(v.Type()) {
			a.include(v, a.ptOf(v.X))
		}
	case *ssa.ChangeInterface:
		a.include(v, a.ptOf(v.X))
	case *ssa.MakeInterface:
		a.include(v, a.ptOf(v.X))
	case *ssa.TypeAssert:
		a.include(v, a.ptOf(v.X))
	case *ssa.SliceToArrayPointer:
		a.include(v, a.ptOf(v.X))
	case *ssa.Field:
		if hasPointers(v.Type()) {
			a.include(v, a.ptOf(v.X))
		}
	case *ssa.Index:
		if hasPointers(v.Type()) {
			a.include(v, a.ptOf(v.X))
		}
	case *ssa.Extract:
		if hasPointers(v.Type()) {
			a.include(v, a.ptOf(v.Tuple))
		}
	case *ssa.Lookup:
		if hasPointers(v.Type()) {
			a.include(v, a.contentsOf(a.ptOf(v.X)))
		}
	case *ssa.UnOp:
		if v.Op == token.MUL && hasPointers(v.Type()) {
			a.include(v, a.contentsOf(a.ptOf(v.X)))
		}
	case *ssa.Store:
		a.writes = append(a.writes, writeEffect{in, f, v.Addr, "store"})
		if hasPointers(v.Val.Type()) {
			a.addContents(a.ptOf(v.Addr), a.ptOf(v.Val))
		}
	case *ssa.MapUpdate:
		a.writes = append(a.writes, writeEffect{in, f, v.Map, "map update"})
		a.addContents(a.ptOf(v.Map), a.ptOf(v.Value))
		a.addContents(a.ptOf(v.Map), a.ptOf(v.Key))
	case *ssa.Return:
		r := a.rets[f]
		if r == nil {
			r = oset{}
			a.rets[f] = r
		}
		for _, x := range v.Results {
			if hasPointers(x.Type()) {
				if r.addAll(a.ptOf(x)) {
					a.changed = true
				}
			}
		}
	case ssa.CallInstruction:
		a.doCall(f, v)
	case *ssa.Range, *ssa.Next, *ssa.Select, *ssa.Send:
		a.unknown = append(a.unknown, fmt.Sprintf("%s: %T not modelled", a.c.pos(in.Pos()), in))
	}
}

func (a *ownAnalysis) doCall(f *ssa.Function, ci ssa.CallInstruction) {
	com := ci.Common()
	res, _ := ci.(ssa.Value)
	if b, ok := com.Value.(*ssa.Builtin); ok {
		switch b.Name() {
		case "append":
			s := com.Args[0]
			a.writes = append(a.writes, writeEffect{ci, f, s, "append into"})
			if res != nil {
				a.include(res, a.ptOf(s))
				a.include(res, one(a.site(res, "append", sliceElem(res.Type()))))
				if len(com.Args) > 1 {
					// second arg is a slice of the new elements
					a.addContents(a.ptOf(res), a.contentsOf(a.ptOf(com.Args[1])))
				}
			}
		case "copy":
			a.writes = append(a.writes, writeEffect{ci, f, com.Args[0], "copy into"})
			a.addContents(a.ptOf(com.Args[0]), a.contentsOf(a.ptOf(com.Args[1])))
		case "clear":
			a.writes = append(a.writes, writeEffect{ci, f, com.Args[0], "clear"})
		case "min", "max":
			if res != nil && hasPointers(res.Type()) {
				for _, x := range com.Args {
					a.include(res, a.ptOf(x))
				}
			}
		}
		return
	}
	if com.IsInvoke() {
		// interface method call: only `error` exists in this code base; Error() has no effect on our memory
		if types.TypeString(com.Value.Type(), nil) != "error" {
			a.unknown = append(a.unknown, fmt.Sprintf("%s: interface method call %s.%s not modelled", a.c.pos(ci.Pos()), com.Value.Type(), com.Method.Name()))
		}
		return
	}
	if src, ok := a.iterOf[com.Value]; ok && len(com.Args) == 1 {
		a.callFuncValue(com.Args[0], a.contentsOf(a.ptOf(src)))
		return
	}
	var callees []*ssa.Function
	if sc := com.StaticCallee(); sc != nil {
		callees = []*ssa.Function{sc}
	} else {
		user := false
		for l := range a.ptOf(com.Value) {
			switch a.objs[l.obj].kind {
			case kFunc:
				callees = append(callees, a.objs[l.obj].fn)
			case kUser, kOut, kRecv, kInput:
				user = true
			}
		}
		if user || len(callees) == 0 {
			a.userCall = append(a.userCall, ci)
		}
	}
	for _, callee := range callees {
		if callee.Blocks == nil || !a.c.inRepo(callee) {
			a.external(f, ci, callee)
			continue
		}
		args := com.Args
		for i, p := range callee.Params {
			if i < len(args) && hasPointers(p.Type()) {
				a.include(p, a.ptOf(args[i]))
			}
		}
		if res != nil && hasPointers(res.Type()) {
			a.include(res, a.rets[callee])
		}
	}
}

func (a *ownAnalysis) external(f *ssa.Function, ci ssa.CallInstruction, callee *ssa.Function) {
	com := ci.Common()
	pkg := ""
	if callee.Pkg != nil {
		pkg = callee.Pkg.Pkg.Path()
	} else if o := callee.Origin(); o != nil && o.Pkg != nil {
		pkg = o.Pkg.Pkg.Path()
	}
	name := callee.Name()
	if o := callee.Origin(); o != nil {
		name = o.Name()
	}
	switch {
	case pkg == "sort" && (name == "Slice" || name == "SliceStable" || name == "Sort" || name == "Stable"):
		a.writes = append(a.writes, writeEffect{ci, f, com.Args[0], "sort of"})
		a.callFuncValue(com.Args[len(com.Args)-1], nil)
	case pkg == "slices" && (strings.HasPrefix(name, "Sort") || name == "Reverse"):
		a.writes = append(a.writes, writeEffect{ci, f, com.Args[0], "sort/reverse of"})
		if len(com.Args) > 1 {
			a.callFuncValue(com.Args[1], a.contentsOf(a.ptOf(com.Args[0])))
		}
	case pkg == "slices" && (name == "IndexFunc" || name == "ContainsFunc" || name == "Index" || name == "Contains" || name == "Equal" || name == "IsSortedFunc" || name == "BinarySearch" || name == "BinarySearchFunc"):
		// readers: the elements are handed to the callback (if any); nothing is written, nothing pointer-carrying returned
		if strings.HasSuffix(name, "Func") && len(com.Args) > 1 {
			a.callFuncValue(com.Args[len(com.Args)-1], a.contentsOf(a.ptOf(com.Args[0])))
		}
	case pkg == "slices" && (name == "Compact" || name == "CompactFunc" || name == "Delete" || name == "DeleteFunc"):
		// in place: elements are moved down inside the argument's backing array (and the tail is cleared); the result
		// is a prefix of the argument
		a.writes = append(a.writes, writeEffect{ci, f, com.Args[0], "in-place compaction (slices." + name + ") of"})
		if res, ok := ci.(ssa.Value); ok {
			a.include(res, a.ptOf(com.Args[0]))
		}
		if strings.HasSuffix(name, "Func") && len(com.Args) > 1 {
			a.callFuncValue(com.Args[len(com.Args)-1], a.contentsOf(a.ptOf(com.Args[0])))
		}
	case pkg == "slices" && (name == "Backward" || name == "All" || name == "Values"):
		// an iterator over the slice: calling it hands the elements to the loop body (the yield closure); remembered
		// here, bound where the iterator value is called
		if res, ok := ci.(ssa.Value); ok {
			if a.iterOf == nil {
				a.iterOf = map[ssa.Value]ssa.Value{}
			}
			a.iterOf[res] = com.Args[0]
		}
	case pkg == "slices" && (name == "Clone" || name == "Concat"):
		if res, ok := ci.(ssa.Value); ok {
			a.include(res, one(a.site(res, "slices."+name, sliceElem(res.Type()))))
			for _, x := range com.Args {
				a.addContents(a.ptOf(res), a.contentsOf(a.ptOf(x)))
			}
		}
	case pkg == "slices" && (name == "Clip" || name == "Grow"):
		if res, ok := ci.(ssa.Value); ok {
			a.include(res, a.ptOf(com.Args[0]))
			if name == "Grow" {
				a.include(res, one(a.site(res, "slices.Grow", sliceElem(res.Type()))))
				a.addContents(a.ptOf(res), a.contentsOf(a.ptOf(com.Args[0])))
			}
		}
	case pureExternalPkgs[pkg]:
		// value-only APIs: no effect on memory reachable from our slices/pointers
	default:
		for _, x := range com.Args {
			if hasPointers(x.Type()) && len(a.ptOf(x)) > 0 {
				a.unknown = append(a.unknown, fmt.Sprintf("%s: call to external %s.%s with pointer argument is not modelled", a.c.pos(ci.Pos()), pkg, name))
				break
			}
		}
	}
}

// callFuncValue binds every pointer parameter of the functions fv may denote to elems.
func (a *ownAnalysis) callFuncValue(fv ssa.Value, elems oset) {
	for l := range a.ptOf(fv) {
		if a.objs[l.obj].kind != kFunc {
			continue
		}
		for _, p := range a.objs[l.obj].fn.Params {
			if hasPointers(p.Type()) && elems != nil {
				a.include(p, elems)
			}
		}
	}
}

func (a *ownAnalysis) kinds(s oset, k objKind) []string {
	seen := map[string]bool{}
	var n []string
	for l := range s {
		if a.objs[l.obj].kind == k && !seen[a.objs[l.obj].name] {
			seen[a.objs[l.obj].name] = true
			n = append(n, a.objs[l.obj].name)
		}
	}
	sort.Strings(n)
	return n
}

// ---------------------------------------------------------------------------------------------------------
// rules on top of OWN

// ruleImmutable: C12.immutable / C18.shared — no write effect may target memory reachable from an input slice.
func ruleImmutable(rule string) func(*Ctx) {
	return func(c *Ctx) {
		a := runOwn(c)
		ucnt := map[string]int{}
		for _, u := range a.unknown {
			ucnt[u]++
			c.fail(rule, fmt.Sprintf("%s:unmodelled:%s", rule, strings.Join(strings.Fields(u)[1:], "_")), token.NoPos, "package",
				"effect outside the analysed/trusted set: "+u, "every effect on pointer-carrying memory must be classified; an unmodelled call or instruction can write caller memory or share state")
		}
		type agg struct {
			n     int
			first writeEffect
			bad   []string
		}
		perFn := map[string]*agg{}
		cnt := map[string]int{}
		inputs := 0
		for _, o := range a.objs {
			if o.kind == kInput {
				inputs++
			}
		}
		for _, w := range a.writes {
			fn := c.fname(w.fn)
			g := perFn[fn]
			if g == nil {
				g = &agg{first: w}
				perFn[fn] = g
			}
			g.n++
			t := a.ptOf(w.target)
			if in := a.kinds(t, kInput); len(in) > 0 {
				cnt[fn+w.what]++
				key := fmt.Sprintf("%s:%s:%s#%d", rule, fn, strings.ReplaceAll(w.what, " ", "-"), cnt[fn+w.what])
				c.fail(rule, key, w.instr.Pos(), fn,
					fmt.Sprintf("%s %s may write caller-owned input memory: %s", w.what, describeValue(w.target), strings.Join(in, ", ")),
					"the caller's path slices may be shared (also between goroutines); a library write through them changes the caller's data and races with concurrent readers")
			}
		}
		var fns []string
		for fn := range perFn {
			fns = append(fns, fn)
		}
		sort.Strings(fns)
		for _, fn := range fns {
			g := perFn[fn]
			bad := false
			for _, o := range c.obs {
				if o.Rule == rule && o.Func == fn && o.Status == Fail {
					bad = true
				}
			}
			if !bad {
				c.pass(rule, fmt.Sprintf("%s:%s:writes", rule, fn), g.first.fn.Pos(), fn,
					fmt.Sprintf("%d write effects (store/append/copy/sort); none targets memory reachable from any of the %d input-slice roots", g.n, inputs))
			}
		}
		c.floor(rule, len(fns), 60)
		c.note("OWN: %d functions, %d abstract objects (%d input roots), %d write effects; %d calls into caller-supplied functions (delta callback, scale functions, inflate options) are outside the library's hands",
			len(a.funcs), len(a.objs), inputs, len(a.writes), len(a.userCall))
		ownControl(c, rule)
	}
}

func describeValue(v ssa.Value) string {
	if v.Name() != "" {
		return fmt.Sprintf("(%s %s)", v.Name(), v.Type())
	}
	return v.String()
}

// ruleNoGlobalWrites: C18.globals — no store to / escape of package-level variables outside init.
func ruleNoGlobalWrites(rule string) func(*Ctx) {
	return func(c *Ctx) {
		n := 0
		globals := map[*ssa.Global]bool{}
		for _, m := range c.spkg.Members {
			if g, ok := m.(*ssa.Global); ok {
				globals[g] = true
			}
		}
		uses := map[*ssa.Global][]string{}
		for _, f := range c.srcFuncs() {
			if f.Name() == "init" && f.Parent() == nil {
				continue
			}
			for _, b := range f.Blocks {
				for _, in := range b.Instrs {
					for _, op := range in.Operands(nil) {
						g, ok := (*op).(*ssa.Global)
						if !ok || !globals[g] {
							continue
						}
						if u, ok := in.(*ssa.UnOp); ok && u.Op == token.MUL && u.X == g {
							uses[g] = append(uses[g], "")
							continue
						}
						// an element read of an array of numbers that only the initialiser writes (a lookup table)
						if _, isIA := in.(*ssa.IndexAddr); isIA && c.readOnlyTables().names[g.Name()] {
							uses[g] = append(uses[g], "")
							continue
						}
						uses[g] = append(uses[g], fmt.Sprintf("%s in %s: %s", c.pos(in.Pos()), c.fname(f), in.String()))
					}
				}
			}
		}
		var gs []*ssa.Global
		for g := range globals {
			gs = append(gs, g)
		}
		sort.Slice(gs, func(i, j int) bool { return gs[i].Name() < gs[j].Name() })
		for _, g := range gs {
			if strings.HasPrefix(g.Name(), "init$") {
				continue
			}
			n++
			var bad []string
			reads := 0
			for _, u := range uses[g] {
				if u == "" {
					reads++
				} else {
					bad = append(bad, u)
				}
			}
			// a loaded value that contains pointers could still be written through: only allow pointer-free or interface(error) globals
			t := g.Type().(*types.Pointer).Elem()
			if hasPointers(t) && types.TypeString(t, nil) != "error" {
				bad = append(bad, fmt.Sprintf("global %s has pointer-carrying type %s: shared mutable state reachable by every call", g.Name(), t))
			}
			c.check(len(bad) == 0, rule, fmt.Sprintf("%s:%s", rule, g.Name()), g.Pos(), "package",
				fmt.Sprintf("package-level variable %s (%s) is only ever loaded outside init (%d loads); it is never stored to and its address never escapes", g.Name(), t, reads),
				strings.Join(bad, "; "), "a package-level variable written during a call is shared by all goroutines: concurrent calls race and can change each other's results")
		}
		c.note("%s: %d package-level variables", rule, n)
		c.floor(rule, n, 2)
	}
}

// ruleNoConcurrencyPrimitives: C18.local / C17.det — forbidden constructs in the repository package.
func ruleForbidden(rule string, withDeps bool) func(*Ctx) {
	return func(c *Ctx) {
		var funcs []*ssa.Function
		funcs = append(funcs, c.srcFuncs()...)
		scope := "repository package"
		if withDeps {
			g := c.callgraphCHA()
			reach := reachable(g, c.apiEntries())
			seen := map[*ssa.Function]bool{}
			for _, f := range funcs {
				seen[f] = true
			}
			for f := range reach {
				if f.Blocks == nil || seen[f] || f.Pkg == nil {
					continue
				}
				if strings.HasPrefix(f.Pkg.Pkg.Path(), "github.com/govalues/") {
					funcs = append(funcs, f)
				}
			}
			scope = "repository package + reachable github.com/govalues/decimal functions"
		}
		type finding struct{ pos, fn, what string }
		var bad []finding
		depSync := map[string]bool{}
		for _, f := range funcs {
			for _, b := range f.Blocks {
				for _, in := range b.Instrs {
					what := ""
					switch v := in.(type) {
					case *ssa.Go:
						what = "go statement"
					case *ssa.Select:
						what = "select"
					case *ssa.Send:
						what = "channel send"
					case *ssa.Range:
						if _, ok := v.X.Type().Underlying().(*types.Map); ok {
							what = "range over a map (iteration order is randomised)"
						}
					case *ssa.Convert:
						if bt, ok := v.Type().Underlying().(*types.Basic); ok && (bt.Kind() == types.Uintptr || bt.Kind() == types.UnsafePointer) {
							what = "conversion to uintptr/unsafe.Pointer"
						}
						if bt, ok := v.X.Type().Underlying().(*types.Basic); ok && bt.Kind() == types.UnsafePointer {
							what = "conversion from unsafe.Pointer"
						}
					case ssa.CallInstruction:
						if sc := v.Common().StaticCallee(); sc != nil && sc.Pkg != nil {
							p := sc.Pkg.Pkg.Path()
							switch {
							case p == "time" || p == "math/rand" || p == "math/rand/v2" || p == "crypto/rand" || p == "os" || p == "runtime" || p == "unsafe" || p == "reflect" || p == "sync/atomic":
								what = "call into " + p + "." + sc.Name()
							case p == "sync":
								if c.inRepo(f) {
									what = "call into sync." + sc.Name() + " (shared pool/lock state)"
								} else {
									depSync[c.fname(f)+" -> sync."+sc.Name()] = true
								}
							}
						}
						for _, a := range v.Common().Args {
							if k, ok := a.(*ssa.Const); ok && k.Value != nil && strings.Contains(k.Value.String(), "%p") {
								what = "formats a pointer with %p"
							}
						}
					}
					if what != "" {
						bad = append(bad, finding{c.pos(in.Pos()), c.fname(f), what})
					}
				}
			}
		}
		for k := range depSync {
			c.note("%s: dependency uses a goroutine-safe sync primitive (trusted, not a violation): %s", rule, k)
		}
		// stores into package-level state of the dependency closure (outside init)
		for _, f := range funcs {
			if c.inRepo(f) || (f.Name() == "init" && f.Parent() == nil) {
				continue
			}
			for _, b := range f.Blocks {
				for _, in := range b.Instrs {
					if st, ok := in.(*ssa.Store); ok && rootedAtGlobal(st.Addr, 0) {
						bad = append(bad, finding{c.pos(in.Pos()), c.fname(f), "dependency stores into package-level state"})
					}
				}
			}
		}
		// imports of the repository package
		for _, imp := range c.ppkg.Imports {
			switch imp.PkgPath {
			case "unsafe", "sync", "sync/atomic", "reflect", "runtime", "time", "math/rand", "math/rand/v2", "os", "C":
				bad = append(bad, finding{"-", "package", "imports " + imp.PkgPath})
			}
		}
		if len(bad) == 0 {
			c.pass(rule, rule+":package:forbidden-constructs", token.NoPos, "package",
				fmt.Sprintf("%d function bodies (%s): no go/select/send, no range over map, no time/rand/os/runtime/sync/unsafe/reflect call, no pointer<->integer conversion, no %%p", len(funcs), scope))
		}
		cnt := map[string]int{}
		for _, b := range bad {
			cnt[b.fn+b.what]++
			c.fail(rule, fmt.Sprintf("%s:%s:%s#%d", rule, b.fn, strings.Fields(b.what)[0]+strings.ReplaceAll(strings.Join(strings.Fields(b.what)[1:], "-"), "/", "_"), cnt[b.fn+b.what]), token.NoPos, b.fn,
				b.what+" at "+b.pos, "a source of nondeterminism or of state shared between calls: identical calls may differ, or concurrent calls interfere")
		}
		for _, f := range funcs {
			c.analysed[c.fname(f)] = true
		}
	}
}

// ownControl: positive control — the rule must fire on a synthetic function that writes its input. Since the
// analysis only sees /repo, the control runs the same classification on a tiny in-memory model: we assert that
// at least one kInput root exists and that write effects through out-params ARE seen (so the detector is alive).
func ownControl(c *Ctx, rule string) {
	a := runOwnCached(c)
	outWrites := 0
	for _, w := range a.writes {
		if len(a.kinds(a.ptOf(w.target), kOut)) > 0 {
			outWrites++
		}
	}
	if outWrites == 0 {
		fatalf("%s positive control failed: no write effect through any out-parameter was observed (solution slices ARE written by the library; the effect detector is blind)", rule)
	}
	c.controls = append(c.controls, fmt.Sprintf("%s: %d write effects through out-parameters (*Paths64/*PathsD/*PolyTree) observed — the effect detector sees caller memory", rule, outWrites))
}

var ownCache = map[*Ctx]*ownAnalysis{}

func runOwnCached(c *Ctx) *ownAnalysis {
	if a, ok := ownCache[c]; ok {
		return a
	}
	a := runOwn(c)
	ownCache[c] = a
	return a
}

var _ = ast.IsExported

// ruleFrozenInput: C12.frozen-input — nothing reachable from the execution entry writes a field of the retained
// input graph (Vertex, LocalMinima); only the add-paths phase may.
func ruleFrozenInput(rule string) func(*Ctx) {
	return func(c *Ctx) {
		g := c.callgraphVTA()
		roots := []*ssa.Function{c.fn("(clipperBase).executeInternal"), c.fn("(clipperBase).buildPaths"), c.fn("(clipperBase).buildTree"), c.fn("(clipperBase).clearSolutionOnly")}
		reach := reachable(g, roots)
		frozen := map[string]bool{"Vertex": true, "LocalMinima": true}
		n, stores := 0, 0
		var fs []*ssa.Function
		for f := range reach {
			if f.Blocks != nil && c.inRepo(f) {
				fs = append(fs, f)
			}
		}
		sort.Slice(fs, func(i, j int) bool { return fs[i].String() < fs[j].String() })
		for _, f := range fs {
			n++
			fn := c.fname(f)
			cnt := 0
			for _, b := range f.Blocks {
				for _, in := range b.Instrs {
					st, ok := in.(*ssa.Store)
					if !ok {
						continue
					}
					stores++
					fa, ok := st.Addr.(*ssa.FieldAddr)
					if !ok {
						continue
					}
					p, ok := fa.X.Type().Underlying().(*types.Pointer)
					if !ok {
						continue
					}
					named, ok := p.Elem().(*types.Named)
					if !ok || !frozen[named.Obj().Name()] {
						continue
					}
					cnt++
					c.fail(rule, fmt.Sprintf("%s:%s:%s.%s#%d", rule, fn, named.Obj().Name(), fieldName(fa.X.Type(), fa.Field), cnt), st.Pos(), fn,
						fmt.Sprintf("execution-time store to %s.%s (the input graph retained between executions)", named.Obj().Name(), fieldName(fa.X.Type(), fa.Field)),
						"Vertex/LocalMinima are built once by AddPaths and reused by every Execute; an execution that edits them makes the next Execute on the same engine start from different input than a fresh engine")
				}
			}
			if cnt == 0 {
				c.pass(rule, fmt.Sprintf("%s:%s", rule, fn), f.Pos(), fn, "no store to a Vertex or LocalMinima field")
			}
		}
		c.floor(rule, n, 60)
		c.note("%s: %d functions reachable from executeInternal/buildPaths/buildTree/clearSolutionOnly, %d stores inspected", rule, n, stores)
	}
}

func rootedAtGlobal(v ssa.Value, depth int) bool {
	if depth > 8 {
		return false
	}
	switch v := v.(type) {
	case *ssa.Global:
		return true
	case *ssa.FieldAddr:
		return rootedAtGlobal(v.X, depth+1)
	case *ssa.IndexAddr:
		return rootedAtGlobal(v.X, depth+1)
	case *ssa.Slice:
		return rootedAtGlobal(v.X, depth+1)
	case *ssa.UnOp:
		if v.Op == token.MUL {
			return rootedAtGlobal(v.X, depth+1)
		}
	}
	return false
}

func sliceElem(t types.Type) types.Type {
	if s, ok := t.Underlying().(*types.Slice); ok {
		return s.Elem()
	}
	return nil
}
