package main

// Property tables, part A: C10 (DEAD/REACH/DTX), C11 (REACH/DTX), and the shared RING/DEAD rule instances.

var offsetCapMech = []string{"(ClipperOffset).doBevel", "(ClipperOffset).doRound", "(ClipperOffset).doSquare"}

func init() {
	register(&propDef{
		id:          "C10",
		explanation: "Decides the structural clause of C10: the three end-cap constructors (doBevel, doRound, doSquare) are call-graph reachable from InflatePaths64 and every cap call site in offsetOpenPath is LIVE under constant propagation (C10.caps); the end-type dispatch in offsetOpenPath/doGroupOffset equals the table Butt->doBevel, RoundET->doRound(pi), other->doSquare, Polygon->offsetPolygon, Joined->offsetOpenJoined, else->offsetOpenPath, two-point Joined -> Round/Square ended (C10.end). Also: (scratch) ClipperOffset.pathOut is never written after it was handed to the solution without a fresh slice in between, across calls (interprocedural typestate). (ipt) intersectPoint's vertical-line cases are mirror images. Does NOT decide the stroke geometry (distances, containment, k*delta bound).",
		notDecided:  []string{"stroke geometry: containment of the (delta - tol) band and the k*delta outer bound", "canonical-ness of the result (C02)", "single-point square/circle radius"},
		rules: []func(*Ctx){
			ruleDead("C10.caps", []string{"(ClipperOffset).offsetOpenPath"}, offsetCapMech, 6,
				"an open path's ends are produced only by these calls; when they are dead the stroke has no caps and the two offset sides are joined through the bare end points (InflatePaths64({{0,0},{100,0}},10,Miter,Butt) returns [])"),
			ruleEndDispatch("C10.end"),
			ruleFreshScratch("C10.fresh", "ClipperOffset", "pathOut"),
			ruleIntersectPointMirror("C10.ipt"),
			ruleScratchField("C10.scratch", "ClipperOffset", "pathOut", 4, "every stroke and ring is appended to the solution by reference; writing the scratch again without a fresh slice makes the next ring start with the previous one's points (Joined: the second side of the loop) or overwrite it"),
			ruleReach("C10.reach", []reachReq{{entry: "InflatePaths64", must: append([]string{"(ClipperOffset).offsetOpenPath", "(ClipperOffset).offsetOpenJoined", "(ClipperOffset).offsetPolygon", "Ellipse64"}, offsetCapMech...),
				whyMust: "every open end type is served by one of these constructors; an unreachable one means that end type cannot be produced"}}),
		},
	})
	register(&propDef{
		id:          "C11",
		explanation: "Decides the structural clause of C11: from each of the four line entry points the line state machine (executeInternalPath64) and the non-closing extractor (getPathRectClipLine) are call-graph reachable, and the polygon machine (RectClip64.executeInternal, checkEdges, tidyEdgePair — which close paths up through rectangle corners) is NOT reachable (C11.reach); the driver skips one-point paths, clips two-point paths, appends only the extractor's output, and the extractor emits every ring node unfiltered (C11.extract); the main scan starts at index 1 on every entry (C11.start); the four end-point blocks of getSegmentIntersection are images of one another (C11.mirror.seg). Also: (vertex-fixed) an emitted vertex is never overwritten, except under a sign test of a dot product. (skip-only) a line is skipped only on a length test or disjoint bounds. Does NOT decide the crossing logic of the line machine. Also (sibling.args): the line clipper and the polygon clipper call getIntersection with the segment's ends in the same order pattern (current->previous first, previous->current for the pass-through re-intersection).",
		notDecided:  []string{"crossing/intersection logic of executeInternalPath64", "1-unit rounding of intersection points", "coverage of the inside parts"},
		rules: []func(*Ctx){
			ruleReach("C11.reach", func() []reachReq {
				var r []reachReq
				for _, e := range []string{"RectClipLinesPaths64", "RectClipLinesPath64", "RectClipLinesPathsD", "RectClipLinesPathD"} {
					r = append(r, reachReq{entry: e,
						must:     []string{"(RectClip64).executeInternalPath64", "getPathRectClipLine"},
						mustNot:  []string{"(RectClip64).executeInternal", "(RectClip64).checkEdges", "(RectClip64).tidyEdgePair"},
						whyMust:  "only executeInternalPath64/getPathRectClipLine treat the input as an open polyline",
						whyNever: "the polygon machine closes the path through rectangle corners and drops two-point paths: a line would come back as a closed polygon"})
				}
				return r
			}()),
			ruleLineExtractor("C11.extract"),
			ruleRectSkipOnly("C11.skip-only", "(RectClipLines64).Execute", []string{"(RectClip64).executeInternalPath64"}),
			ruleInitOnlyField("C11.vertex-fixed", "OutPt2", "pt", 2, "every vertex of a clipped line is an input vertex or a border intersection; overwriting the previous output vertex ('extending the segment') loses the far end of a spike that doubles back on itself"),
			ruleSegIntersectMirrorSem("C11.mirror.seg"),
			ruleIntersectionArgOrder("C11.sibling.args"),
			ruleLineScanStart("C11.start"),
		},
	})
}
