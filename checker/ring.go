package main

import (
	"fmt"
	"go/token"
	"go/types"
	"sort"

	"golang.org/x/tools/go/ssa"
)

// RING — ring-walk exit polarity.
//
// A ring walk is a natural loop with a cursor (a header phi of pointer-to-struct type) that is advanced by
// loading a self-typed link field (next/prev/...) of the cursor, and an exit test comparing the cursor (or its
// advance) with a value that is invariant in the loop (the start node). The loop must keep going while the
// cursor differs from the start and leave when it meets it again; a loop that leaves when cursor != start
// visits a single node (the defect `areaOP` had).

type loopInfo struct {
	header *ssa.BasicBlock
	blocks map[*ssa.BasicBlock]bool
}

// naturalLoops computes natural loops (merged per header) from back edges t->h where h dominates t.
func naturalLoops(f *ssa.Function) []*loopInfo {
	byHeader := map[*ssa.BasicBlock]*loopInfo{}
	for _, b := range f.Blocks {
		for _, s := range b.Succs {
			if s.Dominates(b) { // back edge b -> s
				li := byHeader[s]
				if li == nil {
					li = &loopInfo{header: s, blocks: map[*ssa.BasicBlock]bool{s: true}}
					byHeader[s] = li
				}
				// collect body: nodes that reach b without passing s
				stack := []*ssa.BasicBlock{b}
				for len(stack) > 0 {
					n := stack[len(stack)-1]
					stack = stack[:len(stack)-1]
					if li.blocks[n] {
						continue
					}
					li.blocks[n] = true
					stack = append(stack, n.Preds...)
				}
			}
		}
	}
	var out []*loopInfo
	for _, li := range byHeader {
		out = append(out, li)
	}
	sort.Slice(out, func(i, j int) bool { return out[i].header.Index < out[j].header.Index })
	return out
}

func derefStruct(t types.Type) (*types.Struct, bool) {
	p, ok := t.Underlying().(*types.Pointer)
	if !ok {
		return nil, false
	}
	s, ok := p.Elem().Underlying().(*types.Struct)
	return s, ok
}

// isLinkLoad reports whether v is `*(&x.f)` where f has the same type as x (a self-typed link) and returns x.
func isLinkLoad(v ssa.Value) (ssa.Value, string, bool) {
	u, ok := v.(*ssa.UnOp)
	if !ok || u.Op != token.MUL {
		return nil, "", false
	}
	fa, ok := u.X.(*ssa.FieldAddr)
	if !ok {
		return nil, "", false
	}
	st, ok := derefStruct(fa.X.Type())
	if !ok {
		return nil, "", false
	}
	if !types.Identical(u.Type(), fa.X.Type()) {
		return nil, "", false
	}
	return fa.X, fieldAliasName(st.Field(fa.Field)), true
}

func definedIn(v ssa.Value, li *loopInfo) bool {
	in, ok := v.(ssa.Instruction)
	if !ok {
		return false // params, consts, globals, free vars
	}
	return li.blocks[in.Block()]
}

type ringInstance struct {
	fn      *ssa.Function
	cursor  string
	pos     token.Pos
	bad     bool
	detail  string
	ordinal int
}

// ringWalks finds all ring-walk exit tests in f.
func ringWalks(c *Ctx, f *ssa.Function) []ringInstance {
	var out []ringInstance
	loops := naturalLoops(f)
	if len(loops) == 0 {
		return nil
	}
	for _, b := range f.Blocks {
		if len(b.Instrs) == 0 {
			continue
		}
		ifi, ok := b.Instrs[len(b.Instrs)-1].(*ssa.If)
		if !ok {
			continue
		}
		cmp, ok := ifi.Cond.(*ssa.BinOp)
		if !ok || (cmp.Op != token.EQL && cmp.Op != token.NEQ) {
			continue
		}
		if _, ok := derefStruct(cmp.X.Type()); !ok {
			continue
		}
		// innermost loop containing b (smallest block set)
		var li *loopInfo
		for _, l := range loops {
			if l.blocks[b] && (li == nil || len(l.blocks) < len(li.blocks)) {
				li = l
			}
		}
		if li == nil {
			continue
		}
		// one side: cursor-derived (header phi of any enclosing loop, or link load of one); other: invariant non-nil.
		cur, inv := cmp.X, cmp.Y
		if !isCursor(cur, loops, b) {
			cur, inv = cmp.Y, cmp.X
		}
		if !isCursor(cur, loops, b) {
			continue
		}
		if k, ok := inv.(*ssa.Const); ok && k.IsNil() {
			continue
		}
		// the loop the cursor belongs to
		cl := cursorLoop(cur, loops, b)
		if cl == nil || definedIn(inv, cl) {
			// comparing two moving cursors (e.g. buildIntersectList's left/right) — not a start test
			if cl == nil || !invariantPhiEntry(inv, cl) {
				continue
			}
		}
		stayT, stayF := cl.blocks[b.Succs[0]], cl.blocks[b.Succs[1]]
		if stayT == stayF {
			continue // both stay or both leave: not the exit test
		}
		// "leave when different": NEQ with true-succ outside, or EQL with false-succ outside
		leaveWhenDifferent := (cmp.Op == token.NEQ && !stayT) || (cmp.Op == token.EQL && !stayF)
		name := valueName(cur)
		out = append(out, ringInstance{fn: f, cursor: name, pos: cmp.Pos(), bad: leaveWhenDifferent,
			detail: fmt.Sprintf("cursor %s vs invariant %s: loop %s when they differ", name, valueName(inv), map[bool]string{true: "EXITS", false: "continues"}[leaveWhenDifferent])})
	}
	sort.Slice(out, func(i, j int) bool { return out[i].pos < out[j].pos })
	cnt := map[string]int{}
	for i := range out {
		cnt[out[i].cursor]++
		out[i].ordinal = cnt[out[i].cursor]
	}
	return out
}

func isCursor(v ssa.Value, loops []*loopInfo, at *ssa.BasicBlock) bool {
	return cursorLoop(v, loops, at) != nil
}

// cursorLoop: v is a header phi of a loop containing `at` whose back-edge value is a link load chain from itself,
// or v is itself a link load of such a phi. Returns that loop.
func cursorLoop(v ssa.Value, loops []*loopInfo, at *ssa.BasicBlock) *loopInfo {
	if x, _, ok := isLinkLoad(v); ok {
		v = x
		// allow chains x.next.next
		for {
			y, _, ok2 := isLinkLoad(v)
			if !ok2 {
				break
			}
			v = y
		}
	}
	phi, ok := v.(*ssa.Phi)
	if !ok {
		return nil
	}
	for _, l := range loops {
		if l.header != phi.Block() || !l.blocks[at] {
			continue
		}
		// some incoming edge from inside the loop must be (transitively through phis) a link load of a loop value
		for i, e := range phi.Edges {
			if !l.blocks[phi.Block().Preds[i]] {
				continue
			}
			if advances(e, phi, l, map[ssa.Value]bool{}) {
				return l
			}
		}
	}
	return nil
}

func advances(e ssa.Value, phi *ssa.Phi, l *loopInfo, seen map[ssa.Value]bool) bool {
	if seen[e] {
		return false
	}
	seen[e] = true
	if _, _, ok := isLinkLoad(e); ok {
		return true
	}
	if p, ok := e.(*ssa.Phi); ok && l.blocks[p.Block()] {
		for _, x := range p.Edges {
			if x != phi && advances(x, phi, l, seen) {
				return true
			}
		}
	}
	// a call returning the same pointer type (disposeOutPt, unlinkOp...) also moves the cursor
	if call, ok := e.(*ssa.Call); ok && types.Identical(call.Type(), phi.Type()) {
		return true
	}
	return false
}

// invariantPhiEntry: inv is a header phi of the loop that never changes inside it (all in-loop edges are itself).
func invariantPhiEntry(inv ssa.Value, l *loopInfo) bool {
	p, ok := inv.(*ssa.Phi)
	if !ok || p.Block() != l.header {
		return false
	}
	for i, e := range p.Edges {
		if l.blocks[p.Block().Preds[i]] && e != p {
			return false
		}
	}
	return true
}

func valueName(v ssa.Value) string {
	switch v := v.(type) {
	case *ssa.Phi:
		if v.Comment != "" {
			return v.Comment
		}
	case *ssa.Parameter:
		return v.Name()
	case *ssa.UnOp:
		if x, f, ok := isLinkLoad(v); ok {
			return valueName(x) + "." + f
		}
		if fa, ok := v.X.(*ssa.FieldAddr); ok {
			if st, ok := derefStruct(fa.X.Type()); ok {
				return valueName(fa.X) + "." + fieldAliasName(st.Field(fa.Field))
			}
		}
	case *ssa.Const:
		return v.String()
	}
	return v.Name()
}

// ruleRing emits one obligation per ring-walk exit test in the package.
func ruleRing(rule string, minInstances int, why string) func(*Ctx) {
	return func(c *Ctx) {
		n := 0
		for _, f := range c.srcFuncs() {
			for _, r := range ringWalks(c, f) {
				n++
				fn := c.fname(f)
				key := fmt.Sprintf("%s:%s:%s#%d", rule, fn, r.cursor, r.ordinal)
				c.check(!r.bad, rule, key, r.pos, fn, r.detail, r.detail+" — the walk visits one node instead of the ring", why)
			}
		}
		c.floor(rule, n, minInstances)
	}
}

// ordered returns the loop's blocks in function order (deterministic iteration).
func (l *loopInfo) ordered() []*ssa.BasicBlock {
	var out []*ssa.BasicBlock
	for b := range l.blocks {
		out = append(out, b)
	}
	sort.Slice(out, func(i, j int) bool { return out[i].Index < out[j].Index })
	return out
}
