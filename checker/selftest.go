package main

import (
	"fmt"
	"os"
	"os/exec"
	"path/filepath"
	"sort"
	"strings"
	"sync"
)

// selfTest (thorough tier only): this property's check is run, in separate processes, against every seeded change
// (/verif/seeded/*/patch.diff) and every behaviour-preserving edit (/verif/equiv/*.patch), each applied to a
// scratch copy of the repository under the system temp dir that is removed at once. The result is reported in the
// evidence and never changes the exit status of the check.
func selfTest(pid, repo, verif string) map[string]any {
	exe, err := os.Executable()
	if err != nil {
		return map[string]any{"error": err.Error()}
	}
	type job struct{ kind, name, patch string }
	var jobs []job
	seeds, _ := filepath.Glob(filepath.Join(verif, "seeded", "*", "patch.diff"))
	for _, s := range seeds {
		// the changes seeded against THIS property (every check x every change is tools/seed_matrix.sh's job)
		if name := filepath.Base(filepath.Dir(s)); strings.Contains(name+"-", pid+"-") {
			jobs = append(jobs, job{"seeded", name, s})
		}
	}
	eqs, _ := filepath.Glob(filepath.Join(verif, "equiv", "*.patch"))
	for _, s := range eqs {
		jobs = append(jobs, job{"equiv", strings.TrimSuffix(filepath.Base(s), ".patch"), s})
	}
	type res struct {
		job
		rc  int
		msg string
	}
	out := make([]res, len(jobs))
	var wg sync.WaitGroup
	sem := make(chan struct{}, 4)
	for i, j := range jobs {
		wg.Add(1)
		go func(i int, j job) {
			defer wg.Done()
			sem <- struct{}{}
			defer func() { <-sem }()
			d, err := os.MkdirTemp("", "vcheck-self-")
			if err != nil {
				out[i] = res{j, -1, err.Error()}
				return
			}
			defer os.RemoveAll(d)
			files, _ := filepath.Glob(filepath.Join(repo, "*.go"))
			files = append(files, filepath.Join(repo, "go.mod"), filepath.Join(repo, "go.sum"))
			for _, f := range files {
				b, err := os.ReadFile(f)
				if err == nil {
					os.WriteFile(filepath.Join(d, filepath.Base(f)), b, 0o644)
				}
			}
			pc := exec.Command("patch", "-p1", "-s", "--no-backup-if-mismatch", "-i", j.patch)
			pc.Dir = d
			if err := pc.Run(); err != nil {
				out[i] = res{j, -2, "patch does not apply to the current tree"}
				return
			}
			cmd := exec.Command(exe, "-p", pid, "-tier", "quick", "-no-evidence", "-repo", d, "-verif", verif)
			b, _ := cmd.CombinedOutput()
			rc := 0
			if cmd.ProcessState != nil {
				rc = cmd.ProcessState.ExitCode()
			}
			var rules []string
			for _, l := range strings.Split(string(b), "\n") {
				if strings.HasPrefix(strings.TrimSpace(l), "rule=") {
					rules = append(rules, strings.Fields(strings.TrimSpace(l))[0][5:])
				}
			}
			sort.Strings(rules)
			out[i] = res{j, rc, strings.Join(uniq(rules), ",")}
		}(i, j)
	}
	wg.Wait()
	var seeded, equiv []string
	detected, alarms := 0, 0
	for _, r := range out {
		switch r.kind {
		case "seeded":
			st := "silent"
			switch r.rc {
			case 1:
				st = "REPORTED by " + r.msg
				detected++
			case 2:
				st = "checker error"
			case -2, -1:
				st = r.msg
			}
			seeded = append(seeded, fmt.Sprintf("%s: %s", r.name, st))
		case "equiv":
			st := "silent (correct)"
			if r.rc != 0 {
				st = fmt.Sprintf("ALARM rc=%d %s", r.rc, r.msg)
				alarms++
			}
			equiv = append(equiv, fmt.Sprintf("%s: %s", r.name, st))
		}
	}
	return map[string]any{
		"what":                             "this property's quick check run against every change seeded against this property and every behaviour-preserving edit, each on its own scratch copy (reported only; never affects the exit status)",
		"seeded_changes":                   seeded,
		"seeded_reported_by_this_check":    detected,
		"behaviour_preserving_edits":       equiv,
		"false_alarms_on_preserving_edits": alarms,
	}
}
