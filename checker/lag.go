package main

import (
	"fmt"
	"go/token"
	"strings"

	"golang.org/x/tools/go/ssa"
)

// LAG — cyclic lagging variables. A loop walks a ring (cursor advanced by a link field) or a slice (index) and
// keeps, next to the current element, a value derived from the PREVIOUS element: x = g(cur) at the end of an
// iteration, used with g(cur) in the next. On loop entry x must therefore be g of the cyclic predecessor of the
// first element: g(start.prev) for a ring walked by .next, path[len-1] for a slice walked from 0.

// chainFrom renders v as a chain of field loads from root ("" if v == root), e.g. ".prev.pt".
func chainFrom(v, root ssa.Value, depth int) (string, bool) {
	if v == root {
		return "", true
	}
	if depth > 6 {
		return "", false
	}
	switch x := v.(type) {
	case *ssa.UnOp:
		if x.Op != token.MUL {
			return "", false
		}
		if fa, ok := x.X.(*ssa.FieldAddr); ok {
			s, ok := chainFrom(fa.X, root, depth+1)
			if !ok {
				return "", false
			}
			return s + "." + fieldName(fa.X.Type(), fa.Field), true
		}
	case *ssa.Field:
		s, ok := chainFrom(x.X, root, depth+1)
		if !ok {
			return "", false
		}
		return s + "." + fieldName(x.X.Type(), x.Field), true
	}
	return "", false
}

type lagInstance struct {
	fn      *ssa.Function
	pos     token.Pos
	what    string
	bad     string
	ordinal int
}

func lagInstances(c *Ctx, f *ssa.Function) []lagInstance {
	var out []lagInstance
	for _, l := range naturalLoops(f) {
		// ---- ring form
		var cursor *ssa.Phi
		var link string
		for _, in := range l.header.Instrs {
			phi, ok := in.(*ssa.Phi)
			if !ok {
				break
			}
			if _, isPtr := derefStruct(phi.Type()); !isPtr {
				continue
			}
			for i, e := range phi.Edges {
				if l.blocks[phi.Block().Preds[i]] {
					if x, fld, ok := isLinkLoad(e); ok && x == ssa.Value(phi) {
						cursor, link = phi, fld
					}
				}
			}
		}
		for _, in := range l.header.Instrs {
			lag, ok := in.(*ssa.Phi)
			if !ok {
				break
			}
			if lag == cursor {
				continue
			}
			var entry, back ssa.Value
			for i, e := range lag.Edges {
				if l.blocks[lag.Block().Preds[i]] {
					back = e
				} else {
					entry = e
				}
			}
			if entry == nil || back == nil {
				continue
			}
			// ring form: both are calls to the same function; the back-edge argument hangs off the cursor
			if cursor != nil {
				bc, ok1 := back.(*ssa.Call)
				ec, ok2 := entry.(*ssa.Call)
				if ok1 && ok2 && bc.Call.StaticCallee() != nil && bc.Call.StaticCallee() == ec.Call.StaticCallee() {
					var c0 ssa.Value
					for i, e := range cursor.Edges {
						if !l.blocks[cursor.Block().Preds[i]] {
							c0 = e
						}
					}
					for ai := range bc.Call.Args {
						bp, ok := chainFrom(bc.Call.Args[ai], cursor, 0)
						if !ok {
							continue
						}
						inv := map[string]string{"next": "prev", "prev": "next"}[link]
						if inv == "" {
							continue
						}
						inst := lagInstance{fn: f, pos: ec.Pos(), what: fmt.Sprintf("%s = %s(cursor%s ...) lags the ring walk by .%s", valueName(lag), calleeName(c, bc), bp, link)}
						ep, ok := chainFrom(ec.Call.Args[ai], c0, 0)
						want := "." + inv + bp
						if !ok || ep != want {
							got := ep
							if !ok {
								got = "(not a field chain of the start node)"
							}
							inst.bad = fmt.Sprintf("the lagging value is seeded with %s(start%s) but the walk needs %s(start%s): the first iteration pairs the first node with itself instead of with its predecessor", calleeName(c, ec), got, calleeName(c, ec), want)
						}
						out = append(out, inst)
					}
				}
			}
			// index form: back = path[i] (range/index walk from 0), entry must be path[len(path)-1]
			if bl, ok := back.(*ssa.UnOp); ok && bl.Op == token.MUL {
				if bia, ok := bl.X.(*ssa.IndexAddr); ok {
					if !dependsOnLoopPhi(bia.Index, l, 0) {
						continue
					}
					inst := lagInstance{fn: f, pos: lag.Pos(), what: fmt.Sprintf("%s = %s[i] lags the index walk", valueName(lag), valueName(bia.X))}
					okInit := false
					if el, ok := entry.(*ssa.UnOp); ok && el.Op == token.MUL {
						if eia, ok := el.X.(*ssa.IndexAddr); ok && eia.X == bia.X {
							if bo, ok := eia.Index.(*ssa.BinOp); ok && bo.Op == token.SUB && isConstInt(bo.Y, 1) {
								if call, ok := bo.X.(*ssa.Call); ok {
									if bi, ok := call.Call.Value.(*ssa.Builtin); ok && bi.Name() == "len" && call.Call.Args[0] == bia.X {
										okInit = true
									}
								}
							}
						}
					}
					if !okInit {
						inst.bad = "the lagging element is not seeded with the LAST element (path[len(path)-1]): the closing edge of the cycle is paired wrongly"
					}
					out = append(out, inst)
				}
			}
		}
	}
	// index form through an address-taken struct local (prevPt := path[len-1]; ...; prevPt = pt)
	for _, b := range f.Blocks {
		for _, in := range b.Instrs {
			al, ok := in.(*ssa.Alloc)
			if !ok {
				continue
			}
			var stores []*ssa.Store
			for _, r := range *al.Referrers() {
				if st, ok := r.(*ssa.Store); ok && st.Addr == ssa.Value(al) {
					stores = append(stores, st)
				}
			}
			if len(stores) != 2 {
				continue
			}
			for _, l := range naturalLoops(f) {
				var entry, back *ssa.Store
				for _, st := range stores {
					if l.blocks[st.Block()] {
						back = st
					} else {
						entry = st
					}
				}
				if entry == nil || back == nil {
					continue
				}
				bv := back.Val
				// look through a copy via another local: pt := path[i]; ...; prevPt = pt
				if u, ok := bv.(*ssa.UnOp); ok && u.Op == token.MUL {
					if a2, ok := u.X.(*ssa.Alloc); ok {
						var only *ssa.Store
						cnt := 0
						for _, r := range *a2.Referrers() {
							if st, ok := r.(*ssa.Store); ok && st.Addr == ssa.Value(a2) {
								only = st
								cnt++
							}
						}
						if cnt == 1 {
							bv = only.Val
						}
					}
				}
				bl, ok := bv.(*ssa.UnOp)
				if !ok || bl.Op != token.MUL {
					continue
				}
				bia, ok := bl.X.(*ssa.IndexAddr)
				if !ok || !dependsOnLoopPhi(bia.Index, l, 0) {
					continue
				}
				inst := lagInstance{fn: f, pos: entry.Pos(), what: fmt.Sprintf("%s = %s[i] lags the index walk", al.Comment, valueName(bia.X))}
				okInit := false
				if el, ok := entry.Val.(*ssa.UnOp); ok && el.Op == token.MUL {
					if eia, ok := el.X.(*ssa.IndexAddr); ok && eia.X == bia.X {
						if bo, ok := eia.Index.(*ssa.BinOp); ok && bo.Op == token.SUB && isConstInt(bo.Y, 1) {
							if call, ok := bo.X.(*ssa.Call); ok {
								if bi, ok := call.Call.Value.(*ssa.Builtin); ok && bi.Name() == "len" && call.Call.Args[0] == bia.X {
									okInit = true
								}
							}
						}
					}
				}
				if !okInit {
					inst.bad = "the lagging element is not seeded with the LAST element (path[len(path)-1]): the closing edge of the cycle is paired wrongly"
				}
				out = append(out, inst)
				break
			}
		}
	}
	for i := range out {
		out[i].ordinal = i + 1
		if out[i].pos == token.NoPos {
			out[i].pos = f.Pos()
		}
	}
	return out
}

func ruleLag(rule string, fns []string, minInstances int, why string) func(*Ctx) {
	return func(c *Ctx) {
		n := 0
		var funcs []*ssa.Function
		if fns == nil {
			funcs = c.srcFuncs()
		} else {
			for _, name := range fns {
				funcs = append(funcs, c.fn(name))
			}
		}
		for _, f := range funcs {
			for _, in := range lagInstances(c, f) {
				n++
				fn := c.fname(f)
				c.check(in.bad == "", rule, fmt.Sprintf("%s:%s:lag#%d", rule, fn, in.ordinal), in.pos, fn, in.what+"; seeded with the cyclic predecessor", in.bad, why)
			}
		}
		c.floor(rule, n, minInstances)
	}
}

var _ = strings.HasPrefix
