package main

import (
	"fmt"
	"go/token"
	"math"
	"regexp"
	"sort"
	"strings"

	"golang.org/x/tools/go/ssa"
)

// EXTREME — bounds accumulators: `if x < acc { acc = x }` needs acc to start at +inf, `>` at -inf, the four
// updates must be independent of one another, and each bound must be fed by its own axis.

var cmpRe = regexp.MustCompile(`^\((.+) ([<>]) (.+)\)$`)
var minmaxRe = regexp.MustCompile(`^builtin\.(min|max)\(([^,]+),([^,]+)\)$`)

func ruleBounds(rule string, fns []string) func(*Ctx) {
	return func(c *Ctx) {
		// start values from the constructor, by abstract exploration with isValid=false
		ctor := c.fn("NewRect64Invalid")
		ex := &explorer{c: c, f: ctor, atoms: map[string]absVal{ctor.Params[0].Name(): boolVal(false)}}
		outs := ex.explore(nil)
		init := map[string]absVal{}
		if len(outs) == 1 {
			for _, s := range outs[0].stores {
				for _, fld := range []string{"left", "top", "right", "bottom"} {
					if strings.HasSuffix(s.addr, "."+fld) {
						init[fld] = s.val.abs
					}
				}
			}
		}
		want := map[string]struct {
			op   string
			axis string
			init int64
		}{"left": {"<", "X", math.MaxInt64}, "top": {"<", "Y", math.MaxInt64}, "right": {">", "X", math.MinInt64}, "bottom": {">", "Y", math.MinInt64}}
		for _, fld := range []string{"left", "top", "right", "bottom"} {
			w := want[fld]
			v, ok := init[fld]
			c.check(len(outs) == 1 && ok && v.k == aInt && v.i == w.init, rule, fmt.Sprintf("%s:NewRect64Invalid:%s", rule, fld), ctor.Pos(), "NewRect64Invalid",
				fmt.Sprintf("accumulator %s starts at %d (identity of the %s-update)", fld, w.init, map[string]string{"<": "min", ">": "max"}[w.op]),
				fmt.Sprintf("accumulator %s starts at %v; a bound updated with '%s' must start at %d or it never moves", fld, v, w.op, w.init),
				"bounds that start at the wrong extreme never shrink/grow on that side: GetBounds64 returns MaxInt64, containment tests are never true")
		}
		for _, name := range fns {
			f := c.fn(name)
			loops := naturalLoops(f)
			if len(loops) == 0 {
				// no loop of its own: the scan is another listed function's (GetBounds64 delegating to getBounds)
				deleg := ""
				for _, ci := range calls(f) {
					for _, other := range fns {
						if other != name && calleeName(c, ci) == other {
							deleg = other
						}
					}
				}
				if deleg != "" {
					c.pass(rule, fmt.Sprintf("%s:%s:delegates", rule, name), f.Pos(), name, "has no scan of its own: it takes the bounds from "+deleg+", which is checked")
					continue
				}
			}
			if len(loops) != 1 {
				fatalf("%s: expected exactly one loop, found %d", name, len(loops))
			}
			// the constructor call must pass false
			okCall := false
			for _, ci := range calls(f) {
				if calleeName(c, ci) == "NewRect64Invalid" {
					if k, ok := ci.Common().Args[0].(*ssa.Const); ok && k.Value != nil && k.Value.String() == "false" {
						okCall = true
					}
				}
			}
			c.check(okCall, rule, fmt.Sprintf("%s:%s:init", rule, name), f.Pos(), name, "accumulator initialised with NewRect64Invalid(false)", "accumulator is not initialised with NewRect64Invalid(false)", "the start values above apply only to the invalid rectangle")
			e2 := &explorer{c: c, f: f}
			all := e2.explore(loops[0].header)
			var body []*pathOutcome
			for _, p := range all {
				if p.end == "loop" {
					body = append(body, p)
				}
			}
			type upd struct{ op, coord string }
			seenCombos := map[string]bool{}
			fieldOK := map[string]string{}
			builtinForm := map[string]bool{}
			for _, p := range body {
				var taken []string
				conds := map[string]upd{}
				for _, cd := range p.conds {
					m := cmpRe.FindStringSubmatch(cd.expr)
					if m == nil {
						continue
					}
					for _, fld := range []string{"left", "top", "right", "bottom"} {
						if strings.HasSuffix(m[3], "."+fld) {
							conds[fld] = upd{m[2], m[1]}
							if cd.taken {
								taken = append(taken, fld)
							}
						}
					}
				}
				sort.Strings(taken)
				seenCombos[strings.Join(taken, ",")] = true
				stored := map[string]string{}
				for _, s := range p.stores {
					for _, fld := range []string{"left", "top", "right", "bottom"} {
						if strings.HasSuffix(s.addr, "."+fld) {
							stored[fld] = s.val.expr
						}
					}
				}
				for _, fld := range []string{"left", "top", "right", "bottom"} {
					w := want[fld]
					// acc = min(acc, coord) / max(acc, coord): the comparison and the update in one builtin
					if m := minmaxRe.FindStringSubmatch(stored[fld]); m != nil {
						a, b := strings.TrimSpace(m[2]), strings.TrimSpace(m[3])
						if strings.HasSuffix(b, "."+fld) {
							a, b = b, a
						}
						wantFn := map[string]string{"<": "min", ">": "max"}[w.op]
						switch {
						case !strings.HasSuffix(a, "."+fld):
							fieldOK[fld] = fmt.Sprintf("%s = %s does not accumulate over %s itself", fld, stored[fld], fld)
						case m[1] != wantFn:
							fieldOK[fld] = fmt.Sprintf("%s is updated with %s, a %s bound needs %s", fld, m[1], fld, wantFn)
						case !strings.HasSuffix(b, "."+w.axis):
							fieldOK[fld] = fmt.Sprintf("%s accumulates %s, it must use the %s coordinate", fld, b, w.axis)
						}
						builtinForm[fld] = true
						continue
					}
					u, has := conds[fld]
					isTaken := false
					for _, t := range taken {
						if t == fld {
							isTaken = true
						}
					}
					switch {
					case !has:
						// the comparison was skipped on this path: updates are not independent (else-if chain)
						fieldOK[fld] = fmt.Sprintf("on the path [%s] the %s comparison is not evaluated at all: the updates are chained, so one vertex cannot move two bounds", p.condString(), fld)
					case u.op != w.op:
						fieldOK[fld] = fmt.Sprintf("%s is updated under '%s', a %s bound needs '%s'", fld, u.op, fld, w.op)
					case !strings.HasSuffix(u.coord, "."+w.axis):
						fieldOK[fld] = fmt.Sprintf("%s is compared with %s, it must use the %s coordinate", fld, u.coord, w.axis)
					case isTaken && stored[fld] != u.coord:
						fieldOK[fld] = fmt.Sprintf("%s is assigned %s, not the compared coordinate %s", fld, stored[fld], u.coord)
					case !isTaken && stored[fld] != "":
						fieldOK[fld] = fmt.Sprintf("%s is assigned although its comparison is false", fld)
					}
				}
			}
			for _, fld := range []string{"left", "top", "right", "bottom"} {
				bad := fieldOK[fld]
				if len(body) == 0 {
					bad = "no loop body path found"
				}
				if bad == "" && len(builtinForm) == 4 {
					// four unconditional min/max updates are independent by construction
				} else if bad == "" && len(seenCombos) != 16 {
					bad = fmt.Sprintf("only %d of the 16 combinations of the four comparisons are possible: the updates are not independent", len(seenCombos))
				}
				c.check(bad == "", rule, fmt.Sprintf("%s:%s:%s", rule, name, fld), f.Pos(), name,
					fmt.Sprintf("%s = %s over the %s coordinates, updated independently of the other bounds (%d body paths)", fld, map[string]string{"<": "min", ">": "max"}[want[fld].op], want[fld].axis, len(body)), bad,
					"each bound must see every vertex: a chained or mis-paired update returns a box that does not contain the path")
			}
		}
	}
}

// rulePositive: IsPositive64(p) == (Area64(p) >= 0); AreaPaths64 = sum of Area64 over the paths.
func rulePositive(rule string) func(*Ctx) {
	return func(c *Ctx) {
		f := c.fn("IsPositive64")
		ex := &explorer{c: c, f: f}
		outs := ex.explore(nil)
		p := f.Params[0].Name()
		ok := len(outs) == 1 && len(outs[0].ret) == 1 && outs[0].ret[0].expr == "(Area64("+p+") >= 0)"
		got := ""
		if len(outs) == 1 && len(outs[0].ret) == 1 {
			got = outs[0].ret[0].expr
		}
		c.check(ok, rule, rule+":IsPositive64", f.Pos(), "IsPositive64", "returns Area64(poly) >= 0", "returns "+got+" instead of Area64(poly) >= 0", "orientation is the sign of the exact area")
		g := c.fn("AreaPaths64")
		bad := sumShape(c, g, "Area64")
		c.check(bad == "", rule, rule+":AreaPaths64", g.Pos(), "AreaPaths64", "accumulates exactly one Area64(path) per path, starting from 0", bad, "the total area is the sum of the path areas")
	}
}

// sumShape: one loop; returned value is a header phi starting at 0 whose back edge is phi + callee(element).
func sumShape(c *Ctx, f *ssa.Function, callee string) string {
	loops := naturalLoops(f)
	if len(loops) != 1 {
		return fmt.Sprintf("expected one loop, found %d", len(loops))
	}
	var ret ssa.Value
	for _, b := range f.Blocks {
		for _, in := range b.Instrs {
			if r, ok := in.(*ssa.Return); ok && len(r.Results) == 1 {
				ret = r.Results[0]
			}
		}
	}
	phi, ok := ret.(*ssa.Phi)
	if !ok || phi.Block() != loops[0].header {
		return "result is not the loop accumulator"
	}
	for i, e := range phi.Edges {
		if loops[0].blocks[phi.Block().Preds[i]] {
			add, ok := e.(*ssa.BinOp)
			if !ok || add.Op != token.ADD {
				return "accumulator is not updated by addition"
			}
			other := add.Y
			if add.X != ssa.Value(phi) {
				other = add.X
				if add.Y != ssa.Value(phi) {
					return "accumulator update does not add to the accumulator"
				}
			}
			call, ok := other.(*ssa.Call)
			if !ok || calleeName(c, call) != callee {
				return "accumulated term is not " + callee + "(path)"
			}
		} else if k, ok := e.(*ssa.Const); !ok || constBits(k) != 0 {
			return "accumulator does not start at 0"
		}
	}
	return ""
}
