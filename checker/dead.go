package main

import (
	"fmt"
	"go/constant"
	"go/token"
	"go/types"
	"sort"
	"strings"

	"golang.org/x/tools/go/ssa"
)

// DEAD — sparse conditional constant propagation over one SSA function.
// Lattice per value: unknown (absent) < constant < varying. Blocks are reachable only through feasible edges.

type lat struct {
	varying bool
	val     constant.Value // nil with !varying means "constant nil/zero of non-basic type" when isNil
	isNil   bool
}

type sccp struct {
	f       *ssa.Function
	vals    map[ssa.Value]lat
	reach   map[*ssa.BasicBlock]bool
	edge    map[[2]int]bool
	constIf map[*ssa.If]bool // value of a constant condition
}

func constOf(v ssa.Value, s *sccp) (lat, bool) {
	if k, ok := v.(*ssa.Const); ok {
		if k.Value == nil {
			if k.IsNil() {
				return lat{isNil: true}, true
			}
			// zero value of a non-basic type: treat numeric/bool zero
			switch t := k.Type().Underlying().(type) {
			case *types.Basic:
				switch {
				case t.Info()&types.IsBoolean != 0:
					return lat{val: constant.MakeBool(false)}, true
				case t.Info()&types.IsNumeric != 0:
					return lat{val: constant.MakeInt64(0)}, true
				case t.Info()&types.IsString != 0:
					return lat{val: constant.MakeString("")}, true
				}
			}
			return lat{varying: true}, true
		}
		return lat{val: k.Value}, true
	}
	l, ok := s.vals[v]
	return l, ok
}

func runSCCP(f *ssa.Function) *sccp { return runSCCPSeeded(f, nil) }

// runSCCPSeeded: parameters listed in seeds start at the given lattice value (constant at every call site considered).
func runSCCPSeeded(f *ssa.Function, seeds map[*ssa.Parameter]lat) *sccp {
	s := &sccp{f: f, vals: map[ssa.Value]lat{}, reach: map[*ssa.BasicBlock]bool{}, edge: map[[2]int]bool{}, constIf: map[*ssa.If]bool{}}
	if len(f.Blocks) == 0 {
		return s
	}
	for _, p := range f.Params {
		s.vals[p] = lat{varying: true}
		if l, ok := seeds[p]; ok {
			s.vals[p] = l
		}
	}
	for _, fv := range f.FreeVars {
		s.vals[fv] = lat{varying: true}
	}
	s.reach[f.Blocks[0]] = true
	changed := true
	for iter := 0; changed && iter < 1000; iter++ {
		changed = false
		for _, b := range f.Blocks {
			if !s.reach[b] {
				continue
			}
			for _, in := range b.Instrs {
				if v, ok := in.(ssa.Value); ok {
					nl := s.eval(v, b)
					ol, had := s.vals[v]
					if !had || !sameLat(ol, nl) {
						// monotone: never go back from varying
						if had && ol.varying {
							continue
						}
						s.vals[v] = nl
						changed = true
					}
				}
				switch t := in.(type) {
				case *ssa.If:
					l, ok := constOf(t.Cond, s)
					takeT, takeF := true, true
					if ok && !l.varying && l.val != nil && l.val.Kind() == constant.Bool {
						if constant.BoolVal(l.val) {
							takeF = false
						} else {
							takeT = false
						}
					} else if !ok {
						takeT, takeF = false, false // unknown yet
					}
					if takeT {
						changed = s.markEdge(b, b.Succs[0]) || changed
					}
					if takeF {
						changed = s.markEdge(b, b.Succs[1]) || changed
					}
				case *ssa.Jump:
					changed = s.markEdge(b, b.Succs[0]) || changed
				}
			}
		}
	}
	for _, b := range f.Blocks {
		if !s.reach[b] || len(b.Instrs) == 0 {
			continue
		}
		if t, ok := b.Instrs[len(b.Instrs)-1].(*ssa.If); ok {
			l, ok := constOf(t.Cond, s)
			if ok && !l.varying && l.val != nil && l.val.Kind() == constant.Bool {
				s.constIf[t] = constant.BoolVal(l.val)
			}
		}
	}
	return s
}

func (s *sccp) markEdge(from, to *ssa.BasicBlock) bool {
	k := [2]int{from.Index, to.Index}
	if s.edge[k] {
		return false
	}
	s.edge[k] = true
	s.reach[to] = true
	return true
}

func sameLat(a, b lat) bool {
	if a.varying != b.varying || a.isNil != b.isNil {
		return false
	}
	if a.val == nil || b.val == nil {
		return a.val == nil && b.val == nil
	}
	if a.val.Kind() != b.val.Kind() {
		return false
	}
	return constant.Compare(a.val, token.EQL, b.val)
}

var varying = lat{varying: true}

func (s *sccp) eval(v ssa.Value, b *ssa.BasicBlock) lat {
	switch v := v.(type) {
	case *ssa.Phi:
		var acc *lat
		for i, e := range v.Edges {
			if !s.edge[[2]int{b.Preds[i].Index, b.Index}] {
				continue
			}
			l, ok := constOf(e, s)
			if !ok {
				continue // unknown: optimistic
			}
			if l.varying {
				return varying
			}
			if acc == nil {
				ll := l
				acc = &ll
			} else if !sameLat(*acc, l) {
				return varying
			}
		}
		if acc == nil {
			return lat{} // should not persist; treated as unknown-constant
		}
		return *acc
	case *ssa.BinOp:
		x, okx := constOf(v.X, s)
		y, oky := constOf(v.Y, s)
		if !okx || !oky {
			if (okx && x.varying) || (oky && y.varying) {
				return varying
			}
			return varying
		}
		if x.varying || y.varying {
			return varying
		}
		if x.isNil || y.isNil {
			if x.isNil && y.isNil {
				switch v.Op {
				case token.EQL:
					return lat{val: constant.MakeBool(true)}
				case token.NEQ:
					return lat{val: constant.MakeBool(false)}
				}
			}
			return varying
		}
		if x.val == nil || y.val == nil {
			return varying
		}
		return foldBin(v.Op, x.val, y.val, v.Type())
	case *ssa.UnOp:
		if v.Op == token.MUL || v.Op == token.ARROW {
			return varying
		}
		x, ok := constOf(v.X, s)
		if !ok || x.varying || x.val == nil {
			return varying
		}
		switch v.Op {
		case token.NOT:
			if x.val.Kind() == constant.Bool {
				return lat{val: constant.MakeBool(!constant.BoolVal(x.val))}
			}
		case token.SUB:
			return lat{val: constant.UnaryOp(token.SUB, x.val, 0)}
		}
		return varying
	case *ssa.Convert:
		x, ok := constOf(v.X, s)
		if !ok || x.varying || x.val == nil {
			return varying
		}
		if bt, ok := v.Type().Underlying().(*types.Basic); ok {
			switch {
			case bt.Info()&types.IsFloat != 0:
				return lat{val: constant.ToFloat(x.val)}
			case bt.Info()&types.IsInteger != 0:
				if x.val.Kind() == constant.Int {
					return lat{val: x.val}
				}
			}
		}
		return varying
	case *ssa.ChangeType:
		x, ok := constOf(v.X, s)
		if ok {
			return x
		}
		return varying
	case *ssa.Call:
		if callee := v.Call.StaticCallee(); callee != nil && len(v.Call.Args) == 1 {
			name := callee.Name()
			if o := callee.Origin(); o != nil {
				name = o.Name()
			}
			pkg := ""
			if callee.Pkg != nil {
				pkg = callee.Pkg.Pkg.Path()
			}
			if (pkg == "math" && name == "Abs") || name == "absInt" {
				x, ok := constOf(v.Call.Args[0], s)
				if ok && !x.varying && x.val != nil && (x.val.Kind() == constant.Int || x.val.Kind() == constant.Float) {
					if constant.Sign(x.val) < 0 {
						return lat{val: constant.UnaryOp(token.SUB, x.val, 0)}
					}
					return lat{val: x.val}
				}
			}
		}
		return varying
	}
	return varying
}

func foldBin(op token.Token, x, y constant.Value, t types.Type) lat {
	defer func() { recover() }()
	switch op {
	case token.EQL, token.NEQ, token.LSS, token.LEQ, token.GTR, token.GEQ:
		if x.Kind() == constant.Bool || y.Kind() == constant.Bool {
			if x.Kind() != y.Kind() || (op != token.EQL && op != token.NEQ) {
				return varying
			}
		}
		if x.Kind() == constant.String || y.Kind() == constant.String {
			if x.Kind() != y.Kind() {
				return varying
			}
		}
		return lat{val: constant.MakeBool(constant.Compare(x, op, y))}
	case token.ADD, token.SUB, token.MUL:
		if (x.Kind() == constant.Int || x.Kind() == constant.Float) && (y.Kind() == constant.Int || y.Kind() == constant.Float) {
			return lat{val: constant.BinaryOp(x, op, y)}
		}
	case token.LAND, token.LOR:
		if x.Kind() == constant.Bool && y.Kind() == constant.Bool {
			return lat{val: constant.BinaryOp(x, op, y)}
		}
	}
	return varying
}

// deadMechanismCalls reports, for function f, every call to one of the mechanism callees that sits in a block
// SCCP proves unreachable, together with the constant branch that kills it.
type deadCall struct {
	callee  string
	ordinal int
	pos     token.Pos
	dead    bool
	because string
}

func mechanismCalls(c *Ctx, f *ssa.Function, mech map[string]bool) []deadCall {
	return mechanismCallsIn(c, f, mech, nil, false, 0)
}

// mechanismCallsDeep also follows calls to helpers of the package that (transitively) contain mechanism calls: the
// helper is analysed with the constants its call site passes, so a cap constructor moved into `doEndCap(path, i,
// delta)` is still seen, in call-site order, dead or alive as before.
func mechanismCallsDeep(c *Ctx, f *ssa.Function, mech map[string]bool) []deadCall {
	return mechanismCallsIn(c, f, mech, nil, true, 0)
}

func containsMech(c *Ctx, f *ssa.Function, mech map[string]bool, depth int) bool {
	if depth > 2 || f == nil {
		return false
	}
	for _, ci := range calls(f) {
		if mech[calleeName(c, ci)] {
			return true
		}
		if sc := ci.Common().StaticCallee(); sc != nil && sc != f && c.inRepo(sc) && sc.Blocks != nil && containsMech(c, sc, mech, depth+1) {
			return true
		}
	}
	return false
}

func mechanismCallsIn(c *Ctx, f *ssa.Function, mech map[string]bool, seeds map[*ssa.Parameter]lat, deep bool, depth int) []deadCall {
	s := runSCCPSeeded(f, seeds)
	type site struct {
		ci     ssa.CallInstruction
		b      *ssa.BasicBlock
		helper *ssa.Function
	}
	var sites []site
	for _, b := range f.Blocks {
		for _, in := range b.Instrs {
			ci, ok := in.(ssa.CallInstruction)
			if !ok {
				continue
			}
			if mech[calleeName(c, ci)] {
				sites = append(sites, site{ci, b, nil})
			} else if deep && depth < 2 {
				// only helpers that exist for f alone (code extracted from f): a function with other callers is a
				// mechanism user in its own right
				if sc := ci.Common().StaticCallee(); sc != nil && sc != f && c.inRepo(sc) && sc.Blocks != nil && onlyCalledFrom(c, sc, f) && containsMech(c, sc, mech, 0) {
					sites = append(sites, site{ci, b, sc})
				}
			}
		}
	}
	sort.Slice(sites, func(i, j int) bool { return sites[i].ci.Pos() < sites[j].ci.Pos() })
	var out []deadCall
	for _, st := range sites {
		dead := !s.reach[st.b]
		because := ""
		if dead {
			because = killer(c, s, st.b)
		}
		if st.helper == nil {
			out = append(out, deadCall{callee: calleeName(c, st.ci), pos: st.ci.Pos(), dead: dead, because: because})
			continue
		}
		hs := map[*ssa.Parameter]lat{}
		for i, a := range st.ci.Common().Args {
			if i < len(st.helper.Params) {
				if l, ok := constOf(a, s); ok && !l.varying {
					hs[st.helper.Params[i]] = l
				}
			}
		}
		for _, dc := range mechanismCallsIn(c, st.helper, mech, hs, deep, depth+1) {
			if dead {
				dc.dead, dc.because = true, because
			}
			if dc.dead && !strings.Contains(dc.because, "through") {
				dc.because += fmt.Sprintf(" (through %s called at %s with the constants of that call)", c.fname(st.helper), c.pos(st.ci.Pos()))
			}
			out = append(out, dc)
		}
	}
	if depth == 0 {
		cnt := map[string]int{}
		for i := range out {
			cnt[out[i].callee]++
			out[i].ordinal = cnt[out[i].callee]
		}
	}
	return out
}

// killer names the constant branch that makes block b unreachable (nearest dominating constant If).
func killer(c *Ctx, s *sccp, b *ssa.BasicBlock) string {
	for d := b; d != nil; d = d.Idom() {
		for _, p := range d.Preds {
			if !s.reach[p] || len(p.Instrs) == 0 {
				continue
			}
			if t, ok := p.Instrs[len(p.Instrs)-1].(*ssa.If); ok {
				if val, isConst := s.constIf[t]; isConst {
					return fmt.Sprintf("branch at %s is constant %v (condition %s folds: every operand is a compile-time constant or a never-assigned variable)", c.pos(t.Cond.Pos()), val, t.Cond.String())
				}
			}
		}
	}
	return "no feasible path from function entry"
}

// ruleDead: no call to a mechanism function of the property sits in a constant-dead block.
func ruleDead(rule string, fnNames []string, mech []string, minInstances int, why string) func(*Ctx) {
	return func(c *Ctx) {
		m := map[string]bool{}
		for _, x := range mech {
			c.fn(x) // anchor must resolve
			m[x] = true
		}
		n := 0
		var funcs []*ssa.Function
		if fnNames == nil {
			funcs = c.srcFuncs()
		} else {
			for _, name := range fnNames {
				funcs = append(funcs, c.fn(name))
			}
		}
		for _, f := range funcs {
			fn := c.fname(f)
			list := mechanismCalls(c, f, m)
			if fnNames != nil {
				list = mechanismCallsDeep(c, f, m)
			}
			for _, dc := range list {
				n++
				key := fmt.Sprintf("%s:%s:%s@%d", rule, fn, dc.callee, dc.ordinal)
				c.check(!dc.dead, rule, key, dc.pos, fn,
					fmt.Sprintf("call to %s is live under constant propagation", dc.callee),
					fmt.Sprintf("call to %s can never execute: %s", dc.callee, dc.because), why)
			}
		}
		c.floor(rule, n, minInstances)
	}
}

// onlyCalledFrom: every static call of h in the package sits in f.
func onlyCalledFrom(c *Ctx, h, f *ssa.Function) bool {
	n := 0
	for _, g := range c.srcFuncs() {
		if g.Synthetic != "" {
			continue // promoted-method wrappers and thunks are not callers of their own
		}
		for _, ci := range calls(g) {
			if ci.Common().StaticCallee() == h {
				if g != f {
					return false
				}
				n++
			}
		}
	}
	return n > 0
}
