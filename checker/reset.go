package main

import (
	"fmt"
	"go/token"
	"go/types"
	"sort"
	"strings"

	"golang.org/x/tools/go/ssa"
)

// C12.reset — every engine field written during an execution is re-initialised before the next execution can
// read it. W (fields written) is computed from the code; each field then needs one of the frozen proof forms.

type resetProof struct {
	kind    string   // mustStore | dominatesCalls | modeField | inputFlag | conditional | constructorOnly
	fn      string   // function in which the proof obligation is checked
	callees []string // for dominatesCalls
	reason  string
}

type engineSpec struct {
	typ    string
	roots  []string
	proofs map[string][]resetProof
}

func fieldStoresIn(c *Ctx, f *ssa.Function, typ string) map[string][]*ssa.Store {
	out := map[string][]*ssa.Store{}
	for _, b := range f.Blocks {
		for _, in := range b.Instrs {
			st, ok := in.(*ssa.Store)
			if !ok {
				continue
			}
			fa, ok := st.Addr.(*ssa.FieldAddr)
			if !ok || typeName(fa.X.Type()) != "*"+typ {
				continue
			}
			n := fieldName(fa.X.Type(), fa.Field)
			out[n] = append(out[n], st)
		}
	}
	return out
}

func ruleReset(rule string) func(*Ctx) {
	return func(c *Ctx) {
		specs := []engineSpec{
			{typ: "clipperBase",
				roots: []string{"(clipperBase).executeInternal", "(clipperBase).buildPaths", "(clipperBase).buildTree", "(clipperBase).clearSolutionOnly", "(clipperBase).execute", "(clipper64).ExecutePolyTree64", "(clipperD).ExecutePolyTreeD"},
				proofs: map[string][]resetProof{
					"fillRule":           {{kind: "dominatesCalls", fn: "(clipperBase).executeInternal", callees: []string{"(clipperBase).reset"}, reason: "assigned from the argument before reset on every real run"}},
					"clipType":           {{kind: "dominatesCalls", fn: "(clipperBase).executeInternal", callees: []string{"(clipperBase).reset"}, reason: "assigned from the argument before reset on every real run"}},
					"currentBotY":        {{kind: "mustStore", fn: "(clipperBase).reset"}},
					"currentLocMin":      {{kind: "mustStore", fn: "(clipperBase).reset"}},
					"actives":            {{kind: "mustStore", fn: "(clipperBase).reset"}},
					"sel":                {{kind: "mustStore", fn: "(clipperBase).reset"}},
					"succeeded":          {{kind: "mustStore", fn: "(clipperBase).executeInternal"}},
					"scanlineList":       {{kind: "mustStore", fn: "(clipperBase).clearSolutionOnly", reason: "reset only appends; the epilogue truncates"}},
					"intersectList":      {{kind: "mustStore", fn: "(clipperBase).clearSolutionOnly"}},
					"outrecList":         {{kind: "mustStore", fn: "(clipperBase).clearSolutionOnly"}},
					"horzSegList":        {{kind: "mustStore", fn: "(clipperBase).clearSolutionOnly"}},
					"horzJoinList":       {{kind: "mustStore", fn: "(clipperBase).clearSolutionOnly"}},
					"usingPolyTree":      {{kind: "modeField", fn: "(clipperBase).executeInternal", reason: "every caller of executeInternal assigns the mode first"}},
					"isSortedMinimaList": {{kind: "inputFlag", fn: "(clipperBase).reset", reason: "set after the (idempotent) sort of the retained input list; AddPaths clears it"}},
				}},
			{typ: "ClipperOffset",
				roots: []string{"(ClipperOffset).executeInternal", "(ClipperOffset).Execute64"},
				proofs: map[string][]resetProof{
					"solution":    {{kind: "dominatesCalls", fn: "(ClipperOffset).Execute64", callees: []string{"(ClipperOffset).executeInternal"}}},
					"delta":       {{kind: "dominatesCalls", fn: "(ClipperOffset).executeInternal", callees: []string{"(ClipperOffset).doGroupOffset"}}},
					"mitLimSqr":   {{kind: "dominatesCalls", fn: "(ClipperOffset).executeInternal", callees: []string{"(ClipperOffset).doGroupOffset"}}},
					"groupDelta":  {{kind: "mustStore", fn: "(ClipperOffset).doGroupOffset"}},
					"joinType":    {{kind: "mustStore", fn: "(ClipperOffset).doGroupOffset"}},
					"endType":     {{kind: "mustStore", fn: "(ClipperOffset).doGroupOffset"}},
					"pathOut":     {{kind: "dominatesCalls", fn: "(ClipperOffset).doGroupOffset", callees: []string{"(ClipperOffset).offsetPolygon", "(ClipperOffset).offsetOpenJoined", "(ClipperOffset).offsetOpenPath"}}},
					"normals":     {{kind: "mustStore", fn: "(ClipperOffset).buildNormals"}},
					"stepSin":     {{kind: "conditional", reason: "assigned iff joinType==Round || endType==RoundET, read only by doRound / the single-point ellipse, reached under the same condition (reviewed by hand)"}},
					"stepCos":     {{kind: "conditional", reason: "as stepSin"}},
					"stepsPerRad": {{kind: "conditional", reason: "as stepSin"}},
				}},
			{typ: "RectClip64",
				roots: []string{"(RectClip64).Execute", "(RectClipLines64).Execute"},
				proofs: map[string][]resetProof{
					"pathBounds": {{kind: "dominatesCalls", fn: "(RectClip64).Execute", callees: []string{"(RectClip64).executeInternal"}},
						{kind: "dominatesCalls", fn: "(RectClipLines64).Execute", callees: []string{"(RectClip64).executeInternalPath64"}}},
					"results": {{kind: "epilogue", fn: "(RectClip64).Execute"}, {kind: "mustStore", fn: "(RectClip64).executeInternalPath64"}},
				}},
		}
		g := c.callgraphVTA()
		for _, sp := range specs {
			var roots []*ssa.Function
			for _, r := range sp.roots {
				roots = append(roots, c.fn(r))
			}
			reach := reachable(g, roots)
			written := map[string][]string{}
			for f := range reach {
				if f.Blocks == nil || !c.inRepo(f) {
					continue
				}
				for fld := range fieldStoresIn(c, f, sp.typ) {
					written[fld] = append(written[fld], c.fname(f))
				}
			}
			var flds []string
			for f := range written {
				flds = append(flds, f)
			}
			sort.Strings(flds)
			for _, fld := range flds {
				sort.Strings(written[fld])
				key := fmt.Sprintf("%s:%s.%s", rule, sp.typ, fld)
				proofs, ok := sp.proofs[fld]
				why := "state written by one Execute and not re-initialised is read by the next Execute on the same object: its answer then differs from a fresh engine's"
				if !ok {
					c.fail(rule, key, token.NoPos, written[fld][0],
						fmt.Sprintf("field %s.%s is written during execution (by %s) but no re-initialisation is known for it: state leaks into the next Execute", sp.typ, fld, strings.Join(uniq(written[fld]), ", ")), why)
					continue
				}
				bad := ""
				var how []string
				for _, p := range proofs {
					b := checkProof(c, sp.typ, fld, p)
					if b != "" && bad == "" {
						bad = b
					}
					how = append(how, p.kind+"@"+p.fn)
				}
				c.check(bad == "", rule, key, token.NoPos, sp.typ,
					fmt.Sprintf("written by %s; re-initialised: %s", strings.Join(uniq(written[fld]), ", "), strings.Join(how, ", ")), bad, why)
			}
			c.floor(rule, len(flds), 2)
		}
		// epilogue on every exit of every exported Execute of the sweep engines
		for _, name := range []string{"(clipper64).ExecuteOC", "(clipper64).ExecutePolyTree64", "(clipperD).ExecuteOC", "(clipperD).ExecutePolyTreeD", "(clipperD).ExecuteWithScaleFunc"} {
			f := c.fn(name)
			cs := callsOrDelegates(c, f, "(clipperBase).clearSolutionOnly", 0)
			bad := ""
			for _, b := range f.Blocks {
				if len(b.Instrs) == 0 {
					continue
				}
				if r, ok := b.Instrs[len(b.Instrs)-1].(*ssa.Return); ok {
					dom := false
					for _, x := range cs {
						if precedes(x, r) {
							dom = true
						}
					}
					if !dom {
						bad = "a return at " + c.pos(r.Pos()) + " is not preceded by clearSolutionOnly()"
					}
				}
			}
			c.check(bad == "", rule, fmt.Sprintf("%s:%s:epilogue", rule, name), f.Pos(), name, "clearSolutionOnly() precedes every return", bad,
				"the per-execution lists (output records, joins, scanlines) must be emptied before the engine is handed back")
		}
		// reset is called on every real run before the sweep starts
		{
			f := c.fn("(clipperBase).executeInternal")
			rs := callsTo(c, f, "(clipperBase).reset")
			bad := ""
			if len(rs) != 1 {
				bad = "expected exactly one reset() call"
			} else {
				for _, ci := range calls(f) {
					n := calleeName(c, ci)
					// (dropping the previous run's leftovers first is harmless: clearSolutionOnly only empties lists)
					if strings.HasPrefix(n, "(clipperBase).") && n != "(clipperBase).reset" && n != "(clipperBase).clearSolutionOnly" && !precedes(rs[0], ci) {
						bad = n + " can run before reset()"
					}
				}
			}
			c.check(bad == "", rule, rule+":executeInternal:reset-first", f.Pos(), "(clipperBase).executeInternal", "reset() precedes every other engine call", bad, "the sweep must start from re-initialised state")
		}
		// the sorted-flag of the retained minima list is cleared whenever the list grows
		for _, name := range []string{"(clipperBase).baseAddPaths", "(clipperBase).addReuseableData"} {
			f := c.fn(name)
			sts := fieldStoresIn(c, f, "clipperBase")["isSortedMinimaList"]
			var grow []ssa.Instruction
			for _, b := range f.Blocks {
				for _, in := range b.Instrs {
					switch x := in.(type) {
					case ssa.CallInstruction:
						for _, a := range x.Common().Args {
							if fa, ok := a.(*ssa.FieldAddr); ok && typeName(fa.X.Type()) == "*clipperBase" && fieldName(fa.X.Type(), fa.Field) == "minimaList" {
								grow = append(grow, in)
							}
						}
					case *ssa.Store:
						if fa, ok := x.Addr.(*ssa.FieldAddr); ok && typeName(fa.X.Type()) == "*clipperBase" && fieldName(fa.X.Type(), fa.Field) == "minimaList" {
							grow = append(grow, in)
						}
					}
				}
			}
			bad := ""
			if len(grow) == 0 {
				bad = "no growth site of minimaList found"
			}
			for _, gi := range grow {
				ok := false
				for _, st := range sts {
					if b, isB := constBool(st.Val); isB && !b && precedes(st, gi) {
						ok = true
					}
				}
				if !ok {
					ok = clearedAfter(c, gi, "clipperBase", "isSortedMinimaList", "minimaList")
				}
				if !ok {
					bad = "minimaList can grow at " + c.pos(gi.Pos()) + " without isSortedMinimaList being cleared unconditionally first"
				}
			}
			c.check(bad == "", rule, fmt.Sprintf("%s:%s:sorted-flag", rule, name), f.Pos(), name, "isSortedMinimaList = false unconditionally precedes every growth of minimaList", bad,
				"reset() skips the sort when the flag is set; adding paths after an Execute without clearing it makes the next Execute sweep an unsorted minima list, unlike a fresh engine")
		}
		// rectangle clipper edge buckets: constructor size, epilogue loop bound and tidy loop must agree
		ruleEdgeBuckets(c, rule)
	}
}

func uniq(s []string) []string {
	var out []string
	for i, x := range s {
		if i == 0 || x != s[i-1] {
			out = append(out, x)
		}
	}
	return out
}

func checkProof(c *Ctx, typ, fld string, p resetProof) string {
	switch p.kind {
	case "conditional", "constructorOnly":
		return ""
	case "mustStore":
		// the sweep engine's per-run lists are emptied at a run boundary: by the epilogue (clearSolutionOnly) on the
		// reference tree, or by reset() when the clean-up has been moved to the start of the next run — there the
		// store has to be a TRUNCATION (reset also appends to some of these lists)
		if typ == "clipperBase" && p.fn == "(clipperBase).clearSolutionOnly" {
			if f := c.fnOpt(p.fn); f != nil && mustStoreField(c, f, typ, fld, map[*ssa.Function]int{}) {
				return ""
			}
			if r := c.fnOpt("(clipperBase).reset"); r != nil && mustTruncateField(c, r, typ, fld, 0) {
				return ""
			}
			if c.fnOpt(p.fn) == nil {
				return fmt.Sprintf("neither %s (no longer declared) nor reset() empties %s.%s on every path", p.fn, typ, fld)
			}
			return fmt.Sprintf("%s no longer assigns %s.%s on every path (and reset() does not truncate it either)", p.fn, typ, fld)
		}
		f := c.fn(p.fn)
		if !mustStoreField(c, f, typ, fld, map[*ssa.Function]int{}) {
			return fmt.Sprintf("%s no longer assigns %s.%s on every path", p.fn, typ, fld)
		}
	case "dominatesCalls":
		f := c.fn(p.fn)
		sts := fieldStoresIn(c, f, typ)[fld]
		n := 0
		_ = sts
		// the calls (and the assignment) may have moved into helpers the reference record does not know: a call is
		// covered when the assignment precedes it in its own function, or precedes the call to that helper
		var walk func(g *ssa.Function, covered bool, depth int) string
		walk = func(g *ssa.Function, covered bool, depth int) string {
			for _, ci := range calls(g) {
				name := calleeName(c, ci)
				for _, callee := range p.callees {
					if name == callee {
						n++
						if !covered && !mustStoreBefore(c, g, typ, fld, ci) {
							return fmt.Sprintf("in %s the call to %s at %s is not preceded on every path by an assignment of %s.%s", c.fname(g), callee, c.pos(ci.Pos()), typ, fld)
						}
					}
				}
				if h := ci.Common().StaticCallee(); h != nil && h != g && depth < 2 && c.freshFunc(h) {
					if b := walk(h, covered || mustStoreBefore(c, g, typ, fld, ci), depth+1); b != "" {
						return b
					}
				}
			}
			return ""
		}
		if b := walk(f, false, 0); b != "" {
			return b
		}
		if n == 0 {
			return fmt.Sprintf("%s no longer calls %v", p.fn, p.callees)
		}
	case "modeField":
		target := c.fn(p.fn)
		n := 0
		for _, f := range c.srcFuncs() {
			for _, ci := range callsTo(c, f, c.fname(target)) {
				n++
				ok := false
				for _, st := range fieldStoresIn(c, f, typ)[fld] {
					if precedes(st, ci) {
						ok = true
					}
				}
				if !ok {
					return fmt.Sprintf("%s calls %s without assigning %s.%s first: the mode of the previous execution is used", c.fname(f), p.fn, typ, fld)
				}
			}
		}
		if n == 0 {
			return "no caller of " + p.fn
		}
	case "inputFlag":
		return ""
	case "epilogue":
		// the field is truncated inside the per-path loop after its last use: a store of x[:0] in the loop body
		f := c.fn(p.fn)
		for _, st := range fieldStoresIn(c, f, typ)[fld] {
			if sl, ok := st.Val.(*ssa.Slice); ok && sl.High != nil {
				if k, ok := sl.High.(*ssa.Const); ok && k.Int64() == 0 {
					return ""
				}
			}
		}
		return fmt.Sprintf("%s no longer truncates %s.%s after each path", p.fn, typ, fld)
	}
	return ""
}

// ruleEdgeBuckets: NewRectClip64 makes K buckets; Execute's epilogue must truncate all K; tidyEdgePair is run for K/2 pairs.
func ruleEdgeBuckets(c *Ctx, rule string) {
	// The buckets may have been given a type of their own: `edges [N]pair{cw, ccw []*OutPt2}`. The count is then in
	// the type and `range r.edges` covers all of it; what remains to be shown is that the routine run for every
	// bucket after each path empties BOTH lists of the pair on EVERY path to its return.
	if obj := c.tpkg.Scope().Lookup("RectClip64"); obj != nil {
		if st, ok := obj.Type().Underlying().(*types.Struct); ok {
			for i := 0; i < st.NumFields(); i++ {
				arr, isArr := st.Field(i).Type().Underlying().(*types.Array)
				if fieldAliasName(st.Field(i)) != "edges" || !isArr {
					continue
				}
				elem, ok := arr.Elem().Underlying().(*types.Struct)
				en := typeName(arr.Elem())
				f := c.fn("(RectClip64).Execute")
				bad := ""
				if !ok {
					bad = "edge buckets are an array of " + en + ", which is not a struct of lists"
				}
				var holders []*ssa.Function
				for _, g := range append(freshRegion(c, f), c.fnOpt("(RectClip64).tidyEdgePair")) {
					if g != nil && len(fieldStoresIn(c, g, en)) > 0 {
						holders = append(holders, g)
					}
				}
				if len(holders) == 0 && bad == "" {
					bad = "no routine reached from Execute empties the " + en + " lists after a path"
				}
				for _, g := range holders {
					for k := 0; ok && k < elem.NumFields(); k++ {
						if _, isSl := elem.Field(k).Type().Underlying().(*types.Slice); !isSl {
							continue
						}
						fn := elem.Field(k).Name()
						if !mustStoreField(c, g, en, fn, map[*ssa.Function]int{}) {
							bad = fmt.Sprintf("%s can return without having emptied %s.%s: entries of this path survive into the next one", c.fname(g), en, fn)
						}
						for _, stx := range fieldStoresIn(c, g, en)[fn] {
							sl, isSlice := stx.Val.(*ssa.Slice)
							k0, isK := (ssa.Value)(nil), false
							if isSlice && sl.High != nil {
								kc, okc := sl.High.(*ssa.Const)
								isK = okc && kc.Int64() == 0
								k0 = sl.High
							}
							_ = k0
							if !isK {
								if _, isMake := stx.Val.(*ssa.MakeSlice); !isMake {
									bad = fmt.Sprintf("%s assigns %s.%s something other than an emptied list", c.fname(g), en, fn)
								}
							}
						}
					}
				}
				c.check(bad == "", rule, rule+":RectClip64.edges:bucket-count", f.Pos(), "(RectClip64).Execute",
					fmt.Sprintf("the %d edge buckets are a fixed-size array of %s; both lists of a bucket are emptied on every path of the per-bucket routine", arr.Len(), en), bad,
					"edge buckets are per-path scratch: a bucket that is not emptied feeds dangling points of the previous path into tidyEdgePair (panic, endless loop or foreign vertices)")
				return
			}
		}
	}
	ctor := c.fn("NewRectClip64")
	K := int64(-1)
	for _, b := range ctor.Blocks {
		for _, in := range b.Instrs {
			if ms, ok := in.(*ssa.MakeSlice); ok && strings.Contains(ms.Type().String(), "[][]") {
				if k, ok := ms.Len.(*ssa.Const); ok {
					K = k.Int64()
				}
			}
			// make with a constant length is lowered to new [K]T + slice
			if al, ok := in.(*ssa.Alloc); ok {
				if arr, ok := al.Type().Underlying().(*types.Pointer).Elem().Underlying().(*types.Array); ok && strings.HasPrefix(arr.Elem().String(), "[]*") {
					K = arr.Len()
				}
			}
		}
	}
	f := c.fn("(RectClip64).Execute")
	// loops whose body stores edges[i][:0] / calls tidyEdgePair(i, ...)
	bad := ""
	found := 0
	for _, l := range naturalLoops(f) {
		bound := loopConstBound(l)
		if bound < 0 {
			continue
		}
		for _, b := range l.ordered() {
			for _, in := range b.Instrs {
				switch x := in.(type) {
				case *ssa.Store:
					if ia, ok := x.Addr.(*ssa.IndexAddr); ok && isFieldLoadOf(ia.X, "RectClip64", "edges") {
						found++
						if bound != K {
							bad = fmt.Sprintf("the epilogue truncates edge buckets 0..%d but the constructor creates %d: stale entries of buckets %d..%d survive into the next path", bound-1, K, bound, K-1)
						}
					}
				case ssa.CallInstruction:
					if calleeName(c, x) == "(RectClip64).tidyEdgePair" {
						found++
						if bound*2 != K {
							bad = fmt.Sprintf("tidyEdgePair runs for %d pairs but there are %d buckets", bound, K)
						}
					}
				}
			}
		}
	}
	if K < 0 {
		bad = "constructor bucket count not found"
	}
	if found < 2 && bad == "" {
		bad = "epilogue truncation or tidy loop not found"
	}
	c.check(bad == "", rule, rule+":RectClip64.edges:bucket-count", f.Pos(), "(RectClip64).Execute",
		fmt.Sprintf("constructor makes %d edge buckets; the per-path epilogue truncates all of them; tidyEdgePair covers %d pairs", K, K/2), bad,
		"edge buckets are per-path scratch: a bucket that is not emptied feeds dangling points of the previous path into tidyEdgePair (panic, endless loop or foreign vertices)")
}

// loopConstBound: the loop is `for i := 0; i < K; i++` with constant K; returns K or -1.
func loopConstBound(l *loopInfo) int64 {
	if len(l.header.Instrs) == 0 {
		return -1
	}
	ifi, ok := l.header.Instrs[len(l.header.Instrs)-1].(*ssa.If)
	if !ok {
		return -1
	}
	cmp, ok := ifi.Cond.(*ssa.BinOp)
	if !ok || cmp.Op != token.LSS {
		return -1
	}
	k, ok := cmp.Y.(*ssa.Const)
	if !ok {
		return -1
	}
	if _, isPhi := cmp.X.(*ssa.Phi); !isPhi {
		return -1
	}
	return k.Int64()
}

// freshFunc: an unexported function of the package that the reference record does not know (loops allowed, unlike
// freshHelper): code the change under analysis moved out of, or merged from, recorded functions.
func (c *Ctx) freshFunc(g *ssa.Function) bool {
	if c.recorded == nil || g == nil || g.Blocks == nil || g.Parent() != nil || !c.inRepo(g) {
		return false
	}
	if _, aliased := c.alias[g]; aliased {
		return false
	}
	return !c.recorded[c.rawName(g)] && !token.IsExported(g.Name())
}

// callsOrDelegates: the calls in f to callee, plus the calls to fresh functions every return of which is itself
// preceded by such a call (the body of f merged into, or delegated to, a new helper).
func callsOrDelegates(c *Ctx, f *ssa.Function, callee string, depth int) []ssa.CallInstruction {
	var out []ssa.CallInstruction
	for _, ci := range calls(f) {
		if calleeName(c, ci) == callee {
			out = append(out, ci)
			continue
		}
		// any function of the package every return of which is itself preceded by such a call does as well as the
		// call itself (c.clipperBase.execute clears before it returns)
		if g := ci.Common().StaticCallee(); depth < 2 && g != nil && g.Blocks != nil && c.inRepo(g) && allReturnsPrecededBy(c, g, callee, depth+1) {
			out = append(out, ci)
		}
	}
	return out
}

func allReturnsPrecededBy(c *Ctx, g *ssa.Function, callee string, depth int) bool {
	cs := callsOrDelegates(c, g, callee, depth)
	n := 0
	for _, b := range g.Blocks {
		if len(b.Instrs) == 0 {
			continue
		}
		r, ok := b.Instrs[len(b.Instrs)-1].(*ssa.Return)
		if !ok {
			continue
		}
		n++
		dom := false
		for _, x := range cs {
			if precedes(x, r) {
				dom = true
			}
		}
		if !dom {
			return false
		}
	}
	return n > 0
}

// pureDelegate: f does nothing but hand its work to one other function of the package and return what that returns
// (`return c.other(args...)`): one block, one call, no stores. Returns that call (nil otherwise). What holds for the
// callee's epilogue then holds for f's.
func pureDelegate(c *Ctx, f *ssa.Function) ssa.CallInstruction {
	if f == nil || len(f.Blocks) != 1 {
		return nil
	}
	var only ssa.CallInstruction
	for _, in := range f.Blocks[0].Instrs {
		switch x := in.(type) {
		case ssa.CallInstruction:
			if _, isBuiltin := x.Common().Value.(*ssa.Builtin); isBuiltin {
				continue
			}
			if only != nil {
				return nil
			}
			only = x
		case *ssa.Store:
			// spilling a parameter or building the variadic slice is not work; a store through a pointer is
			if _, ok := x.Addr.(*ssa.Alloc); !ok {
				if ia, ok := x.Addr.(*ssa.IndexAddr); !ok || func() bool { _, isA := ia.X.(*ssa.Alloc); return !isA }() {
					return nil
				}
			}
		}
	}
	if only == nil {
		return nil
	}
	g := only.Common().StaticCallee()
	if g == nil || g.Blocks == nil || !c.inRepo(g) {
		return nil
	}
	// only a sibling: a method of the same receiver type (or a plain function when f is one)
	recvName := func(h *ssa.Function) string {
		if r := h.Signature.Recv(); r != nil {
			return strings.TrimPrefix(typeName(r.Type()), "*")
		}
		return ""
	}
	if recvName(f) != recvName(g) {
		// ... or a method of a struct embedded in f's receiver (c.clipperBase.execute from a clipper64 method)
		emb := false
		if r := f.Signature.Recv(); r != nil && g.Signature.Recv() != nil {
			if st, _ := derefStruct(r.Type()); st != nil {
				for i := 0; i < st.NumFields(); i++ {
					if st.Field(i).Embedded() && strings.TrimPrefix(typeName(st.Field(i).Type()), "*") == recvName(g) {
						emb = true
					}
				}
			}
		}
		if !emb || !allowEmbeddedDelegate {
			return nil
		}
	}
	return only
}

// allowEmbeddedDelegate: set by the rules for which delegation to an embedded struct's method counts (epilogues);
// the D/64 call-skeleton comparison leaves it off, because there the 64 side would be expanded and the D side not.
var allowEmbeddedDelegate = false

// mustTruncateField: on every path from f's entry to a return the slice field typ.fld is emptied: assigned x[:0], a
// fresh make, nil, or slices.Grow(x[:0], n) — directly or by a callee (same receiver type) that does so on all of
// its paths.
func mustTruncateField(c *Ctx, f *ssa.Function, typ, fld string, depth int) bool {
	if f == nil || f.Blocks == nil || depth > 3 {
		return false
	}
	empties := func(v ssa.Value) bool {
		for k := 0; k < 3; k++ {
			switch x := v.(type) {
			case *ssa.Slice:
				kc, ok := x.High.(*ssa.Const)
				return ok && kc.Int64() == 0
			case *ssa.MakeSlice:
				return true
			case *ssa.Const:
				return x.IsNil()
			case *ssa.Call:
				if g := x.Call.StaticCallee(); g != nil && len(x.Call.Args) > 0 {
					n := g.Name()
					if o := g.Origin(); o != nil {
						n = o.Name()
					}
					if n == "Grow" || n == "Clip" {
						v = x.Call.Args[0]
						continue
					}
				}
				return false
			default:
				return false
			}
		}
		return false
	}
	gen := func(in ssa.Instruction) bool {
		switch x := in.(type) {
		case *ssa.Store:
			if fa, ok := x.Addr.(*ssa.FieldAddr); ok && typeName(fa.X.Type()) == "*"+typ && fieldName(fa.X.Type(), fa.Field) == fld {
				return empties(x.Val)
			}
		case ssa.CallInstruction:
			if g := x.Common().StaticCallee(); g != nil && g != f && c.inRepo(g) && g.Signature.Recv() != nil && strings.TrimPrefix(typeName(g.Signature.Recv().Type()), "*") == typ {
				return mustTruncateField(c, g, typ, fld, depth+1)
			}
		}
		return false
	}
	in := map[*ssa.BasicBlock]bool{}
	out := map[*ssa.BasicBlock]bool{}
	genB := map[*ssa.BasicBlock]bool{}
	for _, b := range f.Blocks {
		in[b], out[b] = true, true
		for _, ins := range b.Instrs {
			if gen(ins) {
				genB[b] = true
			}
		}
	}
	in[f.Blocks[0]] = false
	out[f.Blocks[0]] = genB[f.Blocks[0]]
	for changed := true; changed; {
		changed = false
		for _, b := range f.Blocks {
			ni := b != f.Blocks[0]
			if ni {
				for _, pr := range b.Preds {
					ni = ni && out[pr]
				}
			}
			no := ni || genB[b]
			if ni != in[b] || no != out[b] {
				in[b], out[b] = ni, no
				changed = true
			}
		}
	}
	rets := 0
	for _, b := range f.Blocks {
		if len(b.Instrs) == 0 {
			continue
		}
		if _, isRet := b.Instrs[len(b.Instrs)-1].(*ssa.Return); isRet {
			rets++
			if !out[b] {
				return false
			}
		}
	}
	return rets > 0
}
