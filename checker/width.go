package main

import (
	"fmt"
	"go/constant"
	"go/token"
	"go/types"
	"math/big"
	"sort"
	"strings"

	"golang.org/x/tools/go/ssa"
)

// WIDTH — magnitude bits. Abstract value of a signed-integer SSA value = an upper bound on
// ceil(log2(|v|+1)), given that every coordinate has at most w bits. int64 is the only coordinate type in this
// code base; `int` is used for indices, counts and winding numbers (assumed < 2^31). Integer-valued floats
// carry the same measure so that exactness of float detours (53-bit mantissa) can be judged.

type wkind int

const (
	wNone wkind = iota // not tracked
	wInt               // signed integer with `bits`
	wIFlt              // float holding an integer of `bits` bits, exact so far
	wInex              // float that has lost integer exactness (bits is still a magnitude bound)
)

type wval struct {
	k    wkind
	bits int
}

const wCap = 200

type widthAnalysis struct {
	c       *Ctx
	w       int
	params  map[*ssa.Parameter]wval
	rets    map[*ssa.Function][]wval
	vals    map[ssa.Value]wval
	changed bool
}

func isInt64(t types.Type) bool {
	b, ok := t.Underlying().(*types.Basic)
	return ok && b.Kind() == types.Int64
}

func isSignedInt(t types.Type) bool {
	b, ok := t.Underlying().(*types.Basic)
	return ok && b.Info()&types.IsInteger != 0 && b.Info()&types.IsUnsigned == 0
}

func isFloat(t types.Type) bool {
	b, ok := t.Underlying().(*types.Basic)
	return ok && b.Info()&types.IsFloat != 0
}

func constBits(k *ssa.Const) int {
	if k.Value == nil {
		return 0
	}
	v := constant.ToInt(k.Value)
	if v.Kind() != constant.Int {
		// non-integral float constant
		return -1
	}
	bi, ok := constant.Val(v).(*big.Int)
	if !ok {
		if i, ok2 := constant.Int64Val(v); ok2 {
			bi = big.NewInt(i)
		} else {
			return wCap
		}
	}
	return new(big.Int).Abs(bi).BitLen()
}

func maxw(a, b wval) wval {
	if a.k == wNone {
		return b
	}
	if b.k == wNone {
		return a
	}
	r := a
	if b.bits > r.bits {
		r.bits = b.bits
	}
	if b.k > r.k {
		r.k = b.k
	}
	return r
}

func (a *widthAnalysis) get(v ssa.Value) wval {
	switch x := v.(type) {
	case *ssa.Const:
		b := constBits(x)
		if isFloat(x.Type()) {
			if b < 0 {
				return wval{wInex, 1}
			}
			return wval{wIFlt, b}
		}
		if b < 0 {
			b = 0
		}
		return wval{wInt, b}
	case *ssa.Parameter:
		if p, ok := a.params[x]; ok {
			return p
		}
		return a.source(x.Type())
	case *ssa.FreeVar:
		return a.source(x.Type())
	}
	return a.vals[v]
}

// source: width of a value read from memory / handed in, by type.
func (a *widthAnalysis) source(t types.Type) wval {
	switch {
	case isInt64(t):
		return wval{wInt, a.w}
	case isSignedInt(t):
		return wval{wInt, 31}
	case isFloat(t):
		return wval{wInex, a.w + 1}
	}
	if b, ok := t.Underlying().(*types.Basic); ok && b.Info()&types.IsUnsigned != 0 {
		return wval{wNone, 0}
	}
	return wval{}
}

func capBits(b int) int {
	if b > wCap {
		return wCap
	}
	return b
}

func (a *widthAnalysis) set(v ssa.Value, n wval) {
	n.bits = capBits(n.bits)
	if o, ok := a.vals[v]; !ok || o != maxw(o, n) {
		a.vals[v] = maxw(a.vals[v], n)
		a.changed = true
	}
}

func runWidth(c *Ctx, w int) *widthAnalysis {
	a := &widthAnalysis{c: c, w: w, params: map[*ssa.Parameter]wval{}, rets: map[*ssa.Function][]wval{}, vals: map[ssa.Value]wval{}}
	funcs := c.srcFuncs()
	// API parameters: coordinates have w bits
	api := map[*ssa.Function]bool{}
	for _, e := range c.apiEntries() {
		api[e] = true
	}
	for iter := 0; iter < 400; iter++ {
		a.changed = false
		for _, f := range funcs {
			for _, p := range f.Params {
				if api[f] || f.Parent() != nil {
					if _, ok := a.params[p]; !ok {
						a.params[p] = a.source(p.Type())
						a.changed = true
					}
				}
			}
			for _, b := range f.Blocks {
				for _, in := range b.Instrs {
					a.instr(f, in)
				}
			}
		}
		if !a.changed {
			return a
		}
	}
	fatalf("WIDTH: no fixpoint")
	return nil
}

func (a *widthAnalysis) instr(f *ssa.Function, in ssa.Instruction) {
	switch v := in.(type) {
	case *ssa.BinOp:
		x, y := a.get(v.X), a.get(v.Y)
		t := v.Type()
		switch {
		case isSignedInt(t):
			if x.k == wNone {
				x = a.source(t)
			}
			if y.k == wNone {
				y = a.source(t)
			}
			r := wval{wInt, 0}
			switch v.Op {
			case token.ADD, token.SUB:
				r.bits = maxInt(x.bits, y.bits) + 1
			case token.MUL:
				r.bits = x.bits + y.bits
			case token.QUO:
				r.bits = x.bits
			case token.REM:
				r.bits = minInt(x.bits, y.bits)
			case token.AND:
				r.bits = minInt(x.bits, y.bits)
			case token.OR, token.XOR:
				r.bits = maxInt(x.bits, y.bits)
			case token.SHL:
				r.bits = x.bits + 64
			case token.SHR:
				r.bits = x.bits
			default:
				r.bits = maxInt(x.bits, y.bits)
			}
			if !isInt64(t) && r.bits > 31 {
				r.bits = 31 // `int` arithmetic: indices, counts, winding numbers (assumption, printed in evidence)
			}
			a.set(v, r)
		case isFloat(t):
			if x.k == wNone {
				x = wval{wInex, a.w + 1}
			}
			if y.k == wNone {
				y = wval{wInex, a.w + 1}
			}
			r := wval{wIFlt, 0}
			if x.k == wInex || y.k == wInex {
				r.k = wInex
			}
			switch v.Op {
			case token.ADD, token.SUB:
				r.bits = maxInt(x.bits, y.bits) + 1
			case token.MUL:
				r.bits = x.bits + y.bits
			case token.QUO:
				r.bits = x.bits
				r.k = wInex
			}
			if r.k == wIFlt && r.bits > 53 {
				r.k = wInex
			}
			a.set(v, r)
		}
	case *ssa.UnOp:
		switch v.Op {
		case token.SUB:
			a.set(v, a.get(v.X))
		case token.MUL: // load
			a.set(v, a.loadWidth(v))
		}
	case *ssa.Convert:
		x := a.get(v.X)
		from, to := v.X.Type(), v.Type()
		switch {
		case isSignedInt(to) && isSignedInt(from):
			if x.k == wNone {
				x = a.source(from)
			}
			a.set(v, x)
		case isSignedInt(to) && isFloat(from):
			// assumption: a float the library converts to a coordinate is of coordinate-difference magnitude
			a.set(v, wval{wInt, a.w + 1})
		case isFloat(to) && isSignedInt(from):
			if x.k == wNone {
				x = a.source(from)
			}
			r := wval{wIFlt, x.bits}
			if x.bits > 53 {
				r.k = wInex
			}
			a.set(v, r)
		case isFloat(to):
			a.set(v, wval{wInex, 64})
		case isSignedInt(to):
			a.set(v, a.source(to))
		}
	case *ssa.ChangeType:
		a.set(v, a.get(v.X))
	case *ssa.Phi:
		r := wval{}
		for _, e := range v.Edges {
			r = maxw(r, a.get(e))
		}
		if r.k != wNone {
			a.set(v, r)
		}
	case *ssa.Field:
		a.set(v, a.fieldWidth(v.X.Type(), v.Field, v.Type()))
	case *ssa.Index, *ssa.Lookup:
		a.set(v.(ssa.Value), a.source(v.(ssa.Value).Type()))
	case *ssa.Extract:
		if call, ok := v.Tuple.(*ssa.Call); ok {
			if sc := call.Call.StaticCallee(); sc != nil {
				if rs := a.rets[sc]; v.Index < len(rs) && rs[v.Index].k != wNone {
					a.set(v, rs[v.Index])
					return
				}
				if !a.c.inRepo(sc) && isSignedInt(v.Type()) {
					a.set(v, wval{wInt, a.w + 1}) // decimal.Int64 of a scaled float: coordinate magnitude
					return
				}
			}
		}
		a.set(v, a.source(v.Type()))
	case *ssa.Call:
		com := v.Call
		if calleeName(a.c, v) == "(int128).toFloat64" {
			a.set(v, wval{wIFlt, 2*a.w + 2})
			return
		}
		if sc := com.StaticCallee(); sc != nil && a.c.inRepo(sc) && sc.Blocks != nil {
			for i, p := range sc.Params {
				if i < len(com.Args) {
					aw := a.get(com.Args[i])
					if aw.k == wNone {
						aw = a.source(p.Type())
					}
					if aw.k != wNone {
						o, had := a.params[p]
						n := maxw(o, aw)
						n.bits = capBits(n.bits)
						if !had || o != n {
							a.params[p] = n
							a.changed = true
						}
					}
				}
			}
			if rs := a.rets[sc]; len(rs) == 1 && rs[0].k != wNone {
				a.set(v, rs[0])
				return
			}
			if sc.Signature.Results().Len() == 1 {
				// not yet known: leave unset this round (optimistic), the fixpoint revisits
				if _, ok := a.vals[v]; !ok {
					return
				}
			}
			return
		}
		name := calleeName(a.c, v)
		switch name {
		case "(int128).toFloat64":
			// the one rounding of an exact 128-bit integer: integer-valued, sign and zero-ness exact, up to 2w+2 bits
			a.set(v, wval{wIFlt, 2*a.w + 2})
			return
		case "math.Abs", "math.Round", "math.Floor", "math.Ceil", "math.Trunc", "math.RoundToEven":
			a.set(v, a.get(com.Args[0]))
			return
		case "builtin.len", "builtin.cap":
			a.set(v, wval{wInt, 31})
			return
		case "builtin.min", "builtin.max":
			r := wval{}
			for _, x := range com.Args {
				r = maxw(r, a.get(x))
			}
			a.set(v, r)
			return
		}
		if v.Type() != nil {
			if s := a.source(v.Type()); s.k != wNone {
				a.set(v, s)
			}
		}
	case *ssa.Return:
		rs := a.rets[f]
		if rs == nil {
			rs = make([]wval, len(v.Results))
		}
		for i, r := range v.Results {
			rw := a.get(r)
			if rw.k == wNone {
				continue
			}
			n := maxw(rs[i], rw)
			n.bits = capBits(n.bits)
			if n != rs[i] {
				rs[i] = n
				a.changed = true
			}
		}
		a.rets[f] = rs
	}
}

func maxInt(a, b int) int {
	if a > b {
		return a
	}
	return b
}
func minInt(a, b int) int {
	if a < b {
		return a
	}
	return b
}

func (a *widthAnalysis) fieldWidth(structT types.Type, idx int, ft types.Type) wval {
	if typeName(structT) == "int128" || typeName(structT) == "*int128" || typeName(structT) == "UInt128Struct" {
		return wval{wInt, 64}
	}
	return a.source(ft)
}

func (a *widthAnalysis) loadWidth(u *ssa.UnOp) wval {
	switch x := u.X.(type) {
	case *ssa.FieldAddr:
		return a.fieldWidth(x.X.Type(), x.Field, u.Type())
	}
	return a.source(u.Type())
}

// arithmetic sites of f (int64 ADD/SUB/MUL, unary minus) in source order with ordinals.
type arithSite struct {
	instr   ssa.Instruction
	op      string
	ordinal int
	bits    int
	x, y    int
}

func (a *widthAnalysis) sites(f *ssa.Function) []arithSite {
	var out []arithSite
	for _, b := range f.Blocks {
		for _, in := range b.Instrs {
			bo, ok := in.(*ssa.BinOp)
			if !ok || !isInt64(bo.Type()) {
				continue
			}
			if bo.Op != token.ADD && bo.Op != token.SUB && bo.Op != token.MUL {
				continue
			}
			out = append(out, arithSite{instr: bo, op: bo.Op.String(), bits: a.vals[bo].bits, x: a.get(bo.X).bits, y: a.get(bo.Y).bits})
		}
	}
	sort.SliceStable(out, func(i, j int) bool { return out[i].instr.Pos() < out[j].instr.Pos() })
	cnt := map[string]int{}
	for i := range out {
		cnt[out[i].op]++
		out[i].ordinal = cnt[out[i].op]
	}
	return out
}

var opName = map[string]string{"+": "add", "-": "sub", "*": "mul"}

// ruleWidth: no int64 +,-,* on coordinate-derived values exceeds 63 bits when coordinates have w bits.
func ruleWidth(rule string, w int, only []string, minSites int, why string) func(*Ctx) {
	return func(c *Ctx) {
		a := runWidth(c, w)
		var funcs []*ssa.Function
		if only == nil {
			funcs = c.srcFuncs()
		} else {
			for _, n := range only {
				funcs = append(funcs, c.fn(n))
			}
		}
		n := 0
		for _, f := range funcs {
			fn := c.fname(f)
			if strings.HasPrefix(fn, "(int128)") || fn == "mulInt64" || fn == "multiplyUInt64" {
				continue // the 128-bit helpers work on raw 64-bit limbs by design
			}
			ss := a.sites(f)
			bad := 0
			for _, s := range ss {
				n++
				if s.bits > 63 {
					bad++
					c.fail(rule, fmt.Sprintf("%s:%s:%s#%d", rule, fn, opName[s.op], s.ordinal), s.instr.Pos(), fn,
						fmt.Sprintf("int64 %s of a %d-bit and a %d-bit value needs %d bits when coordinates have %d bits: silent wrap-around", s.op, s.x, s.y, s.bits, w), why)
				}
			}
			if len(ss) > 0 && bad == 0 {
				mx := 0
				for _, s := range ss {
					if s.bits > mx {
						mx = s.bits
					}
				}
				c.pass(rule, fmt.Sprintf("%s:%s:int64-arith", rule, fn), f.Pos(), fn,
					fmt.Sprintf("%d int64 +,-,* sites; widest result %d bits <= 63 with %d-bit coordinates", len(ss), mx, w))
			}
			c.analysed[fn] = true
		}
		c.floor(rule, n, minSites)
		if c.tier == "thorough" && only == nil {
			// domain sweep: how many sites would overflow at each coordinate width, and the widest result per width
			for _, ww := range []int{16, 26, 29, 31, 52, 61, 62} {
				aw := runWidth(c, ww)
				over, widest := 0, 0
				for _, f := range funcs {
					fn := c.fname(f)
					if strings.HasPrefix(fn, "(int128)") || fn == "mulInt64" || fn == "multiplyUInt64" {
						continue
					}
					for _, s := range aw.sites(f) {
						if s.bits > 63 {
							over++
						}
						if s.bits > widest {
							widest = s.bits
						}
					}
				}
				c.note("%s sweep: coordinates of %d bits -> %d overflowing int64 sites, widest int64 result %d bits", rule, ww, over, widest)
			}
		}
		c.note("%s: coordinates have %d bits; float->int conversions are assumed to yield coordinate-difference magnitude (%d bits); `int` values (indices, counts, winding numbers) are assumed below 2^31", rule, w, w+1)
	}
}

// ruleExactFloat: inside the exact predicates no float operation may consume an integer-valued float beyond 53
// bits (C14: sign/zero of the cross product must be exact at 2^29), except the frozen conversion helper.
func ruleExactFloat(rule string, w int, fns []string, why string) func(*Ctx) {
	return func(c *Ctx) {
		a := runWidth(c, w)
		for _, name := range fns {
			f := c.fn(name)
			bad := ""
			var badPos token.Pos
			nf := 0
			for _, b := range f.Blocks {
				for _, in := range b.Instrs {
					bo, ok := in.(*ssa.BinOp)
					if !ok || !isFloat(bo.Type()) {
						continue
					}
					// multiplication preserves the sign and zero-ness of its operands in IEEE arithmetic (integers cannot
					// underflow); only addition/subtraction of rounded operands can cancel to a wrong sign or to zero
					if bo.Op != token.ADD && bo.Op != token.SUB {
						continue
					}
					nf++
					x, y := a.get(bo.X), a.get(bo.Y)
					r := a.vals[bo]
					intDerived := (x.k == wIFlt || y.k == wIFlt) || derivesFromIntConvert(bo.X) || derivesFromIntConvert(bo.Y)
					if intDerived && r.bits > 53 && bad == "" {
						bad = fmt.Sprintf("float64 %s combines integer-derived operands of %d and %d bits: the %d-bit result does not fit the 53-bit mantissa, so its sign/zero test is not exact at |coord| <= 2^%d", bo.Op, x.bits, y.bits, r.bits, w)
						badPos = bo.Pos()
					}
				}
			}
			if badPos == token.NoPos {
				badPos = f.Pos()
			}
			c.check(bad == "", rule, fmt.Sprintf("%s:%s", rule, name), badPos, name,
				fmt.Sprintf("%d float additions/subtractions; none combines integer-derived operands beyond 53 bits (coordinates %d bits); products keep sign and zero-ness", nf, w), bad, why)
		}
	}
}

func derivesFromIntConvert(v ssa.Value) bool {
	for i := 0; i < 6; i++ {
		switch x := v.(type) {
		case *ssa.Convert:
			return isSignedInt(x.X.Type()) && isFloat(x.Type())
		case *ssa.UnOp:
			if x.Op == token.SUB {
				v = x.X
				continue
			}
			return false
		case *ssa.BinOp:
			return derivesFromIntConvert(x.X) || derivesFromIntConvert(x.Y)
		default:
			return false
		}
	}
	return false
}

// ruleRoundTrip: no int -> float -> int round trip (through abs/neg only) of a value wider than 53 bits.
func ruleRoundTrip(rule string, w int) func(*Ctx) {
	return func(c *Ctx) {
		a := runWidth(c, w)
		n := 0
		for _, f := range c.srcFuncs() {
			fn := c.fname(f)
			cnt := 0
			for _, b := range f.Blocks {
				for _, in := range b.Instrs {
					cv, ok := in.(*ssa.Convert)
					if !ok || !isFloat(cv.X.Type()) {
						continue
					}
					bt, _ := cv.Type().Underlying().(*types.Basic)
					if bt == nil || bt.Info()&types.IsInteger == 0 {
						continue
					}
					// walk back through abs / neg
					v := cv.X
					for {
						if call, ok := v.(*ssa.Call); ok && calleeName(c, call) == "math.Abs" {
							v = call.Call.Args[0]
							continue
						}
						if u, ok := v.(*ssa.UnOp); ok && u.Op == token.SUB {
							v = u.X
							continue
						}
						break
					}
					src, ok := v.(*ssa.Convert)
					if !ok || !isSignedInt(src.X.Type()) {
						continue
					}
					n++
					cnt++
					bits := a.get(src.X).bits
					c.check(bits <= 53, rule, fmt.Sprintf("%s:%s:roundtrip#%d", rule, fn, cnt), cv.Pos(), fn,
						fmt.Sprintf("integer -> float64 -> integer round trip of a %d-bit value is exact", bits),
						fmt.Sprintf("integer -> float64 -> integer round trip of a %d-bit value drops low bits (float64 has 53)", bits),
						"the magnitude that comes back differs from the one that went in: equality tests on it (collinearity) are wrong for coordinates above 2^53")
				}
			}
		}
		c.note("%s: %d int->float->int round trips found", rule, n)
	}
}

// ruleExactNumerator: in a perpendicular-distance function (result = n*n / d) the squared value n must be exact
// in sign and zero-ness: either an integer-valued float within 53 bits or the result of int128.toFloat64.
func ruleExactNumerator(rule string, w int, fns []string, why string) func(*Ctx) {
	return func(c *Ctx) {
		a := runWidth(c, w)
		for _, name := range fns {
			f := c.fn(name)
			if !isInt64(f.Params[0].Type().Underlying().(*types.Struct).Field(0).Type()) {
				continue
			}
			bad := "no `n*n / d` return found"
			pos := f.Pos()
			for _, b := range f.Blocks {
				for _, in := range b.Instrs {
					r, ok := in.(*ssa.Return)
					if !ok || len(r.Results) != 1 {
						continue
					}
					squared := func(q *ssa.BinOp) ssa.Value {
						sq, ok := q.X.(*ssa.BinOp)
						if ok && sq.Op == token.MUL && sq.X == sq.Y {
							return sq.X
						} else if call, ok := q.X.(*ssa.Call); ok && strings.HasPrefix(calleeName(c, call), "sqr") {
							return call.Call.Args[0]
						} else if cv, ok := q.X.(*ssa.Convert); ok {
							return cv.X
						}
						return q.X
					}
					var n ssa.Value
					q, ok := r.Results[0].(*ssa.BinOp)
					if ok && q.Op == token.QUO {
						n = squared(q)
						pos = q.Pos()
					} else if hc, isCall := r.Results[0].(*ssa.Call); isCall && c.freshFunc(hc.Call.StaticCallee()) {
						// the division sits in a helper the reference record does not know (shared with the D variant):
						// the squared value is the argument bound to the parameter the helper squares
						h := hc.Call.StaticCallee()
						for _, hb := range h.Blocks {
							for _, hin := range hb.Instrs {
								hr, ok := hin.(*ssa.Return)
								if !ok || len(hr.Results) != 1 {
									continue
								}
								if hq, ok := hr.Results[0].(*ssa.BinOp); ok && hq.Op == token.QUO {
									if _, isP := squared(hq).(*ssa.Parameter); !isP && isFloat(squared(hq).Type()) {
										bad = fmt.Sprintf("the squared cross product is formed in float64 inside %s from operands that were converted one by one: beyond 53 bits a non-zero cross product can round to 0, so a vertex that is NOT collinear passes the epsilon=0 test", c.fname(h))
										pos = hc.Pos()
									}
									if hp, ok := squared(hq).(*ssa.Parameter); ok {
										for k, pp := range h.Params {
											if pp == hp && k < len(hc.Call.Args) {
												n = hc.Call.Args[k]
												pos = hc.Pos()
											}
										}
									}
								}
							}
						}
					}
					if n == nil {
						continue
					}
					switch v := n.(type) {
					case *ssa.Call:
						if calleeName(c, v) == "(int128).toFloat64" {
							bad = ""
						} else {
							bad = "the squared value comes from " + calleeName(c, v)
						}
					default:
						wv := a.get(n)
						if wv.k == wIFlt || (wv.k == wInt && wv.bits <= 63 && isInt64(n.Type()) && false) {
							bad = ""
						} else if wv.k == wInt {
							if wv.bits*2 > 63 {
								bad = fmt.Sprintf("the %d-bit integer cross product is squared in int64: %d bits needed", wv.bits, wv.bits*2)
							} else {
								bad = ""
							}
						} else {
							bad = fmt.Sprintf("the squared cross product is computed in float64 from integer operands (%d bits > 53): a non-zero cross product can round to 0, so a vertex that is NOT collinear passes the epsilon=0 test", wv.bits)
						}
					}
				}
			}
			c.check(bad == "", rule, fmt.Sprintf("%s:%s", rule, name), pos, name, "the squared cross product is exact in sign and zero-ness (128-bit product, single conversion)", bad, why)
		}
	}
}
