package main

import (
	"fmt"
	"path/filepath"
	"strings"

	"golang.org/x/tools/go/ssa"
)

// Positive controls: every run also analyses /verif/fixtures/fx and requires each detector a property relies on
// to fire on its Bad* function and stay silent on its Good* one. A control that does not fire is a checker error
// (exit 2): a detector that has gone blind must not report "no violation".

var fxCache *Ctx

func fixtures(verif string) *Ctx {
	if fxCache == nil {
		fxCache = loadModule(filepath.Join(verif, "fixtures", "fx"), "", "quick", "fx")
	}
	return fxCache
}

type control struct {
	name string
	run  func(fx *Ctx) (fired, silent bool, detail string)
}

var controlsByEngine = map[string]control{
	"RING": {"ring-walk polarity", func(fx *Ctx) (bool, bool, string) {
		bad := ringWalks(fx, fx.fn("BadRing"))
		good := ringWalks(fx, fx.fn("GoodRing"))
		return len(bad) == 1 && bad[0].bad, len(good) == 1 && !good[0].bad, "BadRing/GoodRing"
	}},
	"DEAD": {"SCCP dead mechanism", func(fx *Ctx) (bool, bool, string) {
		m := map[string]bool{"mech": true}
		bad := mechanismCalls(fx, fx.fn("BadDead"), m)
		good := mechanismCalls(fx, fx.fn("GoodDead"), m)
		return len(bad) == 1 && bad[0].dead, len(good) == 1 && !good[0].dead, "BadDead/GoodDead"
	}},
	"OWN": {"write effect through an input slice / package-level state", func(fx *Ctx) (bool, bool, string) {
		a := runOwn(fx)
		hit := map[string]bool{}
		for _, w := range a.writes {
			t := a.ptOf(w.target)
			if len(a.kinds(t, kInput)) > 0 || len(a.kinds(t, kGlobal)) > 0 {
				hit[fx.fname(w.fn)] = true
			}
		}
		return hit["BadWriteInput"] && hit["BadSortInput"] && hit["BadGlobal"], !hit["GoodCopyInput"], fmt.Sprint(hit)
	}},
	"WIDTH": {"int64 overflow site / float detour / round trip", func(fx *Ctx) (bool, bool, string) {
		a := runWidth(fx, 61)
		over := func(name string) bool {
			for _, s := range a.sites(fx.fn(name)) {
				if s.bits > 63 {
					return true
				}
			}
			return false
		}
		a29 := runWidth(fx, 29)
		inexact := false
		f := fx.fn("BadFloatCross")
		for _, b := range f.Blocks {
			for _, in := range b.Instrs {
				if bo, ok := in.(*ssa.BinOp); ok && isFloat(bo.Type()) && a29.vals[bo].bits > 53 {
					inexact = true
				}
			}
		}
		return over("BadCross") && inexact, !over("GoodDiff"), "BadCross/BadFloatCross/GoodDiff"
	}},
	"GUARD": {"negative make size / variable divisor / must-store", func(fx *Ctx) (bool, bool, string) {
		neg := func(name string) bool {
			f := fx.fn(name)
			for _, b := range f.Blocks {
				for _, in := range b.Instrs {
					if ms, ok := in.(*ssa.MakeSlice); ok {
						if !(bound(ms.Cap, b, 0, map[ssa.Value]bool{}).lo >= 0) {
							return true
						}
					}
				}
			}
			return false
		}
		ms := func(name string) bool {
			return mustStoreField(fx, fx.fn(name), "eng", "flag", map[*ssa.Function]int{})
		}
		return neg("BadMake") && !ms("(eng).BadMustStore"), !neg("GoodMake") && ms("(eng).GoodMustStore"), "BadMake/GoodMake, BadMustStore/GoodMustStore"
	}},
	"LIMB": {"limb polynomial identity (misplaced carry) / comparison of a wrapped product", func(fx *Ctx) (bool, bool, string) {
		bad := checkLimbSpec(fx, limbSpec{fn: "BadMul64", kind: limbProduct})
		good := checkLimbSpec(fx, limbSpec{fn: "GoodMul64", kind: limbProduct})
		cmp := checkLimbSpec(fx, limbSpec{fn: "BadProdEq", kind: limbProdEqual})
		return bad.bad != "" && good.splits == 5 && strings.Contains(cmp.bad, "wrapped"), good.bad == "", "BadMul64/BadProdEq/GoodMul64"
	}},
}

// engines a property's rules rely on (for which a control exists)
var propEngines = map[string][]string{
	"C01": {"RING", "DEAD"}, "C03": {"RING", "GUARD"}, "C06": {"DEAD"}, "C10": {"DEAD"}, "C12": {"OWN", "GUARD"},
	"C13": {"WIDTH", "LIMB"}, "C14": {"WIDTH", "LIMB"}, "C15": {"WIDTH", "LIMB"}, "C16": {"WIDTH"}, "C17": {"OWN"}, "C18": {"OWN"}, "C08": {}, "C02": {},
}

func runControls(p *propDef, verif string, c *Ctx) {
	engs := propEngines[p.id]
	if len(engs) == 0 {
		return
	}
	fx := fixtures(verif)
	for _, e := range engs {
		ctl := controlsByEngine[e]
		fired, silent, detail := ctl.run(fx)
		if !fired {
			fatalf("positive control %s (%s) did not fire on %s: the detector is blind", e, ctl.name, detail)
		}
		if !silent {
			fatalf("negative control %s (%s) fired on the good fixture %s: the detector is too eager", e, ctl.name, detail)
		}
		c.controls = append(c.controls, fmt.Sprintf("%s: %s — fires on the bad fixture, silent on the good one (%s)", e, ctl.name, detail))
	}
}
