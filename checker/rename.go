package main

import (
	"encoding/json"
	"fmt"
	"go/token"
	"go/types"
	"os"
	"sort"
	"strings"

	"golang.org/x/tools/go/ssa"
)

// RENAME — anchors survive a renamed function.
//
// The rule tables name functions. A maintainer who renames doSplitOp to splitRing changes no behaviour, and a
// checker that answers "anchor no longer resolves" raises a false alarm. /verif/anchors.json records, for every
// function declared on the reference tree, a fingerprint: its signature (types only) and the sets of callees and
// struct fields it touches. When a recorded name is missing from the tree under analysis and a function that is
// NOT in the record has the same signature and the most similar fingerprint, that function is taken to be the
// renamed one: everywhere in the checker it goes by its recorded name (fname, callee names in path renderings,
// AST declarations), and the evidence lists the substitution.

var anchorsPath string

type anchorFP struct {
	Sig     string   `json:"sig,omitempty"`
	Callees []string `json:"callees,omitempty"`
	Fields  []string `json:"fields,omitempty"`
	Layout  []string `json:"layout,omitempty"` // for "type T" entries: "name type" per field, in order
}

// structLayouts: every named struct type declared in the package.
func (c *Ctx) structLayouts() map[string]*types.Struct {
	out := map[string]*types.Struct{}
	sc := c.tpkg.Scope()
	for _, n := range sc.Names() {
		if tn, ok := sc.Lookup(n).(*types.TypeName); ok {
			if st, ok := tn.Type().Underlying().(*types.Struct); ok {
				out[n] = st
			}
		}
	}
	return out
}

// resolveFieldRenames: a recorded field name that is gone, at a position (or with a type) where the struct now has a
// field the record does not know, is the same field under a new name.
func (c *Ctx) resolveFieldRenames(rec map[string]anchorFP) {
	q := func(p *types.Package) string { return p.Name() }
	for tn, st := range c.structLayouts() {
		want, ok := rec["type "+tn]
		if !ok {
			continue
		}
		type fld struct{ name, typ string }
		var old []fld
		for _, l := range want.Layout {
			i := strings.Index(l, " ")
			old = append(old, fld{l[:i], l[i+1:]})
		}
		curByName := map[string]bool{}
		for i := 0; i < st.NumFields(); i++ {
			curByName[st.Field(i).Name()] = true
		}
		oldByName := map[string]bool{}
		for _, o := range old {
			oldByName[o.name] = true
		}
		var gone []fld
		for _, o := range old {
			if !curByName[o.name] {
				gone = append(gone, o)
			}
		}
		var fresh []*types.Var
		for i := 0; i < st.NumFields(); i++ {
			if !oldByName[st.Field(i).Name()] {
				fresh = append(fresh, st.Field(i))
			}
		}
		for _, g := range gone {
			var cands []*types.Var
			for _, v := range fresh {
				if types.TypeString(v.Type(), q) == g.typ {
					cands = append(cands, v)
				}
			}
			var pick *types.Var
			if len(cands) == 1 {
				pick = cands[0]
			} else if len(cands) > 1 && len(old) == st.NumFields() {
				// same position
				for i, o := range old {
					if o.name == g.name {
						for _, v := range cands {
							if st.Field(i) == v {
								pick = v
							}
						}
					}
				}
			}
			if pick != nil {
				fieldAlias[pick] = g.name
				c.note("field %s.%s is gone; %s.%s has its type and place — read as the renamed %s", tn, g.name, tn, pick.Name(), g.name)
				for i, v := range fresh {
					if v == pick {
						fresh = append(fresh[:i], fresh[i+1:]...)
						break
					}
				}
			}
		}
	}
}

func (c *Ctx) rawName(f *ssa.Function) string {
	if f == nil {
		return "?"
	}
	if f.Parent() != nil {
		return c.rawName(f.Parent()) + "$" + strings.TrimPrefix(f.Name(), f.Parent().Name()+"$")
	}
	if recv := f.Signature.Recv(); recv != nil {
		t := recv.Type()
		if p, ok := t.(*types.Pointer); ok {
			t = p.Elem()
		}
		if n, ok := t.(*types.Named); ok {
			return "(" + n.Obj().Name() + ")." + f.Name()
		}
	}
	return f.Name()
}

func (c *Ctx) fingerprint(f *ssa.Function) anchorFP {
	q := func(p *types.Package) string { return p.Name() }
	var sig []string
	if r := f.Signature.Recv(); r != nil {
		sig = append(sig, "recv "+types.TypeString(r.Type(), q))
	}
	for i := 0; i < f.Signature.Params().Len(); i++ {
		sig = append(sig, types.TypeString(f.Signature.Params().At(i).Type(), q))
	}
	sig = append(sig, "->")
	for i := 0; i < f.Signature.Results().Len(); i++ {
		sig = append(sig, types.TypeString(f.Signature.Results().At(i).Type(), q))
	}
	cs, fs := map[string]bool{}, map[string]bool{}
	var walk func(g *ssa.Function)
	walk = func(g *ssa.Function) {
		for _, b := range g.Blocks {
			for _, in := range b.Instrs {
				switch x := in.(type) {
				case ssa.CallInstruction:
					if sc := x.Common().StaticCallee(); sc != nil {
						if sc.Pkg == c.spkg || c.inRepo(sc) {
							cs[c.rawName(sc)] = true
						} else if sc.Pkg != nil {
							cs[sc.Pkg.Pkg.Name()+"."+sc.Name()] = true
						}
					} else if bi, ok := x.Common().Value.(*ssa.Builtin); ok {
						cs["builtin."+bi.Name()] = true
					}
				case *ssa.FieldAddr:
					fs[typeName(x.X.Type())+"."+fieldName(x.X.Type(), x.Field)] = true
				case *ssa.Field:
					fs[typeName(x.X.Type())+"."+fieldName(x.X.Type(), x.Field)] = true
				}
			}
		}
		for _, a := range g.AnonFuncs {
			walk(a)
		}
	}
	walk(f)
	fp := anchorFP{Sig: strings.Join(sig, ",")}
	for k := range cs {
		fp.Callees = append(fp.Callees, k)
	}
	for k := range fs {
		fp.Fields = append(fp.Fields, k)
	}
	sort.Strings(fp.Callees)
	sort.Strings(fp.Fields)
	return fp
}

// declared: every function and method declared in the package (no closures), by current name.
func (c *Ctx) declared() map[string]*ssa.Function {
	out := map[string]*ssa.Function{}
	for _, obj := range c.info.Defs {
		if fo, ok := obj.(*types.Func); ok {
			if f := c.prog.FuncValue(fo); f != nil && f.Blocks != nil {
				out[c.rawName(f)] = f
			}
		}
	}
	return out
}

func genAnchors(c *Ctx, path string) {
	m := map[string]anchorFP{}
	for n, f := range c.declared() {
		m[n] = c.fingerprint(f)
	}
	q := func(p *types.Package) string { return p.Name() }
	for tn, st := range c.structLayouts() {
		var lay []string
		for i := 0; i < st.NumFields(); i++ {
			lay = append(lay, st.Field(i).Name()+" "+types.TypeString(st.Field(i).Type(), q))
		}
		m["type "+tn] = anchorFP{Layout: lay}
	}
	b, _ := json.MarshalIndent(m, "", " ")
	if err := os.WriteFile(path, append(b, '\n'), 0o644); err != nil {
		fatalf("write %s: %v", path, err)
	}
	fmt.Printf("%d anchors written to %s\n", len(m), path)
}

func jaccard(a, b []string) float64 {
	sa := map[string]bool{}
	for _, x := range a {
		sa[x] = true
	}
	inter, union := 0, len(sa)
	for _, x := range b {
		if sa[x] {
			inter++
		} else {
			union++
		}
	}
	if union == 0 {
		return 1
	}
	return float64(inter) / float64(union)
}

// resolveRenames fills c.alias (function -> recorded name) for recorded names missing from this tree.
func (c *Ctx) resolveRenames() {
	c.alias = map[*ssa.Function]string{}
	c.byAlias = map[string]*ssa.Function{}
	if anchorsPath == "" {
		return
	}
	b, err := os.ReadFile(anchorsPath)
	if err != nil {
		return // no record: names are taken as they are
	}
	var rec map[string]anchorFP
	if json.Unmarshal(b, &rec) != nil {
		fatalf("%s is not a valid anchors file", anchorsPath)
	}
	c.recorded = map[string]bool{}
	for n := range rec {
		c.recorded[n] = true
	}
	c.resolveFieldRenames(rec)
	cur := c.declared()
	var missing []string
	for n := range rec {
		if strings.HasPrefix(n, "type ") {
			continue
		}
		if cur[n] == nil {
			missing = append(missing, n)
		}
	}
	sort.Strings(missing)
	fresh := map[string]*ssa.Function{}
	for n, f := range cur {
		if _, known := rec[n]; !known {
			fresh[n] = f
		}
	}
	for _, m := range missing {
		want := rec[m]
		best, second := "", ""
		bs, ss := -1.0, -1.0
		var names []string
		for n := range fresh {
			names = append(names, n)
		}
		sort.Strings(names)
		base := func(n string) string {
			if i := strings.Index(n, ")."); i >= 0 {
				return n[i+2:]
			}
			return n
		}
		for _, n := range names {
			fp := c.fingerprint(fresh[n])
			s := 0.5*jaccard(want.Callees, fp.Callees) + 0.5*jaccard(want.Fields, fp.Fields)
			if len(want.Callees) == 0 && len(fp.Callees) == 0 {
				s = jaccard(want.Fields, fp.Fields) // "neither calls anything" is no evidence of identity
			}
			if fp.Sig != want.Sig {
				// another signature: only the same function under the same name in another form (a method that
				// became a plain function or the reverse, parameters added, removed or reordered)
				if base(n) != base(m) || s < 0.5 {
					continue
				}
				s += 0.2
			}
			if s > bs {
				second, ss = best, bs
				best, bs = n, s
			} else if s > ss {
				second, ss = n, s
			}
		}
		_ = second
		if best != "" && bs >= 0.55 && bs-ss >= 0.1 {
			f := fresh[best]
			c.alias[f] = m
			c.byAlias[m] = f
			delete(fresh, best)
			c.note("function %s is not declared any more; %s has its signature and %.0f%% of its callees and fields — analysed as the renamed %s", m, best, bs*100, m)
			if d, ok := c.decls[best]; ok {
				c.decls[m] = d
			}
		}
	}
	// second chance, by the struct fields alone: a function whose callees changed with it (a helper it called was
	// inlined or dropped) but which still touches the same fields under the same signature
	for _, m := range missing {
		if c.byAlias[m] != nil {
			continue
		}
		want := rec[m]
		if len(want.Fields) < 3 {
			continue
		}
		best, bs, ss := "", -1.0, -1.0
		var names []string
		for n := range fresh {
			names = append(names, n)
		}
		sort.Strings(names)
		for _, n := range names {
			fp := c.fingerprint(fresh[n])
			if fp.Sig != want.Sig {
				continue
			}
			sc := jaccard(want.Fields, fp.Fields)
			if sc > bs {
				ss, best, bs = bs, n, sc
			} else if sc > ss {
				ss = sc
			}
		}
		if best != "" && bs >= 0.6 && bs-ss >= 0.2 {
			f := fresh[best]
			c.alias[f] = m
			c.byAlias[m] = f
			delete(fresh, best)
			c.note("function %s is not declared any more; %s has its signature and %.0f%% of its fields (its callees changed) — analysed as the renamed %s", m, best, bs*100, m)
			if d, ok := c.decls[best]; ok {
				c.decls[m] = d
			}
		}
	}
	c.resolveMergedWrappers(rec, cur, missing)
}

// resolveMergedWrappers: a recorded function m that is gone and was not renamed may have been merged into the
// pass-through wrapper that used to call it (addPaths -> baseAddPaths inlined into addPaths). When exactly one
// recorded function W with m's signature, still declared, used to call m and now has m's callees and fields, the
// name m resolves to W as well (W keeps going by its own name).
func (c *Ctx) resolveMergedWrappers(rec map[string]anchorFP, cur map[string]*ssa.Function, missing []string) {
	for _, m := range missing {
		if c.byAlias[m] != nil {
			continue
		}
		want := rec[m]
		var cands []string
		for w, fp := range rec {
			if strings.HasPrefix(w, "type ") || cur[w] == nil || fp.Sig != want.Sig || len(fp.Callees) > 2 {
				continue
			}
			calls := false
			for _, cal := range fp.Callees {
				if cal == m {
					calls = true
				}
			}
			if !calls {
				continue
			}
			now := c.fingerprint(cur[w])
			if 0.5*jaccard(want.Callees, now.Callees)+0.5*jaccard(want.Fields, now.Fields) >= 0.3 { // candidates are already narrowed by signature and the recorded delegation
				cands = append(cands, w)
			}
		}
		if len(cands) == 1 {
			w := cands[0]
			c.byAlias[m] = cur[w]
			if d, ok := c.decls[w]; ok {
				c.decls[m] = d
			}
			c.note("function %s is not declared any more; its body now sits in %s, which used to delegate to it — anchors naming %s are read in %s", m, w, m, w)
		}
	}
}

// freshHelper: an unexported, loop-free function of the package that the reference record does not know and that
// was not identified as a renamed one — code the change under analysis moved out of its callers.
func (c *Ctx) freshHelper(g *ssa.Function) bool {
	if c.recorded == nil || g == nil || g.Blocks == nil || g.Parent() != nil || !c.inRepo(g) {
		return false
	}
	if v, ok := c.freshMemo[g]; ok {
		return v
	}
	if c.freshMemo == nil {
		c.freshMemo = map[*ssa.Function]bool{}
	}
	res := false
	if _, aliased := c.alias[g]; !aliased && !c.recorded[c.rawName(g)] && !token.IsExported(g.Name()) {
		res = true
		n := 0
		for _, b := range g.Blocks {
			n += len(b.Instrs)
			for _, s := range b.Succs {
				if s.Dominates(b) {
					res = false // loops are kept as calls
				}
			}
		}
		if n > 150 {
			res = false
		}
	}
	c.freshMemo[g] = res
	return res
}
