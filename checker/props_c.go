package main

import (
	"fmt"
	"go/ast"
	"go/token"
	"go/types"
	"sort"
	"strings"

	"golang.org/x/tools/go/ssa"
)

// Offsetting (C05, C10) and Minkowski (C08) tables, open-edge skipping in winding scans (C09).

func enumAtomValues(c *Ctx, typ string) []enumConst {
	es := c.enumValues(typ)
	return append(append([]enumConst{}, es...), enumConst{"other", es[len(es)-1].val + 1})
}

// ruleJoinDispatch: C05.join — offsetPoint's dispatch over JoinType.
func ruleJoinDispatch(rule string) func(*Ctx) {
	return func(c *Ctx) {
		f := c.fn("(ClipperOffset).offsetPoint")
		if !loopFree(f) {
			fatalf("offsetPoint is no longer loop-free")
		}
		co := f.Params[0].Name()
		ctors := map[string]string{"(ClipperOffset).doMiter": "doMiter", "(ClipperOffset).doSquare": "doSquare", "(ClipperOffset).doBevel": "doBevel", "(ClipperOffset).doRound": "doRound"}
		want := map[string][]string{"Miter": {"concave", "doMiter", "doSquare"}, "Square": {"concave", "doMiter", "doSquare"}, "Bevel": {"concave", "doBevel", "doMiter"}, "Round": {"concave", "doRound"}}
		for _, jt := range c.enumValues("JoinType") {
			ex := &explorer{c: c, f: f, atoms: map[string]absVal{co + ".joinType": intVal(jt.val), co + ".deltaCallback": {k: aNil}}, canon: canonParams(f, co, "group", "path", "j", "k")}
			outs := ex.explore(nil)
			if m := opaqueMentionsAtom(outs, map[string]absVal{co + ".joinType": {}}); m != "" {
				fatalf("offsetPoint: %s", m)
			}
			got := map[string]bool{}
			bad := ""
			for _, p := range outs {
				var made []string
				nPerp := 0
				for _, cl := range p.calls {
					if n, ok := ctors[cl.callee]; ok {
						made = append(made, n)
					}
					if cl.callee == "(ClipperOffset).getPerpendic" {
						nPerp++
					}
				}
				switch {
				case len(made) == 0 && nPerp == 2:
					got["concave"] = true
					// concave arm: perp(prev normal), vertex, perp(current normal)
					var perps []callRec
					for _, cl := range p.calls {
						if cl.callee == "(ClipperOffset).getPerpendic" {
							perps = append(perps, cl)
						}
					}
					n0, n1 := roleArg(perps[0], "norm", 2).expr, roleArg(perps[1], "norm", 2).expr
					if !strings.HasSuffix(n0, "normals[*k]") || !strings.HasSuffix(n1, "normals[j]") {
						bad = fmt.Sprintf("concave arm emits perpendiculars for %s then %s, want previous normal (normals[*k]) then current (normals[j])", n0, n1)
					}
				case len(made) == 1 && nPerp == 0:
					got[made[0]] = true
					if made[0] == "doMiter" && jt.name != "Miter" {
						// only through the near-straight shortcut: some `cos > K` with K >= 0.9 taken true
						ok := false
						for _, cd := range p.conds {
							if cd.taken && strings.Contains(cd.expr, "dotProductD(") && strings.Contains(cd.expr, " > 0.9") {
								ok = true
							}
						}
						if !ok {
							bad = "doMiter is reached for join type " + jt.name + " outside the near-straight shortcut (path: " + p.condString() + ")"
						}
					}
				case len(made) == 0 && nPerp == 0:
					// early exits: duplicate point, or |groupDelta| < Tolerance (vertex copied)
				default:
					bad = fmt.Sprintf("a path builds %v plus %d perpendiculars (path: %s)", made, nPerp, p.condString())
				}
				// every non-duplicate path must finish with *k = j
				if len(p.conds) > 0 && !(p.conds[0].taken && strings.Contains(p.conds[0].expr, "path[j] == path[*k]")) {
					last := ""
					for _, s := range p.stores {
						if s.addr == "*k" {
							last = s.val.expr
						}
					}
					if last != "j" && !(nPerp == 0 && len(made) == 0) {
						bad = "a constructing path does not finish with *k = j"
					}
				}
			}
			var gl []string
			for g := range got {
				gl = append(gl, g)
			}
			sort.Strings(gl)
			w := append([]string{}, want[jt.name]...)
			sort.Strings(w)
			if bad == "" && strings.Join(gl, ",") != strings.Join(w, ",") {
				bad = fmt.Sprintf("join type %s can build {%s}; the property's table is {%s}", jt.name, strings.Join(gl, ","), strings.Join(w, ","))
			}
			c.check(bad == "", rule, fmt.Sprintf("%s:offsetPoint:%s", rule, jt.name), f.Pos(), "(ClipperOffset).offsetPoint",
				fmt.Sprintf("join type %s builds exactly {%s} over %d paths", jt.name, strings.Join(w, ","), len(outs)), bad,
				"the outer bound k*delta depends on the join constructor: Bevel routed to doSquare gives sqrt2*delta where the property demands delta; Round built with doMiter is not an arc")
		}
	}
}

// ruleGroupDelta: C05.sign — sign of the group delta and direction of the arc step.
func ruleGroupDelta(rule string) func(*Ctx) {
	return func(c *Ctx) {
		f := c.fn("(ClipperOffset).doGroupOffset")
		loops := naturalLoops(f)
		if len(loops) == 0 {
			fatalf("doGroupOffset: no loop found")
		}
		co, group := f.Params[0].Name(), f.Params[1].Name()
		hdrs := map[*ssa.BasicBlock]bool{}
		for _, l := range loops {
			hdrs[l.header] = true
		}
		ets := c.enumValues("EndType")
		for _, et := range ets {
			for _, rev := range []bool{false, true} {
				ex := &explorer{c: c, f: f, atoms: map[string]absVal{group + ".endType": intVal(et.val), group + ".pathsReversed": boolVal(rev)},
					stop: func(b *ssa.BasicBlock) bool { return hdrs[b] }}
				outs := ex.explore(nil)
				want := "math.Abs(" + co + ".delta)"
				if et.name == "Polygon" {
					want = co + ".delta"
					if rev {
						want = "-" + co + ".delta"
					}
				}
				bad := ""
				for _, p := range outs {
					got := ""
					for _, s := range p.stores {
						if s.addr == co+".groupDelta" {
							got = s.val.v()
						}
					}
					w := want
					for _, cd := range p.conds {
						if cd.taken && strings.Contains(cd.expr, "lowestPathIdx < 0") {
							// no lowest path: delta itself was made positive first
							w = strings.Replace(want, co+".delta", "math.Abs("+co+".delta)", 1)
						}
					}
					if got != w && bad == "" {
						bad = fmt.Sprintf("groupDelta = %s, want %s", got, w)
					}
					// arc direction: stepSin is negated exactly under groupDelta < 0
					for _, s := range p.stores {
						if s.addr == co+".stepSin" && strings.HasPrefix(s.val.expr, "-") {
							ok := false
							for _, cd := range p.conds {
								if cd.taken && cd.expr == "("+co+".groupDelta < 0)" {
									ok = true
								}
							}
							if !ok && bad == "" {
								bad = "the arc step direction (stepSin = -stepSin) is not decided by groupDelta < 0 (path: " + p.condString() + ")"
							}
						}
					}
				}
				if et.name != "Polygon" && rev {
					continue // pathsReversed is only defined for polygons
				}
				c.check(bad == "", rule, fmt.Sprintf("%s:doGroupOffset:%s/reversed=%v", rule, et.name, rev), f.Pos(), "(ClipperOffset).doGroupOffset",
					fmt.Sprintf("end type %s, pathsReversed=%v: groupDelta = %s; arcs turn with the sign of groupDelta", et.name, rev, want), bad,
					"a negatively oriented polygon set must be offset with -delta (and its arcs turned the other way), open paths with |delta|: the wrong sign shrinks what should grow")
			}
		}
		// same direction rule in doRound's per-vertex recomputation
		g := c.fn("(ClipperOffset).doRound")
		if h := fnWithStoreTo(c, g, "ClipperOffset", "stepSin", 0); h != nil {
			g = h // the arc-step set-up may have been moved into a helper
		}
		bad := ""
		n := 0
		for _, b := range g.Blocks {
			for _, in := range b.Instrs {
				st, ok := in.(*ssa.Store)
				if !ok {
					continue
				}
				fa, ok := st.Addr.(*ssa.FieldAddr)
				if !ok || fieldName(fa.X.Type(), fa.Field) != "stepSin" {
					continue
				}
				if u, ok := st.Val.(*ssa.UnOp); ok && u.Op == token.SUB {
					n++
					if !guardedBy(st, true, func(v ssa.Value) bool {
						bo, ok := v.(*ssa.BinOp)
						return ok && bo.Op == token.LSS && isGroupDelta(c, bo.X)
					}) {
						bad = "doRound negates stepSin under a condition that is not groupDelta < 0"
					}
				}
			}
		}
		c.check(bad == "" && n > 0, rule, rule+":doRound:arc-direction", g.Pos(), "(ClipperOffset).doRound", "stepSin is negated exactly when groupDelta < 0", bad+map[bool]string{true: "", false: " (no negation found)"}[n > 0],
			"round joins of a shrinking (or reversed) polygon must be traversed in the opposite rotational direction")
		// NewGroup: pathsReversed and the closed-path flag
		ng := c.fn("NewGroup")
		for _, et := range ets {
			ex := &explorer{c: c, f: ng, canon: canonParams(ng, "paths", "joinType", "endTypeVal"), atomFn: func(e string) (absVal, bool) {
				if e == "endTypeVal[0]" {
					return intVal(et.val), true
				}
				if e == "len(endTypeVal)" {
					return intVal(1), true
				}
				return absVal{}, false
			}, stop: nil}
			outs := ex.explore(nil)
			bad := ""
			stripSeen := false
			for _, p := range outs {
				for _, cl := range p.calls {
					// the stripping loop may have been moved into a helper that receives the closed flag
					if cl.instr != nil && cl.callee != "StripDuplicates" {
						if h := cl.instr.Common().StaticCallee(); h != nil && c.freshFunc(h) {
							for _, sc := range callsTo(c, h, "StripDuplicates") {
								if hp, ok := sc.Common().Args[1].(*ssa.Parameter); ok {
									for k, q := range h.Params {
										if q == hp && k < len(cl.args) {
											wantClosed := et.name == "Polygon" || et.name == "Joined"
											if cl.args[k].abs.k != aBool || cl.args[k].abs.b != wantClosed {
												bad = fmt.Sprintf("%s(…, %s) for end type %s: the paths are stripped as %s", c.fname(h), cl.args[k].expr, et.name, map[bool]string{true: "open although they are closed/joined", false: "closed although they are open polylines (a last point equal to the first is dropped, the closing segment is never stroked)"}[wantClosed])
											}
											stripSeen = true
										}
									}
								}
							}
						}
					}
					if cl.callee == "StripDuplicates" {
						stripSeen = true
						wantClosed := et.name == "Polygon" || et.name == "Joined"
						if cl.args[1].abs.k != aBool || cl.args[1].abs.b != wantClosed {
							bad = fmt.Sprintf("StripDuplicates(path, %s) for end type %s: the path is treated as %s", cl.args[1].expr, et.name, map[bool]string{true: "open although it is closed/joined", false: "closed although it is an open polyline (a last point equal to the first is dropped, the closing segment is never stroked)"}[wantClosed])
						}
					}
				}
				if p.end == "return" {
					rev := ""
					for _, s := range p.stores {
						if strings.HasSuffix(s.addr, ".pathsReversed") {
							rev = s.val.expr
						}
					}
					if rev == "" && allocatesFresh(ng, "Group") {
					rev = "false" // never stored: the freshly allocated Group keeps the zero value
				}
				if et.name != "Polygon" && rev != "false" {
						bad = "pathsReversed = " + rev + " for a non-polygon group"
					}
					if et.name == "Polygon" {
						geTaken := false
						for _, cd := range p.conds {
							if strings.Contains(cd.expr, ">= 0)") && cd.taken {
								geTaken = true
							}
						}
						if geTaken && !strings.HasSuffix(rev, "GetLowestPathInfo(&complit)#1") && !strings.HasSuffix(rev, "#1") {
							bad = "pathsReversed for polygons with a lowest path is " + rev + ", want the isNegArea result of GetLowestPathInfo"
						}
						if !geTaken && rev != "false" {
							bad = "pathsReversed is " + rev + " although no lowest path exists"
						}
					}
				}
			}
			if !stripSeen && bad == "" {
				bad = "no path of NewGroup strips the paths' repeated points (StripDuplicates, directly or through a helper that is handed the closed flag)"
			}
			c.check(bad == "", rule, fmt.Sprintf("%s:NewGroup:%s", rule, et.name), ng.Pos(), "NewGroup",
				fmt.Sprintf("end type %s: duplicates stripped as %s path; pathsReversed only for polygons with a negative lowest path", et.name, map[bool]string{true: "closed", false: "open"}[et.name == "Polygon" || et.name == "Joined"]), bad,
				"whether the closing point is a duplicate depends on the end type; orientation reversal is only meaningful for polygons")
		}
		// GetLowestPathInfo: the area sentinel is per path
		lp := c.fn("(Group).GetLowestPathInfo")
		if len(naturalLoops(lp)) == 0 { // the scan may have been moved into a function of the paths alone
			for _, g := range freshRegion(c, lp)[1:] {
				if len(naturalLoops(g)) == 2 {
					lp = g
				}
			}
		}
		bad = lowestSentinel(lp)
		if bad == "" {
			bad = lowestStart(c, lp)
		}
		c.check(bad == "", rule, rule+":GetLowestPathInfo:per-path-area", lp.Pos(), "(Group).GetLowestPathInfo",
			"the area sign is taken from the path that owns the lowest point (sentinel re-armed for every path)", bad,
			"orientation of the whole group is the orientation of the path with the lowest vertex; taking it from another path flips delta and the fill rule when a hole is listed first")
	}
}

func lowestSentinel(f *ssa.Function) string {
	loops := naturalLoops(f)
	if len(loops) != 2 {
		return fmt.Sprintf("expected two nested loops, found %d", len(loops))
	}
	inner, outer := loops[0], loops[1]
	if len(inner.blocks) > len(outer.blocks) {
		inner, outer = outer, inner
	}
	// The area is computed at most once per path: some loop-carried variable (a float sentinel, a bool flag) remembers
	// that it has been. That memo must be re-armed for every path: it is a phi of the INNER header whose value on
	// entry to the inner loop is a constant. A memo carried by the outer loop keeps the first path's area for all.
	isArea := func(v ssa.Value) bool {
		c, ok := v.(*ssa.Call)
		return ok && c.Common().StaticCallee() != nil && c.Common().StaticCallee().Name() == "Area64"
	}
	var memoLike func(v ssa.Value, seen map[ssa.Value]bool) bool
	memoLike = func(v ssa.Value, seen map[ssa.Value]bool) bool {
		if seen[v] {
			return false
		}
		seen[v] = true
		if isArea(v) {
			return true
		}
		if k, ok := v.(*ssa.Const); ok {
			return k.Value != nil
		}
		if ph, ok := v.(*ssa.Phi); ok {
			for _, e := range ph.Edges {
				if _, isC := e.(*ssa.Const); !isC && !isArea(e) {
					if _, isP := e.(*ssa.Phi); !isP {
						return false
					}
				}
			}
			some := false
			for _, e := range ph.Edges {
				if memoLike(e, seen) {
					some = true
				}
			}
			return some
		}
		return false
	}
	found := 0
	for _, b := range inner.ordered() {
		ifi, ok := b.Instrs[len(b.Instrs)-1].(*ssa.If)
		if !ok {
			continue
		}
		var ph *ssa.Phi
		switch x := ifi.Cond.(type) {
		case *ssa.Phi:
			ph = x
		case *ssa.UnOp:
			ph, _ = x.X.(*ssa.Phi)
		case *ssa.BinOp:
			if _, isC := x.Y.(*ssa.Const); isC {
				ph, _ = x.X.(*ssa.Phi)
			} else if _, isC := x.X.(*ssa.Const); isC {
				ph, _ = x.Y.(*ssa.Phi)
			}
		}
		if ph == nil || !memoLike(ph, map[ssa.Value]bool{}) {
			continue
		}
		// does this test guard the area computation? (the call sits in a block reached only through this If)
		guards := false
		for _, bb := range inner.ordered() {
			for _, in := range bb.Instrs {
				if v, ok := in.(ssa.Value); ok && isArea(v) && b.Dominates(bb) && bb != b {
					guards = true
				}
			}
		}
		if !guards {
			continue
		}
		found++
		if ph.Block() != inner.header {
			if outer.blocks[ph.Block()] && !inner.blocks[ph.Block()] {
				return "the 'area already computed' memo is carried by the OUTER loop: it is armed once for all paths, so the area of the first path decides the group's orientation"
			}
			continue
		}
		for i, e := range ph.Edges {
			if !inner.blocks[ph.Block().Preds[i]] {
				if _, ok := e.(*ssa.Const); !ok {
					return "the 'area already computed' memo is not re-armed for every path (its value on entry to the per-path loop is " + e.Name() + ", carried over from the previous path): the area of the first path decides the group's orientation"
				}
			}
		}
	}
	_ = found // no memo at all: the area is recomputed whenever it is needed, which is fine
	return ""
}

// ruleOffsetUnion: C05.union + C05.small.
func ruleOffsetUnion(rule string) func(*Ctx) {
	return func(c *Ctx) {
		f := c.fn("(ClipperOffset).executeInternal")
		fEntry := f
		// the unexported checkPathsReversed and the exported CheckPathsReversed are the same routine on the reference
		// tree; either may be the one called
		cpr := "(ClipperOffset).checkPathsReversed"
		if fnWithCallsTo(c, f, cpr, 0) == nil && fnWithCallsTo(c, f, "(ClipperOffset).CheckPathsReversed", 0) != nil {
			cpr = "(ClipperOffset).CheckPathsReversed"
		}
		if h := fnWithCallsTo(c, f, cpr, 0); h != nil {
			f = h // the union step may have been moved into a helper of executeInternal
		}
		co := f.Params[0].Name()
		var from *ssa.BasicBlock
		for _, ci := range callsTo(c, f, cpr) {
			from = ci.Block()
		}
		if from == nil {
			fatalf("executeInternal no longer calls checkPathsReversed")
		}
		fills := c.enumValues("FillRule")
		clips := c.enumValues("ClipType")
		for _, pr := range []bool{false, true} {
			for _, rs := range []bool{false, true} {
				ex := &explorer{c: c, f: f, atoms: map[string]absVal{cpr + "(" + co + ")": boolVal(pr), co + ".ReverseSolution": boolVal(rs)}}
				outs := ex.explore(from)
				bad := ""
				for _, p := range outs {
					var exec *callRec
					for i := range p.calls {
						if p.calls[i].callee == "(clipper64).Execute" {
							exec = &p.calls[i]
						}
					}
					if exec == nil {
						bad = "no final clean-up union"
						continue
					}
					wantFill := enumByName(fills, "Positive")
					if pr {
						wantFill = enumByName(fills, "Negative")
					}
					if exec.args[1].abs.k != aInt || exec.args[1].abs.i != enumByName(clips, "Union") {
						bad = "clean-up is not a Union: " + exec.args[1].expr
					} else if exec.args[2].abs.k != aInt || exec.args[2].abs.i != wantFill {
						bad = fmt.Sprintf("pathsReversed=%v: clean-up fill rule is %s", pr, exec.args[2].expr)
					}
					got := ""
					for _, s := range p.stores {
						if strings.HasSuffix(s.addr, ".reverseSolution") {
							got = s.val.abs.String()
						}
					}
					if got != fmt.Sprint(rs != pr) && bad == "" {
						bad = fmt.Sprintf("reverseSolution = %s for ReverseSolution=%v, pathsReversed=%v (want %v)", got, rs, pr, rs != pr)
					}
				}
				c.check(bad == "", rule, fmt.Sprintf("%s:executeInternal:reversed=%v/ReverseSolution=%v", rule, pr, rs), f.Pos(), "(ClipperOffset).executeInternal",
					fmt.Sprintf("clean-up = Execute(Union, %s) with reverseSolution = %v", map[bool]string{false: "Positive", true: "Negative"}[pr], rs != pr), bad,
					"the raw offset paths self-overlap; only the union under the fill rule matching the input orientation yields the offset region, with the orientation the caller asked for")
			}
		}
		// |delta| < 0.5: the stripped input paths are returned and nothing is constructed
		bad := "no `math.Abs(delta) < 0.5` fast path found"
		for _, b := range fEntry.Blocks {
			ifi, ok := b.Instrs[len(b.Instrs)-1].(*ssa.If)
			if !ok {
				continue
			}
			cmp, ok := ifi.Cond.(*ssa.BinOp)
			if !ok || cmp.Op != token.LSS {
				continue
			}
			k, isK := constFloat(cmp.Y)
			if !isK || k != 0.5 || !isCallNamed(c, cmp.X, "math.Abs") {
				continue
			}
			bad = ""
			t := b.Succs[0]
			appends, rets := 0, 0
			var scan func(blocks []*ssa.BasicBlock, depth int)
			scan = func(blocks []*ssa.BasicBlock, depth int) {
				for _, bb := range blocks {
					for _, in := range bb.Instrs {
						switch x := in.(type) {
						case ssa.CallInstruction:
							n := calleeName(c, x)
							if h := x.Common().StaticCallee(); h != nil && depth < 2 && c.freshFunc(h) {
								scan(h.Blocks, depth+1) // the copy loop moved into a helper the reference record does not know
								continue
							}
							if strings.HasPrefix(n, "(ClipperOffset).") || n == "NewClipper64" || strings.HasPrefix(n, "(clipper64)") {
								bad = "the |delta| < 0.5 path calls " + n
							}
							if n == "builtin.append" {
								appends++
								els := appendedValues(x.Common().Args[1])
								if len(els) == 0 && loadedFromField(x.Common().Args[1], "inPaths") {
									continue // append(sol, group.inPaths...)
								}
								for _, el := range els {
									if !loadedFromField(el, "inPaths") {
										bad = "the |delta| < 0.5 path appends something other than the group's stripped input paths"
									}
								}
							}
						case *ssa.Return:
							if depth == 0 {
								rets++
							}
						}
					}
				}
			}
			var dom []*ssa.BasicBlock
			for _, bb := range fEntry.Blocks {
				if t.Dominates(bb) {
					dom = append(dom, bb)
				}
			}
			scan(dom, 0)
			if bad == "" && (appends != 1 || rets != 1) {
				bad = fmt.Sprintf("the |delta| < 0.5 path has %d appends and %d returns", appends, rets)
			}
		}
		c.check(bad == "", rule, rule+":executeInternal:small-delta", f.Pos(), "(ClipperOffset).executeInternal",
			"|delta| < 0.5 returns exactly the stripped input paths before any constructor runs", bad,
			"the property fixes the result for sub-unit deltas: the input paths apart from repeated points")
	}
}

func loadedFromField(v ssa.Value, field string) bool {
	u, ok := v.(*ssa.UnOp)
	if !ok {
		return false
	}
	ia, ok := u.X.(*ssa.IndexAddr)
	if !ok {
		return false
	}
	return isFieldLoad(ia.X, field)
}

// ruleEndDispatch: C10.end — cap dispatch at both ends of offsetOpenPath and the per-path routine dispatch.
func ruleEndDispatch(rule string) func(*Ctx) {
	return func(c *Ctx) {
		f := c.fn("(ClipperOffset).offsetOpenPath")
		co := f.Params[0].Name()
		loops := naturalLoops(f)
		hdrs := map[*ssa.BasicBlock]bool{}
		for _, l := range loops {
			hdrs[l.header] = true
		}
		// the two cap switches start at the false successor of `math.Abs(delta) < Tolerance`
		var starts []*ssa.BasicBlock
		for _, b := range f.Blocks {
			ifi, ok := b.Instrs[len(b.Instrs)-1].(*ssa.If)
			if !ok {
				continue
			}
			cmp, ok := ifi.Cond.(*ssa.BinOp)
			if ok && cmp.Op == token.LSS && isCallNamed(c, cmp.X, "math.Abs") {
				starts = append(starts, b.Succs[1])
			}
		}
		sort.Slice(starts, func(i, j int) bool { return starts[i].Index < starts[j].Index })
		// the cap dispatch may have been moved into a helper called once per end (doEndCap(path, i, delta)): the
		// dispatch is then explored inside the helper, and the two call sites must pass index 0 and the last index
		expF := f
		idx := []string{"0", "highI"}
		if len(starts) == 0 {
			for _, ci := range calls(f) {
				h := ci.Common().StaticCallee()
				if h == nil || !c.freshHelper(h) {
					continue
				}
				var hs []*ssa.BasicBlock
				for _, b := range h.Blocks {
					if ifi, ok := b.Instrs[len(b.Instrs)-1].(*ssa.If); ok {
						if cmp, ok := ifi.Cond.(*ssa.BinOp); ok && cmp.Op == token.LSS && isCallNamed(c, cmp.X, "math.Abs") {
							hs = append(hs, b.Succs[1])
						}
					}
				}
				if len(hs) != 1 {
					continue
				}
				// which parameter of h is the vertex index: the one whose arguments are 0 and len(path)-1
				var sites []ssa.CallInstruction
				for _, cj := range calls(f) {
					if cj.Common().StaticCallee() == h {
						sites = append(sites, cj)
					}
				}
				if len(sites) != 2 {
					continue
				}
				for k := range h.Params {
					a0, a1 := sites[0].Common().Args[k], sites[1].Common().Args[k]
					if isConstInt(a0, 0) && (isLenMinus1(a1, param(f, "path", 2)) || valueName(a1) == "highI") {
						expF = h
						starts = []*ssa.BasicBlock{hs[0], hs[0]}
						idx = []string{h.Params[k].Name(), h.Params[k].Name()}
						co = h.Params[0].Name()
						hdrs = map[*ssa.BasicBlock]bool{}
					}
				}
			}
		}
		c.floor(rule, len(starts), 2)
		ends := []string{"start", "end"}
		for i, sb := range starts {
			if i > 1 {
				break
			}
			for _, et := range c.enumValues("EndType") {
				ex := &explorer{c: c, f: expF, atoms: map[string]absVal{co + ".endType": intVal(et.val)}, stop: func(b *ssa.BasicBlock) bool { return hdrs[b] }}
				if expF == f {
					ex.canon = canonParams(f, co, "group", "path")
				}
				outs := ex.explore(sb)
				want := "(ClipperOffset).doSquare"
				switch et.name {
				case "Butt":
					want = "(ClipperOffset).doBevel"
				case "RoundET":
					want = "(ClipperOffset).doRound"
				}
				bad := ""
				for _, p := range outs {
					var caps []callRec
					for _, cl := range p.calls {
						if strings.HasPrefix(cl.callee, "(ClipperOffset).do") {
							caps = append(caps, cl)
						}
					}
					if len(caps) == 0 {
						bad = "no cap constructor is called"
						continue
					}
					cp := caps[0]
					if cp.callee != want {
						bad = fmt.Sprintf("%s end calls %s, the table requires %s", ends[i], cp.callee, want)
					} else if !(cp.args[2].expr == idx[i] || (idx[i] == "highI" && cp.args[2].expr == "(len(path) - 1)")) || cp.args[2].expr != cp.args[3].expr {
						bad = fmt.Sprintf("cap is built with (j,k)=(%s,%s), want (%s,%s)", cp.args[2].expr, cp.args[3].expr, idx[i], idx[i])
					} else if want == "(ClipperOffset).doRound" && (cp.args[4].abs.k != aFloat || cp.args[4].abs.f < 3.14 || cp.args[4].abs.f > 3.15) {
						bad = "round cap angle is " + cp.args[4].expr + ", want pi"
					}
				}
				c.check(bad == "", rule, fmt.Sprintf("%s:offsetOpenPath:%s:%s", rule, ends[i], et.name), f.Pos(), "(ClipperOffset).offsetOpenPath",
					fmt.Sprintf("%s cap for end type %s = %s(path, %s, %s)", ends[i], et.name, want[strings.Index(want, ").")+2:], idx[i], idx[i]), bad,
					"Butt ends stop at the end point (bevel), Round ends are half circles (pi), everything else is squared off by delta")
			}
		}
		// per-path routine dispatch in doGroupOffset
		g := c.fn("(ClipperOffset).doGroupOffset")
		gl := naturalLoops(g)
		if len(gl) == 0 {
			fatalf("doGroupOffset has no loop")
		}
		hdr := gl[0].header
		for _, l := range gl {
			if len(l.blocks) > len(gl[0].blocks) {
				hdr = l.header
			}
		}
		gco, grp := g.Params[0].Name(), g.Params[1].Name()
		joins := c.enumValues("JoinType")
		for _, et := range c.enumValues("EndType") {
			for _, cnt := range []int64{0, 1, 2, 3} {
				for _, jt := range []string{"Round", "Miter"} {
					ex := &explorer{c: c, f: g, atoms: map[string]absVal{grp + ".endType": intVal(et.val), gco + ".endType": intVal(et.val), grp + ".joinType": intVal(enumByName(joins, jt)), gco + ".deltaCallback": {k: aNil}},
						atomFn: func(e string) (absVal, bool) {
							if strings.HasPrefix(e, "len(") && strings.Contains(e, "inPaths") {
								return intVal(cnt), true
							}
							if strings.HasPrefix(e, "len(") {
								return intVal(cnt), true
							}
							return absVal{}, false
						}}
					outs := ex.explore(hdr)
					var body []*pathOutcome
					for _, p := range outs {
						if p.end == "loop" {
							body = append(body, p)
						}
					}
					want := ""
					switch {
					case cnt == 0:
						want = "skip"
					case cnt == 1 && et.name == "RoundET":
						want = "Ellipse64"
					case cnt == 1:
						want = "square"
					case et.name == "Polygon":
						want = "(ClipperOffset).offsetPolygon"
					case et.name == "Joined" && cnt == 2:
						want = "(ClipperOffset).offsetOpenPath"
					case et.name == "Joined":
						want = "(ClipperOffset).offsetOpenJoined"
					default:
						want = "(ClipperOffset).offsetOpenPath"
					}
					bad := ""
					if len(body) == 0 {
						bad = "no loop body path"
					}
					for _, p := range body {
						got := "skip"
						for _, cl := range p.calls {
							switch cl.callee {
							case "(ClipperOffset).offsetPolygon", "(ClipperOffset).offsetOpenJoined", "(ClipperOffset).offsetOpenPath", "Ellipse64":
								got = cl.callee
							case "(Rect64).AsPath":
								got = "square"
							}
						}
						if got != want {
							bad = fmt.Sprintf("a %d-point path of an %s group (join %s) is handled by %s, the table requires %s", cnt, et.name, jt, got, want)
						}
						if et.name == "Joined" && cnt == 2 && bad == "" {
							// two-point Joined: ends become Round (round join) or Square
							wantEnd := "SquareET"
							if jt == "Round" {
								wantEnd = "RoundET"
							}
							gotEnd := ""
							for _, s := range p.stores {
								if s.addr == gco+".endType" {
									gotEnd = s.val.abs.String()
								}
							}
							if gotEnd != fmt.Sprint(enumByName(c.enumValues("EndType"), wantEnd)) {
								bad = "two-point Joined path with join " + jt + " gets end type " + gotEnd + ", want " + wantEnd
							}
						}
					}
					c.check(bad == "", rule, fmt.Sprintf("%s:doGroupOffset:%s/%dpt/%s", rule, et.name, cnt, jt), g.Pos(), "(ClipperOffset).doGroupOffset",
						fmt.Sprintf("%d-point path, end type %s, join %s -> %s", cnt, et.name, jt, want), bad,
						"Polygon -> closed offset, Joined -> both sides of the loop, open end types -> stroke with caps, a single point -> square or circle, an empty path -> nothing")
				}
			}
		}
	}
}

// ruleMinkowski: C08.
func ruleMinkowski(rule string) func(*Ctx) {
	return func(c *Ctx) {
		fd := c.decl("minkowskiInternal")
		f := c.fn("minkowskiInternal")
		// sign: the isSum branch adds, the other subtracts pattern from path, on both axes.
		// Operands are resolved through the type checker: a range variable stands for the parameter it ranges over.
		paramIdx := func(o types.Object) int {
			for i, p := range f.Params {
				if p.Object() == o {
					return i
				}
			}
			return -1
		}
		rangeOf := map[types.Object]int{} // range value variable -> index of the parameter ranged over
		ast.Inspect(fd.Body, func(n ast.Node) bool {
			if r, ok := n.(*ast.RangeStmt); ok {
				if v, ok := r.Value.(*ast.Ident); ok {
					if x, ok := r.X.(*ast.Ident); ok {
						if k := paramIdx(c.info.Uses[x]); k >= 0 {
							rangeOf[c.info.Defs[v]] = k
						}
					}
				}
			}
			return true
		})
		role := func(e ast.Expr, axis string) string { // "path"/"pattern" when e is <range var>.<axis>
			sel, ok := e.(*ast.SelectorExpr)
			if !ok || sel.Sel.Name != axis {
				return "?"
			}
			id, ok := sel.X.(*ast.Ident)
			if !ok {
				return "?"
			}
			switch k, ok := rangeOf[c.info.Uses[id]]; {
			case ok && k == 0:
				return "pattern"
			case ok && k == 1:
				return "path"
			}
			return "?"
		}
		_ = role
		bad := minkSigns(c, f)
		c.check(bad == "", rule+".sign", rule+".sign:minkowskiInternal:plus-minus", fd.Pos(), "minkowskiInternal", "isSum: path+pattern on both axes; otherwise path-pattern on both axes", bad,
			"the sum sweeps the pattern, the difference sweeps the reflected pattern; a mixed sign shears the result")
		// polarity of minkowskiInternal's last parameter: `closed` on the reference tree; a refactoring may turn it
		// into `open` (step 1 when true). Read from the step selected by it; the entry points and the first
		// predecessor index are judged against that reading.
		openPolarity := false
		for _, b := range f.Blocks {
			for _, in := range b.Instrs {
				if phi, ok := in.(*ssa.Phi); ok {
					tv, fv, cond := phiByCond(phi)
					if cond != nil && cond == ssa.Value(param(f, "isClosed", 3)) && isConstInt(tv, 1) && isConstInt(fv, 0) {
						openPolarity = true
					}
				}
			}
		}
		// exported entry points: flags and final union
		fills := c.enumValues("FillRule")
		for _, e := range []struct {
			fn  string
			sum bool
		}{{"MinkowskiSum64", true}, {"MinkowskiDiff64", false}, {"MinkowskiSumD", true}, {"MinkowskiDiffD", false}} {
			g := c.fn(e.fn)
			outs := (&explorer{c: c, f: g, canon: canonParams(g, "pattern", "path", "isClosed", "precisionV"), atomFn: func(x string) (absVal, bool) {
				if x == "len(precisionV)" { // the optional precision is not given; lengths of the geometry stay open
					return intVal(0), true
				}
				return absVal{}, false
			}}).explore(nil)
			bad := ""
			seen := false
			for _, p := range outs {
				var mi, un *callRec
				for i := range p.calls {
					switch p.calls[i].callee {
					case "minkowskiInternal":
						mi = &p.calls[i]
					case "UnionPaths64":
						un = &p.calls[i]
					}
				}
				if mi == nil || un == nil {
					continue
				}
				seen = true
				if mi.args[2].abs.k != aBool || mi.args[2].abs.b != e.sum {
					bad = fmt.Sprintf("passes isSum=%s", mi.args[2].expr)
				} else if got := strings.NewReplacer("(", "", ")", "").Replace(mi.args[3].expr); got != map[bool]string{false: "isClosed", true: "!isClosed"}[openPolarity] {
					bad = "does not pass the caller's isClosed flag" + map[bool]string{false: "", true: " negated (the last parameter of minkowskiInternal now means 'open')"}[openPolarity] + ": " + mi.args[3].expr
				} else if strings.HasSuffix(e.fn, "64") && (mi.args[0].expr != "pattern" || mi.args[1].expr != "path") {
					bad = fmt.Sprintf("sweeps (%s, %s) instead of the caller's (pattern, path): the inputs are pre-processed", mi.args[0].expr, mi.args[1].expr)
				} else if strings.HasSuffix(e.fn, "D") && (!strings.HasPrefix(mi.args[0].expr, "ScalePathDToPath64(pattern,") || !strings.HasPrefix(mi.args[1].expr, "ScalePathDToPath64(path,")) {
					bad = fmt.Sprintf("sweeps (%s, %s) instead of the quantised (pattern, path)", mi.args[0].expr, mi.args[1].expr)
				} else if un.args[1].abs.k != aInt || un.args[1].abs.i != enumByName(fills, "NonZero") {
					bad = "final union uses fill rule " + un.args[1].expr
				} else if !strings.HasPrefix(un.args[0].expr, "minkowskiInternal(") {
					bad = "the union is not applied to the quads"
				}
			}
			if !seen && bad == "" {
				bad = "no path calls minkowskiInternal and UnionPaths64"
			}
			c.check(bad == "", rule+".entry", fmt.Sprintf("%s.entry:%s", rule, e.fn), g.Pos(), e.fn,
				fmt.Sprintf("UnionPaths64(minkowskiInternal(pattern, path, %v, isClosed), NonZero)", e.sum), bad,
				"the quads overlap and have been normalised to positive orientation: only a NonZero union gives their covered region")
		}
		// norm: every quad appended to the result is positive or the reverse of a non-positive one (the quad loop may
		// have been moved into a helper, and the two appends merged into one append of a value chosen by the test)
		n := 0
		for _, h := range freshRegion(c, f) {
			for i, a := range allAppendStores(h) {
				if len(a.elems) != 1 {
					continue
				}
				leaves := quadLeaves(c, a.elems[0], a.store.Block())
				isQuad := false
				for _, lf := range leaves {
					if lf.reversed || lf.lit4 {
						isQuad = true
					}
				}
				if !isQuad {
					continue // the per-vertex copies of the pattern, not quads
				}
				n++
				bad := ""
				isPos := func(v ssa.Value) bool { return isCallNamed(c, v, "IsPositive64") }
				for _, lf := range leaves {
					want := !lf.reversed // a reversed quad needs IsPositive64 == false, a plain one == true
					ok := guardedBy(a.store, want, isPos)
					if !ok && lf.from != nil {
						ok = edgeDecidedBy(lf.from, lf.to, want, isPos)
					}
					if !ok {
						if lf.reversed {
							bad = "a reversed quad is appended without the quad having failed IsPositive64"
						} else {
							bad = "a quad is appended without passing IsPositive64"
						}
					}
				}
				c.check(bad == "", rule+".norm", fmt.Sprintf("%s.norm:%s:append#%d", rule, c.fname(h), i+1), a.store.Pos(), c.fname(h),
					"quad appended only in positive orientation (as is, or reversed when IsPositive64 fails)", bad,
					"under the NonZero union a negatively oriented quad cancels a positive neighbour and leaves a hole in the swept region")
			}
		}
		c.floor(rule+".norm", n, 1)
		// closed: delta and the starting predecessor index
		bad = ""
		nDelta, nG := 0, 0
		for _, b := range f.Blocks {
			for _, in := range b.Instrs {
				phi, ok := in.(*ssa.Phi)
				if !ok {
					continue
				}
				// only the phis right after the `if isClosed` diamonds (not loop-carried values); roles by shape:
				// both arms constant = the step `delta`; otherwise the first predecessor index `g`
				tv, fv, cond := phiByCond(phi)
				if cond == nil || cond != ssa.Value(param(f, "isClosed", 3)) {
					continue
				}
				if openPolarity {
					tv, fv = fv, tv // the parameter means 'open': its false arm is the closed case
				}
				_, tc := tv.(*ssa.Const)
				_, fc := fv.(*ssa.Const)
				if tc && fc {
					nDelta++
					if !isConstInt(tv, 0) || !isConstInt(fv, 1) {
						bad = "delta is not 0 for closed / 1 for open paths"
					}
				} else {
					nG++
					bo, ok := tv.(*ssa.BinOp)
					if !ok || bo.Op != token.SUB || !isConstInt(bo.Y, 1) || !isLenOf(bo.X, param(f, "path", 1)) || !isConstInt(fv, 0) {
						bad = "the first predecessor index is not len(path)-1 for closed / 0 for open paths"
					}
				}
			}
		}
		if bad == "" && nDelta == 1 && nG == 0 {
			// the other formulation: no carried predecessor index, but g = i-1 with g = len(path)-1 for i == 0
			// (i starts at delta, so the wrap is taken exactly for closed paths)
			for _, b := range f.Blocks {
				for _, in := range b.Instrs {
					phi, ok := in.(*ssa.Phi)
					if !ok {
						continue
					}
					tv, fv, cond := phiByCond(phi)
					cmp, ok := cond.(*ssa.BinOp)
					if !ok || !isConstInt(cmp.Y, 0) || (cmp.Op != token.EQL && cmp.Op != token.NEQ) {
						continue
					}
					if cmp.Op == token.NEQ {
						tv, fv = fv, tv
					}
					wrap, okw := tv.(*ssa.BinOp)
					prev, okp := fv.(*ssa.BinOp)
					if okw && okp && wrap.Op == token.SUB && isConstInt(wrap.Y, 1) && isLenOf(wrap.X, param(f, "path", 1)) &&
						prev.Op == token.SUB && isConstInt(prev.Y, 1) && sameIntValue(prev.X, cmp.X) {
						nG++
					}
				}
			}
		}
		if bad == "" && (nDelta != 1 || nG != 1) {
			bad = fmt.Sprintf("expected one step and one first-predecessor value selected by isClosed, found %d and %d", nDelta, nG)
		}
		c.check(bad == "", rule+".closed", rule+".closed:minkowskiInternal:wrap", f.Pos(), "minkowskiInternal", "closed: (delta, g0) = (0, pathLen-1); open: (1, 0)", bad,
			"a closed path has a segment from its last to its first vertex that must be swept too; an open path must not get one")
		// all vertices: no iteration of the outer loops skips its work
		bad = ""
		for _, h := range freshRegion(c, f) {
			if b := allIterationsWork(c, h); b != "" {
				bad = b
			}
		}
		c.check(bad == "", rule+".all", rule+".all:minkowskiInternal:no-skip", f.Pos(), "minkowskiInternal", "every path vertex gets its translated pattern and every path segment its quads (no iteration is skipped)", bad,
			"skipping a vertex (e.g. as 'collinear') leaves a part of the path unswept")
	}
}

func isConstInt(v ssa.Value, k int64) bool {
	c, ok := v.(*ssa.Const)
	return ok && c.Value != nil && c.Int64() == k
}

// phiByCond: phi at the join of `if cond {A}` (/else {B}): returns value when cond is true, when false, and cond.
func phiByCond(phi *ssa.Phi) (tv, fv ssa.Value, cond ssa.Value) {
	b := phi.Block()
	if len(b.Preds) != 2 {
		return nil, nil, nil
	}
	for i, p := range b.Preds {
		other := b.Preds[1-i]
		// shape 1: p is the `then` block (single pred `other`, which ends in If with Succs[0]==p, Succs[1]==b)
		if len(p.Preds) == 1 && p.Preds[0] == other {
			if ifi, ok := other.Instrs[len(other.Instrs)-1].(*ssa.If); ok {
				if other.Succs[0] == p && other.Succs[1] == b {
					return phi.Edges[i], phi.Edges[1-i], ifi.Cond
				}
				if other.Succs[1] == p && other.Succs[0] == b {
					return phi.Edges[1-i], phi.Edges[i], ifi.Cond
				}
			}
		}
	}
	return nil, nil, nil
}

// appendStoresLocal: stores `x = append(x, e)` for a local (alloc-lifted) variable do not exist in SSA; instead
// find append calls whose first argument is the phi/val named `name`. Returns pseudo appendStore with the call.
func appendStoresLocal(f *ssa.Function, name string) []appendStore {
	var out []appendStore
	for _, b := range f.Blocks {
		for _, in := range b.Instrs {
			call, ok := in.(*ssa.Call)
			if !ok {
				continue
			}
			bi, ok := call.Call.Value.(*ssa.Builtin)
			if !ok || bi.Name() != "append" {
				continue
			}
			if vn := valueName(call.Call.Args[0]); vn != name {
				continue
			}
			// fabricate a Store-like anchor: use the call itself for position/guards via a wrapper Store is not possible; reuse DebugRef-free approach
			if st := anchorStore(call); st != nil {
				out = append(out, appendStore{store: st, elems: appendedValues(call.Call.Args[1])})
			}
		}
	}
	sort.Slice(out, func(i, j int) bool { return out[i].store.Pos() < out[j].store.Pos() })
	return out
}

// anchorStore returns the store that writes the appended element into the variadic temporary (it sits in the
// same block as the append, right before it) — used as the position / control-dependence anchor of the append.
func anchorStore(call *ssa.Call) *ssa.Store {
	if len(call.Call.Args) < 2 {
		return nil
	}
	sl, ok := call.Call.Args[1].(*ssa.Slice)
	if !ok {
		return nil
	}
	al, ok := sl.X.(*ssa.Alloc)
	if !ok {
		return nil
	}
	for _, r := range *al.Referrers() {
		if ia, ok := r.(*ssa.IndexAddr); ok {
			for _, r2 := range *ia.Referrers() {
				if st, ok := r2.(*ssa.Store); ok {
					return st
				}
			}
		}
	}
	return nil
}

// allIterationsWork: in each top-level loop of f the "work" (an append) is reached on every iteration: the block
// doing it dominates every latch of that loop.
func allIterationsWork(c *Ctx, f *ssa.Function) string {
	loops := naturalLoops(f)
	for _, l := range loops {
		// latches: preds of header inside the loop
		var latches []*ssa.BasicBlock
		for _, p := range l.header.Preds {
			if l.blocks[p] {
				latches = append(latches, p)
			}
		}
		// work blocks: blocks in loop containing an append call or a nested loop header
		work := false
		for _, b := range l.ordered() {
			for _, in := range b.Instrs {
				if isWorkInstr(c, in) {
					{
						// this append must be reached each iteration unless it sits in an if/else pair both appending
						dom := true
						for _, lt := range latches {
							if !b.Dominates(lt) {
								dom = false
							}
						}
						if dom {
							work = true
						}
					}
				}
			}
		}
		if !work {
			// accept an if/else where both arms append (quad orientation) or a nested loop that dominates the latch
			for _, l2 := range loops {
				if l2 != l && l.blocks[l2.header] && len(l2.blocks) < len(l.blocks) {
					dom := true
					for _, lt := range latches {
						if !l2.header.Dominates(lt) {
							dom = false
						}
					}
					if dom {
						work = true
					}
				}
			}
		}
		if !work {
			// both arms of an if append: count append blocks whose union covers all paths — approximate by explorer
			ll := l
			ex := &explorer{c: c, f: f, stop: func(b *ssa.BasicBlock) bool { return !ll.blocks[b] }}
			outs := ex.explore(l.header)
			all := true
			n := 0
			for _, p := range outs {
				if p.end != "loop" {
					continue
				}
				n++
				has := false
				for _, cl := range p.calls {
					if cl.callee == "builtin.append" || (cl.instr != nil && isWorkInstr(c, cl.instr)) {
						has = true
					}
				}
				for _, sr := range p.stores {
					if strings.Contains(sr.addr, "[") {
						has = true // an element of the output is written
					}
				}
				if !has {
					all = false
				}
			}
			if n > 0 && all {
				work = true
			}
		}
		if !work {
			return fmt.Sprintf("the loop at %s has an iteration path that appends nothing (a vertex or segment can be skipped)", c.pos(l.header.Instrs[0].Pos()))
		}
	}
	return ""
}

// ruleOpenSkipped: C09.route — closed winding scans skip open edges; open scans count only closed edges.
func ruleOpenSkipped(rule string) func(*Ctx) {
	return func(c *Ctx) {
		for _, name := range []string{"(clipperBase).setWindCountForClosedPathEdge", "(clipperBase).setWindCountForOpenPathEdge"} {
			f := c.fn(name)
			ae := f.Params[1].Name()
			loops := naturalLoops(f)
			n := 0
			for li, l := range loops {
				// only scans that accumulate winding information
				ll := l
				inLoop := func(b *ssa.BasicBlock) bool { return !ll.blocks[b] }
				counters := map[string]bool{} // integer header phis: parity/winding counters carried round the loop
				for _, in := range l.header.Instrs {
					phi, ok := in.(*ssa.Phi)
					if !ok {
						break
					}
					if bt, ok := phi.Type().Underlying().(*types.Basic); ok && bt.Info()&types.IsInteger != 0 {
						name := phi.Comment
						if name == "" {
							name = phi.Name()
						}
						counters[name] = true
					}
				}
				// the scanned edge (any edge other than the one being inserted) is an open subject edge
				ex := &explorer{c: c, f: f, atomFn: func(x string) (absVal, bool) {
					if strings.HasPrefix(x, "isOpen(") && x != "isOpen("+ae+")" {
						return boolVal(true), true
					}
					if strings.HasPrefix(x, "getPolyType(") && x != "getPolyType("+ae+")" {
						return intVal(0), true
					}
					return absVal{}, false
				}, stop: inLoop}
				outs := ex.explore(l.header)
				bad := ""
				bodies := 0
				accumulates := false
				// does any path (without the atom) change winding state? explore once more unconstrained
				for _, p := range (&explorer{c: c, f: f, stop: inLoop}).explore(l.header) {
					if p.end != "loop" {
						continue
					}
					for _, s := range p.stores {
						if strings.HasPrefix(s.addr, ae+".windCount") {
							accumulates = true
						}
					}
					for k, v := range p.backedge {
						if counters[k] && v.expr != k {
							accumulates = true
						}
					}
				}
				if !accumulates {
					// a search loop (nearest closed edge of the same set to the left): an open edge of the same set
					// must not end the search
					sx := &explorer{c: c, f: f, atomFn: func(x string) (absVal, bool) {
						switch {
						case strings.HasPrefix(x, "isOpen(") && x != "isOpen("+ae+")":
							return boolVal(true), true
						case strings.HasPrefix(x, "getPolyType("):
							return intVal(0), true
						case strings.HasPrefix(x, "isSamePolyType("):
							return boolVal(true), true
						case strings.HasSuffix(x, " != nil)"):
							return boolVal(true), true
						case strings.HasSuffix(x, " == nil)"):
							return boolVal(false), true
						}
						return absVal{}, false
					}, stop: inLoop}
					souts := sx.explore(l.header)
					sbad := ""
					for _, p := range souts {
						if p.end != "loop" {
							sbad = fmt.Sprintf("the search for the nearest closed edge of the same set stops at an OPEN edge (path: %s)", p.condString())
						}
					}
					if len(souts) > 0 {
						c.check(sbad == "", rule, fmt.Sprintf("%s:%s:search#%d", rule, name[strings.Index(name, ").")+2:], li+1), l.header.Instrs[0].Pos(), name,
							"an open edge of the same set met by the search is passed over", sbad,
							"the new edge's winding count is derived from the edge the search stops at; an open line has no interior, so stopping there gives the closed polygon to its right the wrong count (it vanishes or doubles depending on the line's direction)")
					}
					continue
				}
				for _, p := range outs {
					if p.end != "loop" {
						continue
					}
					bodies++
					for _, s := range p.stores {
						if strings.HasPrefix(s.addr, ae+".windCount") {
							bad = fmt.Sprintf("an OPEN subject edge changes %s (path: %s)", s.addr, p.condString())
						}
					}
					for k, v := range p.backedge {
						if counters[k] && v.expr != k {
							bad = fmt.Sprintf("an OPEN subject edge is counted in %s", k)
						}
					}
				}
				n++
				c.check(bad == "" && bodies > 0, rule, fmt.Sprintf("%s:%s:scan#%d", rule, name[strings.Index(name, ").")+2:], li+1), l.header.Instrs[0].Pos(), name,
					"an open (subject) edge met by the scan changes neither winding count nor parity counters", bad,
					"open paths have no interior: counting them makes the region test of every edge to their right wrong (Union/EvenOdd of two side-by-side open lines)")
			}
			c.floor(rule, n, 1) // the EvenOdd and winding scans may be merged into one
		}
	}
}

// ruleHorzJoinOwner: C04.owner — when a horizontal join splits one ring into two in tree mode, the new ring's
// owner follows containment: inside the old ring -> the old ring; old inside new -> rings swapped, then owner =
// the (new) outer; neither -> sibling of the old ring.
func ruleHorzJoinOwner(rule string) func(*Ctx) {
	return func(c *Ctx) {
		f := c.fn("(clipperBase).processHorzJoins")
		loops := naturalLoops(f)
		if len(loops) != 1 {
			fatalf("processHorzJoins: expected one loop")
		}
		ll := loops[0]
		recv := f.Params[0].Name()
		type caseT struct {
			name       string
			aInB, bInA absVal
			want       string
			swap       bool
		}
		newRec := "(clipperBase).newOutRec(" + recv + ")"
		// which parameter of the containment helper is the CONTAINER is read from its body (the one handed to
		// pointInOpPolygon as the polygon), not assumed from position: a rename that also swaps the parameters
		// must swap every call site
		containerFirst := false
		if g := c.fnOpt("path1InsidePath2"); g != nil && len(g.Params) == 2 {
			for _, ci := range calls(g) {
				if calleeName(c, ci) != "pointInOpPolygon" || len(ci.Common().Args) != 2 {
					continue
				}
				var root func(v ssa.Value, d int) ssa.Value
				root = func(v ssa.Value, d int) ssa.Value {
					if ph, ok := v.(*ssa.Phi); ok && d < 4 {
						for _, e := range ph.Edges {
							if r := root(e, d+1); r != nil {
								return r
							}
						}
						return nil
					}
					if _, ok := v.(*ssa.Parameter); ok {
						return v
					}
					return nil
				}
				if r := root(ci.Common().Args[1], 0); r != nil && r == ssa.Value(g.Params[0]) {
					containerFirst = true
				}
			}
		}
		cases := []caseT{
			{"old ring inside the new ring", boolVal(true), boolVal(false), "outer", true},
			{"new ring inside the old ring", boolVal(false), boolVal(true), "old", false},
			{"neither contains the other", boolVal(false), boolVal(false), "old.owner", false},
		}
		for _, cs := range cases {
			ex := &explorer{c: c, f: f, atoms: map[string]absVal{recv + ".usingPolyTree": boolVal(true)},
				atomFn: func(e string) (absVal, bool) {
					if strings.HasPrefix(e, "path1InsidePath2(") {
						// first call tests old-in-new (or1.pts, or2.pts); second new-in-old
						if strings.Contains(e, "(getRealOutRec") || true {
							a := strings.Index(e, "getRealOutRec")
							b := strings.Index(e, newRec)
							if (a >= 0 && b >= 0 && a < b) != containerFirst {
								return cs.aInB, true
							}
							return cs.bInA, true
						}
					}
					return absVal{}, false
				}, stop: func(b *ssa.BasicBlock) bool { return !ll.blocks[b] }, maxPaths: 2000}
			outs := ex.explore(ll.header)
			bad := ""
			n := 0
			for _, p := range outs {
				if p.end != "loop" {
					continue
				}
				// only the self-join branch: a new record was created
				if !p.called("(clipperBase).newOutRec") {
					continue
				}
				n++
				owner := ""
				swapped := false
				for _, s := range p.stores {
					if s.addr == newRec+".owner" {
						owner = s.val.expr
					}
					if s.addr == newRec+".pts" && strings.Contains(s.val.expr, "getRealOutRec") && strings.HasSuffix(s.val.expr, ".pts") {
						swapped = true
					}
				}
				isOld := strings.HasPrefix(owner, "getRealOutRec(") && !strings.HasSuffix(owner, ".owner")
				isOldOwner := strings.HasPrefix(owner, "getRealOutRec(") && strings.HasSuffix(owner, ".owner")
				switch cs.want {
				case "outer", "old":
					if !isOld {
						bad = fmt.Sprintf("%s: the new ring's owner becomes %s, want the other ring of the pair", cs.name, owner)
					}
				case "old.owner":
					if !isOldOwner {
						bad = fmt.Sprintf("%s: the new ring's owner becomes %s, want the old ring's owner (they are siblings)", cs.name, owner)
					}
				}
				if swapped != cs.swap && bad == "" {
					bad = fmt.Sprintf("%s: point lists swapped=%v, want %v", cs.name, swapped, cs.swap)
				}
				// after a swap every node of BOTH rings must point at the record that now owns it
				if swapped && bad == "" {
					swapAt := -1
					for si, s := range p.stores {
						if s.addr == newRec+".pts" && strings.Contains(s.val.expr, "getRealOutRec") && strings.HasSuffix(s.val.expr, ".pts") {
							swapAt = si + 1
						}
					}
					relabelled := map[string]bool{}
					after := false
					for _, q := range p.seq {
						if q == -swapAt {
							after = true
						}
						if after && q > 0 && p.calls[q-1].callee == "fixOutRecPts" && len(p.calls[q-1].args) == 1 {
							a := p.calls[q-1].args[0].expr
							if a == newRec {
								relabelled["new"] = true
							} else if strings.HasPrefix(a, "getRealOutRec(") {
								relabelled["old"] = true
							}
						}
					}
					if !relabelled["new"] || !relabelled["old"] {
						bad = fmt.Sprintf("%s: the point lists are exchanged but fixOutRecPts is not called for both records afterwards (old=%v new=%v): nodes keep pointing at the record that no longer owns them", cs.name, relabelled["old"], relabelled["new"])
					}
				}
				// the split is recorded on the old ring in every case (checkSplitOwner later searches owners through it)
				recorded := false
				for _, s := range p.stores {
					if strings.HasSuffix(s.addr, ".splits") && strings.HasPrefix(s.val.expr, "builtin.append(") {
						recorded = true
					}
				}
				if !recorded && bad == "" {
					bad = cs.name + ": the new ring is not recorded in the old ring's splits list"
				}
			}
			if n == 0 && bad == "" {
				bad = "no self-join path found"
			}
			c.check(bad == "", rule, fmt.Sprintf("%s:processHorzJoins:%s", rule, strings.ReplaceAll(cs.name, " ", "-")), f.Pos(), "(clipperBase).processHorzJoins",
				cs.name+" -> owner = "+cs.want, bad,
				"a node's polygon must lie inside its parent's: a ring split off INSIDE the old ring is its child (a hole), one beside it is its sibling; swapping the two makes a hole a top-level polygon")
		}
	}
}

// ruleLazyBounds: C04.bounds — OutRec.bounds is computed lazily by checkBounds; a function may read X.bounds of a
// record other than its own parameter only after checkBounds(X) returned true on that path.
func ruleLazyBounds(rule string) func(*Ctx) {
	return func(c *Ctx) {
		n := 0
		for _, f := range c.srcFuncs() {
			fn := c.fname(f)
			if fn == "(clipperBase).checkBounds" {
				continue
			}
			k := 0
			for _, b := range f.Blocks {
				for _, in := range b.Instrs {
					fa, ok := in.(*ssa.FieldAddr)
					if !ok || typeName(fa.X.Type()) != "*OutRec" || fieldName(fa.X.Type(), fa.Field) != "bounds" {
						continue
					}
					// stores (assignment of bounds) are checkBounds' job only
					base := fa.X
					if _, isParam := base.(*ssa.Parameter); isParam {
						continue
					}
					if _, isPhi := base.(*ssa.Phi); isPhi {
						// a record obtained in this function (loop variable etc.)
					}
					k++
					n++
					ok2 := guardedBy(fa, true, func(v ssa.Value) bool {
						call, ok := v.(*ssa.Call)
						if !ok || calleeName(c, call) != "(clipperBase).checkBounds" {
							return false
						}
						return sameLoadChain(call.Call.Args[1], base)
					})
					c.check(ok2, rule, fmt.Sprintf("%s:%s:bounds-read#%d", rule, fn, k), fa.Pos(), fn,
						"the record's bounds are read only after checkBounds(record) returned true on this path",
						"bounds of a record other than the function's own are read without a preceding checkBounds(record): they are computed lazily and may still be empty",
						"an owner whose (not yet computed) bounds are empty is skipped as 'cannot contain the child': the child is attached to the wrong ancestor")
				}
			}
		}
		c.floor(rule, n, 1)
	}
}

// sameLoadChain: two values are the same chain of field loads from the same root (no CSE in SSA).
func sameLoadChain(a, b ssa.Value) bool {
	if a == b {
		return true
	}
	ua, ok1 := a.(*ssa.UnOp)
	ub, ok2 := b.(*ssa.UnOp)
	if ok1 && ok2 && ua.Op == token.MUL && ub.Op == token.MUL {
		fa, ok1 := ua.X.(*ssa.FieldAddr)
		fb, ok2 := ub.X.(*ssa.FieldAddr)
		return ok1 && ok2 && fa.Field == fb.Field && sameLoadChain(fa.X, fb.X)
	}
	return false
}

// ruleLineExtractor: C11.extract / C11.len.
func ruleLineExtractor(rule string) func(*Ctx) {
	return func(c *Ctx) {
		f := c.fn("getPathRectClipLine")
		// every ring node is emitted: no filtering call, and the loop's append is reached on every iteration
		var banned []string
		for _, ci := range calls(f) {
			n := calleeName(c, ci)
			if n == "isCollinear" || strings.HasPrefix(n, "unlinkOp") || n == "CrossProduct" {
				banned = append(banned, n)
			}
		}
		bad := allIterationsWork(c, f)
		if len(banned) > 0 {
			bad = "the line extractor filters nodes with " + strings.Join(banned, ", ")
		}
		c.check(bad == "", rule, rule+":getPathRectClipLine:emits-every-node", f.Pos(), "getPathRectClipLine",
			"every node of the result ring is emitted, in ring order, with no collinearity filtering", bad,
			"the vertices of a clipped line are input vertices and crossing points in input order; dropping a 'redundant' mid-point of a line that doubles back uncovers part of it")
		// driver: two-point paths are clipped; nothing but extractor output is appended
		g := c.fn("(RectClipLines64).Execute")
		loops := naturalLoops(g)
		var outer *loopInfo
		for _, l := range loops {
			if outer == nil || len(l.blocks) > len(outer.blocks) {
				outer = l
			}
		}
		if outer == nil {
			fatalf("RectClipLines64.Execute: no loop")
		}
		for _, ln := range []int64{1, 2} {
			ll := outer
			ex := &explorer{c: c, f: g, canon: canonParams(g, "r", "paths"), atomFn: func(e string) (absVal, bool) {
				if strings.HasPrefix(e, "len(paths[") {
					return intVal(ln), true
				}
				return absVal{}, false
			}, stop: func(b *ssa.BasicBlock) bool { return !ll.blocks[b] }, maxPaths: 2000}
			outs := ex.explore(outer.header)
			bad := ""
			ran := false
			for _, p := range outs {
				if p.end != "loop" {
					continue
				}
				if p.called("(RectClip64).executeInternalPath64") {
					ran = true
				}
				if p.called("(RectClip64).executeInternal") || p.called("(RectClip64).checkEdges") {
					bad = "the line driver runs the polygon machine"
				}
			}
			if ln == 2 && !ran && bad == "" {
				bad = "a two-point path never reaches the line machine (it is skipped)"
			}
			if ln == 1 && ran {
				bad = "a one-point path is sent to the line machine"
			}
			c.check(bad == "", rule, fmt.Sprintf("%s:(RectClipLines64).Execute:len=%d", rule, ln), g.Pos(), "(RectClipLines64).Execute",
				map[int64]string{1: "one-point paths are skipped", 2: "two-point paths are clipped"}[ln], bad,
				"a two-point segment crossing the rectangle must not be dropped")
		}
		// appended results come from the extractor only
		bad = ""
		for _, call := range appendCalls(g) {
			for _, el := range appendedValues(call.Call.Args[1]) {
				cl, ok := el.(*ssa.Call)
				if !ok || cl.Call.StaticCallee() != nil {
					bad = "a path that is not the extractor's output is appended to the result: " + el.String()
				}
			}
		}
		c.check(bad == "", rule, rule+":(RectClipLines64).Execute:results-from-extractor", g.Pos(), "(RectClipLines64).Execute",
			"only r.getPath(op) results are appended (no 'bounds contained -> return the input' shortcut)", bad,
			"bounds alone cannot tell whether a line lies inside; only the line machine's output is a clipped line")
	}
}

// ruleGrowingList: buildTree and buildPaths iterate over outrecList while cleanCollinear/fixSelfIntersects may
// append new records to it (doSplitOp -> newOutRec): the loop bound must be re-read on every iteration.
func ruleGrowingList(rule string) func(*Ctx) {
	return func(c *Ctx) {
		g := c.callgraphVTA()
		grow := c.fn("(clipperBase).newOutRec")
		for _, name := range []string{"(clipperBase).buildTree", "(clipperBase).buildPaths"} {
			f := c.fn(name)
			if !reachable(g, []*ssa.Function{f})[grow] {
				c.pass(rule, fmt.Sprintf("%s:%s:bound", rule, name), f.Pos(), name, "newOutRec is not reachable from the loop: the list cannot grow")
				continue
			}
			bad := "no loop over outrecList found"
			for _, l := range naturalLoops(f) {
				ifi, ok := l.header.Instrs[len(l.header.Instrs)-1].(*ssa.If)
				if !ok {
					continue
				}
				cmp, ok := ifi.Cond.(*ssa.BinOp)
				if !ok || cmp.Op != token.LSS {
					continue
				}
				bad = ""
				call, ok := cmp.Y.(*ssa.Call)
				if !ok {
					bad = "the loop bound is not len(c.outrecList) evaluated in the loop condition: " + exprOf(cmp.Y)
				} else if bi, ok := call.Call.Value.(*ssa.Builtin); !ok || bi.Name() != "len" || !isFieldLoadOf(call.Call.Args[0], "clipperBase", "outrecList") {
					bad = "the loop bound is not len(c.outrecList)"
				} else if !l.blocks[call.Block()] {
					bad = "len(c.outrecList) is read once before the loop: records appended while iterating (doSplitOp) are never visited"
				}
			}
			c.check(bad == "", rule, fmt.Sprintf("%s:%s:bound", rule, name), f.Pos(), name,
				"the loop re-reads len(c.outrecList) on every iteration (records split off during clean-up are visited)", bad,
				"self-intersection repair appends new output records while the solution is being built; a hoisted bound drops them from the tree (or the flat result), so tree and flat results differ")
		}
	}
}

// ruleLineScanStart: C11.start — executeInternalPath64 looks ahead (advancing i) to classify a start vertex lying on
// the boundary; the main scan must nevertheless start at index 1. Decided by a must-constant dataflow on the
// address-taken local i: on every edge entering the main loop from outside, i is definitely 1.
func ruleLineScanStart(rule string) func(*Ctx) {
	return func(c *Ctx) {
		f := c.fn("(RectClip64).executeInternalPath64")
		var iAlloc *ssa.Alloc
		var mainLoop *loopInfo
		for _, ci := range callsTo(c, f, "(RectClip64).getNextLocation") {
			// the scan index is the local whose address is getNextLocation's `i *int` argument (receiver, path, loc, i, highI)
			if args := ci.Common().Args; len(args) >= 4 {
				if al, ok := args[3].(*ssa.Alloc); ok {
					iAlloc = al
				}
			}
			for _, l := range naturalLoops(f) {
				if l.blocks[ci.Block()] && (mainLoop == nil || len(l.blocks) < len(mainLoop.blocks)) {
					mainLoop = l
				}
			}
		}
		if iAlloc == nil || mainLoop == nil {
			fatalf("executeInternalPath64: scan index or main loop not found")
		}
		// forward must-constant analysis: state 1 = "i == 1", 0 = unknown
		out := map[*ssa.BasicBlock]int{}
		for _, b := range f.Blocks {
			out[b] = 1 // optimistic
		}
		transfer := func(b *ssa.BasicBlock, in int) int {
			st := in
			for _, ins := range b.Instrs {
				switch x := ins.(type) {
				case *ssa.Store:
					if x.Addr == ssa.Value(iAlloc) {
						if isConstInt(x.Val, 1) {
							st = 1
						} else {
							st = 0
						}
					}
				case ssa.CallInstruction:
					for _, a := range x.Common().Args {
						if a == ssa.Value(iAlloc) {
							st = 0
						}
					}
				}
			}
			return st
		}
		for changed := true; changed; {
			changed = false
			for _, b := range f.Blocks {
				in := 1
				if b == f.Blocks[0] {
					in = 0
				}
				for _, p := range b.Preds {
					if out[p] == 0 {
						in = 0
					}
				}
				if o := transfer(b, in); o != out[b] {
					out[b] = o
					changed = true
				}
			}
		}
		bad := ""
		n := 0
		for _, p := range mainLoop.header.Preds {
			if mainLoop.blocks[p] {
				continue
			}
			n++
			if out[p] != 1 {
				bad = "on a path entering the main scan (through the block at " + c.pos(p.Instrs[0].Pos()) + ") the scan index is not definitely 1: the look-ahead's position leaks into the scan and the vertices it skipped are never clipped"
			}
		}
		c.check(bad == "" && n > 0, rule, rule+":executeInternalPath64:scan-starts-at-1", mainLoop.header.Instrs[0].Pos(), "(RectClip64).executeInternalPath64",
			"on every entry into the main scan the index is definitely 1 (the look-ahead for a boundary start vertex is rewound)", bad,
			"a polyline whose first vertices lie exactly on the rectangle boundary must still be clipped from its second vertex on; otherwise the chord between boundary vertices is lost")
	}
}

// ruleHorzOpenEnd: C09.horz — an open path's terminal horizontal edge must consult the range test before
// intersecting a further edge on the scanline (it ends at its end point, not at the next maxima vertex).
func ruleHorzOpenEnd(rule string) func(*Ctx) {
	return func(c *Ctx) {
		f := c.fn("(clipperBase).doHorizontal")
		// inner loop: the one that calls intersectEdges
		var inner *loopInfo
		for _, ci := range callsTo(c, f, "(clipperBase).intersectEdges") {
			for _, l := range naturalLoops(f) {
				if l.blocks[ci.Block()] && (inner == nil || len(l.blocks) < len(inner.blocks)) {
					inner = l
				}
			}
		}
		if inner == nil {
			fatalf("doHorizontal: edge loop not found")
		}
		ll := inner
		ex := &explorer{c: c, f: f, atoms: map[string]absVal{"isOpenEnd(horz)": boolVal(true)}, maxPaths: 20000, canon: canonParams(f, "c", "horz"),
			atomFn: func(e string) (absVal, bool) {
				// the horizontal ends at the maxima vertex it was given: vertexMax == horz.vertexTop
				if strings.Contains(e, "!= horz.vertexTop)") && strings.HasPrefix(e, "(") && !strings.Contains(e, "ae.") {
					return boolVal(false), true
				}
				return absVal{}, false
			}, stop: func(b *ssa.BasicBlock) bool { return !ll.blocks[b] }}
		outs := ex.explore(inner.header)
		if ex.overflow {
			fatalf("doHorizontal: path explosion")
		}
		bad := ""
		n := 0
		for _, p := range outs {
			if !p.called("(clipperBase).intersectEdges") {
				continue
			}
			n++
			ranged := false
			for _, cd := range p.conds {
				if strings.Contains(cd.expr, ".curX > ") || strings.Contains(cd.expr, ".curX < ") {
					ranged = true
				}
			}
			if !ranged {
				bad = "an open-ended horizontal edge intersects a further edge without the range test (ae.curX beyond the edge's end) having been evaluated: path [" + tail(p.condString(), 200) + "]"
			}
		}
		c.check(bad == "" && n > 0, rule, rule+":doHorizontal:open-end-range", inner.header.Instrs[0].Pos(), "(clipperBase).doHorizontal",
			fmt.Sprintf("every one of the %d intersecting paths of an open-ended horizontal first tests whether the next edge lies beyond the horizontal's end", n), bad,
			"an open path's last segment ends at its end point: without the range test the sweep runs on to the next closed edge and the open solution extends past the subject line")
	}
}

// ruleSplitRelabel: C02.split — when a horizontal join splits one ring in two, the points of the new ring are
// relabelled (fixOutRecPts(new)) BEFORE the old ring's entry point is tested for having moved to the new ring
// (`or1.pts.outrec == or2`), and that test repairs or1.pts.
func ruleSplitRelabel(rule string) func(*Ctx) {
	return func(c *Ctx) {
		f := c.fn("(clipperBase).processHorzJoins")
		if h := fnWithCallsTo(c, f, "(clipperBase).newOutRec", 0); h != nil {
			f = h // the same-ring arm may have been moved into a helper
		}
		var newRec *ssa.Call
		for _, ci := range callsTo(c, f, "(clipperBase).newOutRec") {
			newRec = ci.(*ssa.Call)
		}
		if newRec == nil {
			fatalf("processHorzJoins no longer creates a record for the split-off ring")
		}
		var test *ssa.BinOp
		for _, b := range f.Blocks {
			for _, in := range b.Instrs {
				bo, ok := in.(*ssa.BinOp)
				if !ok || bo.Op != token.EQL {
					continue
				}
				if (bo.Y == ssa.Value(newRec) && isFieldLoadOf(bo.X, "OutPt", "outrec")) || (bo.X == ssa.Value(newRec) && isFieldLoadOf(bo.Y, "OutPt", "outrec")) {
					test = bo
				}
			}
		}
		bad := ""
		switch {
		case test == nil:
			bad = "the test `or1.pts.outrec == or2` is gone: when the old ring's entry point ends up on the split-off ring, both records describe the same ring (one half is emitted twice, the other is lost)"
		default:
			ok := false
			for _, ci := range callsTo(c, f, "fixOutRecPts") {
				if ci.Common().Args[0] == ssa.Value(newRec) && precedes(ci, test) {
					ok = true
				}
			}
			if !ok {
				bad = "fixOutRecPts(new ring) does not precede the test `or1.pts.outrec == or2`: the points still carry the old label, so the test can never be true"
			} else {
				// the then-branch re-anchors or1.pts
				fixed := false
				for _, b := range f.Blocks {
					for _, in := range b.Instrs {
						st, ok := in.(*ssa.Store)
						if !ok {
							continue
						}
						if fa, ok := st.Addr.(*ssa.FieldAddr); ok && typeName(fa.X.Type()) == "*OutRec" && fieldName(fa.X.Type(), fa.Field) == "pts" &&
							guardedBy(st, true, func(v ssa.Value) bool { return v == ssa.Value(test) }) {
							fixed = true
						}
					}
				}
				if !fixed {
					bad = "the old ring's entry point is not re-anchored when it moved to the new ring"
				}
			}
		}
		pos := f.Pos()
		if test != nil {
			pos = test.Pos()
		}
		c.check(bad == "", rule, rule+":processHorzJoins:relabel-then-test", pos, "(clipperBase).processHorzJoins",
			"split-off ring is relabelled, then `or1.pts.outrec == or2` is tested and or1.pts re-anchored", bad,
			"after a self-join both records must own disjoint rings; otherwise one polygon is returned twice (winding 2) and the other piece vanishes")
	}
}

// isLenOf: v is len(p) (possibly through a spilled copy of the parameter).
func isLenOf(v ssa.Value, p *ssa.Parameter) bool {
	call, ok := v.(*ssa.Call)
	if !ok {
		return false
	}
	bi, ok := call.Call.Value.(*ssa.Builtin)
	if !ok || bi.Name() != "len" {
		return false
	}
	a := call.Call.Args[0]
	return a == ssa.Value(p) || paramOf(a) == p
}

// roleArg: the argument of a recorded call that feeds the callee parameter of the given name (or position).
func roleArg(cl callRec, role string, pos int) symVal {
	k := pos
	if cl.instr != nil {
		k = roleIndex(cl.instr, role, pos)
	}
	if k >= 0 && k < len(cl.args) {
		return cl.args[k]
	}
	return symVal{}
}

// allocatesFresh: f allocates a new value of the named struct type (so fields it never stores hold the zero value).
func allocatesFresh(f *ssa.Function, typ string) bool {
	for _, b := range f.Blocks {
		for _, in := range b.Instrs {
			if a, ok := in.(*ssa.Alloc); ok && typeName(a.Type()) == "*"+typ {
				return true
			}
		}
	}
	return false
}

// fnWithStoreTo: root itself when it stores the field, otherwise the fresh helper (up to two levels) that does.
func fnWithStoreTo(c *Ctx, root *ssa.Function, typ, field string, depth int) *ssa.Function {
	if len(fieldStoresIn(c, root, typ)[field]) > 0 {
		return root
	}
	if depth >= 2 {
		return nil
	}
	for _, ci := range calls(root) {
		g := ci.Common().StaticCallee()
		if g == nil || g == root || g.Blocks == nil || !c.freshFunc(g) {
			continue
		}
		if h := fnWithStoreTo(c, g, typ, field, depth+1); h != nil {
			return h
		}
	}
	return nil
}

// isWorkInstr: the instruction produces output in a loop iteration: an append, a store into a slice element, or a
// call to a function the reference record does not know (the loop body moved into a helper).
func isWorkInstr(c *Ctx, in ssa.Instruction) bool {
	switch x := in.(type) {
	case *ssa.Call:
		if bi, ok := x.Call.Value.(*ssa.Builtin); ok {
			return bi.Name() == "append"
		}
		if g := x.Call.StaticCallee(); g != nil && c.freshFunc(g) {
			return true
		}
	case *ssa.Store:
		if ia, ok := x.Addr.(*ssa.IndexAddr); ok {
			if _, isSlice := ia.X.Type().Underlying().(*types.Slice); isSlice {
				return true
			}
		}
	}
	return false
}

// freshRegion: f plus the functions the reference record does not know that f calls (two levels): the code of f
// after parts of it were moved into helpers.
func freshRegion(c *Ctx, f *ssa.Function) []*ssa.Function {
	out := []*ssa.Function{f}
	seen := map[*ssa.Function]bool{f: true}
	for d, frontier := 0, []*ssa.Function{f}; d < 2 && len(frontier) > 0; d++ {
		var next []*ssa.Function
		for _, h := range frontier {
			for _, ci := range calls(h) {
				if g := ci.Common().StaticCallee(); g != nil && !seen[g] && c.freshFunc(g) {
					seen[g] = true
					out = append(out, g)
					next = append(next, g)
				}
			}
		}
		frontier = next
	}
	return out
}

// allAppendStores: every `append(x, e...)` of f with the store that writes the appended element as its anchor.
func allAppendStores(f *ssa.Function) []appendStore {
	var out []appendStore
	for _, b := range f.Blocks {
		for _, in := range b.Instrs {
			call, ok := in.(*ssa.Call)
			if !ok {
				continue
			}
			if bi, ok := call.Call.Value.(*ssa.Builtin); !ok || bi.Name() != "append" {
				continue
			}
			if st := anchorStore(call); st != nil {
				out = append(out, appendStore{store: st, elems: appendedValues(call.Call.Args[1])})
			}
		}
	}
	sort.Slice(out, func(i, j int) bool { return out[i].store.Pos() < out[j].store.Pos() })
	return out
}

// quadLeaf: one possible value of an appended quad: the four-point literal itself (lit4), ReversePath of something
// (reversed), or something else; from -> to is the control-flow edge that selects it when the value is a phi.
type quadLeaf struct {
	reversed, lit4 bool
	from, to       *ssa.BasicBlock
}

func quadLeaves(c *Ctx, v ssa.Value, at *ssa.BasicBlock) []quadLeaf {
	for {
		if ct, ok := v.(*ssa.ChangeType); ok {
			v = ct.X
			continue
		}
		break
	}
	if ph, ok := v.(*ssa.Phi); ok {
		var out []quadLeaf
		for i, e := range ph.Edges {
			for _, lf := range quadLeaves(c, e, ph.Block().Preds[i]) {
				if lf.from == nil {
					lf.from, lf.to = ph.Block().Preds[i], ph.Block()
				}
				out = append(out, lf)
			}
		}
		return out
	}
	lf := quadLeaf{}
	if strings.HasPrefix(staticName(c, v), "ReversePath") {
		lf.reversed = true
	}
	if sl, ok := v.(*ssa.Slice); ok {
		if al, ok := sl.X.(*ssa.Alloc); ok {
			if pt, ok := al.Type().Underlying().(*types.Pointer); ok {
				if arr, ok := pt.Elem().Underlying().(*types.Array); ok && arr.Len() == 4 {
					lf.lit4 = true
				}
			}
		}
	}
	return []quadLeaf{lf}
}

// edgeDecidedBy: the control-flow edge from -> to is taken only when a condition satisfying pred has the value
// want: from ends in such a test (possibly negated) and `to` is the matching successor, or from itself is reached
// only under it.
func edgeDecidedBy(from, to *ssa.BasicBlock, want bool, pred func(ssa.Value) bool) bool {
	if ifi, ok := from.Instrs[len(from.Instrs)-1].(*ssa.If); ok && from.Succs[0] != from.Succs[1] {
		cond, neg := ifi.Cond, false
		for {
			u, ok := cond.(*ssa.UnOp)
			if !ok || u.Op != token.NOT {
				break
			}
			cond, neg = u.X, !neg
		}
		if pred(cond) {
			taken := from.Succs[0] == to // the edge is the 'true' successor
			return (taken != neg) == want
		}
	}
	if len(from.Instrs) > 0 {
		return guardedBy(from.Instrs[len(from.Instrs)-1], want, pred)
	}
	return false
}

// minkSigns: C08.sign on the SSA form, following helpers the reference record does not know. Every Point64 built
// from a sum or difference of two coordinates is classified: the operation on each axis, which operand comes from
// the PATH and which from the PATTERN (roots traced to parameters, through helper call sites), and the value of
// isSum under which it is built. Sum: path+pattern on both axes; difference: path-pattern on both axes.
func minkSigns(c *Ctx, f *ssa.Function) string {
	region := freshRegion(c, f)
	// role of a parameter of a region function: "pattern"/"path"/"isSum" — by name in minkowskiInternal, through
	// the call sites for helpers
	var roleOfParam func(p *ssa.Parameter, d int) string
	var rootRole func(v ssa.Value, d int) string
	roleOfParam = func(p *ssa.Parameter, d int) string {
		g := p.Parent()
		if g == f {
			for _, r := range []struct {
				n string
				i int
			}{{"pattern", 0}, {"path", 1}, {"isSum", 2}} {
				if param(f, r.n, r.i) == p {
					return r.n
				}
			}
			return "?"
		}
		if d > 3 {
			return "?"
		}
		idx := -1
		for i, q := range g.Params {
			if q == p {
				idx = i
			}
		}
		role := ""
		for _, h := range region {
			for _, ci := range calls(h) {
				if ci.Common().StaticCallee() != g || idx >= len(ci.Common().Args) {
					continue
				}
				r := rootRole(ci.Common().Args[idx], d+1)
				if role != "" && role != r {
					return "?"
				}
				role = r
			}
		}
		if role == "" {
			return "?"
		}
		return role
	}
	rootRole = func(v ssa.Value, d int) string {
		for k := 0; k < 12; k++ {
			switch x := v.(type) {
			case *ssa.Parameter:
				return roleOfParam(x, d)
			case *ssa.UnOp:
				if x.Op == token.MUL {
					v = x.X
					continue
				}
				return "?"
			case *ssa.FieldAddr:
				v = x.X
				continue
			case *ssa.Field:
				v = x.X
				continue
			case *ssa.IndexAddr:
				v = x.X
				continue
			case *ssa.Index:
				v = x.X
				continue
			case *ssa.Slice:
				v = x.X
				continue
			case *ssa.ChangeType:
				v = x.X
				continue
			case *ssa.Alloc:
				// a local copy (range variable, parameter spilled to the stack): follow the one whole-value store
				var src ssa.Value
				cnt := 0
				for _, r := range *x.Referrers() {
					if st, ok := r.(*ssa.Store); ok && st.Addr == ssa.Value(x) {
						src = st.Val
						cnt++
					}
				}
				if cnt == 1 {
					v = src
					continue
				}
				return "?"
			}
			return "?"
		}
		return "?"
	}
	type build struct {
		op    map[string]string // axis -> "path+pattern" ...
		guard string            // "sum", "diff", ""
		pos   token.Pos
	}
	builds := map[ssa.Value]*build{}
	var order []ssa.Value
	for _, h := range region {
		for _, b := range h.Blocks {
			for _, in := range b.Instrs {
				st, ok := in.(*ssa.Store)
				if !ok {
					continue
				}
				fa, ok := st.Addr.(*ssa.FieldAddr)
				if !ok || typeName(fa.X.Type()) != "*Point64" {
					continue
				}
				bo, ok := st.Val.(*ssa.BinOp)
				if !ok || (bo.Op != token.ADD && bo.Op != token.SUB) {
					continue
				}
				axis := fieldName(fa.X.Type(), fa.Field)
				bd := builds[fa.X]
				if bd == nil {
					bd = &build{op: map[string]string{}, pos: st.Pos()}
					builds[fa.X] = bd
					order = append(order, fa.X)
				}
				bd.op[axis] = rootRole(bo.X, 0) + bo.Op.String() + rootRole(bo.Y, 0)
				isSumTest := func(v ssa.Value) bool {
					pr, ok := v.(*ssa.Parameter)
					return ok && roleOfParam(pr, 0) == "isSum"
				}
				switch {
				case guardedBy(st, true, isSumTest):
					bd.guard = "sum"
				case guardedBy(st, false, isSumTest):
					bd.guard = "diff"
				}
			}
		}
	}
	seen := map[string]bool{}
	for _, k := range order {
		bd := builds[k]
		x, y := bd.op["X"], bd.op["Y"]
		at := c.pos(bd.pos)
		if !strings.Contains(x, "pattern") && !strings.Contains(y, "pattern") {
			continue // not a placed pattern point (e.g. a step vector between two path points)
		}
		switch bd.guard {
		case "sum":
			seen["sum"] = true
			if (x != "path+pattern" && x != "pattern+path") || (y != "path+pattern" && y != "pattern+path") {
				return fmt.Sprintf("sum branch builds {X: %s, Y: %s} at %s, want path point plus pattern point on both axes", x, y, at)
			}
		case "diff":
			seen["diff"] = true
			if x != "path-pattern" || y != "path-pattern" {
				return fmt.Sprintf("difference branch builds {X: %s, Y: %s} at %s, want path point minus pattern point on both axes", x, y, at)
			}
		default:
			return fmt.Sprintf("a point {X: %s, Y: %s} is built at %s under no test of isSum", x, y, at)
		}
	}
	if !seen["sum"] || !seen["diff"] {
		return fmt.Sprintf("no point is built from path and pattern under isSum=%v", !seen["sum"])
	}
	return ""
}

// lowestStart: the running "lowest point so far" of the lowest-path scan either starts at the sentinel
// {X: MaxInt64, Y: MinInt64} (which every vertex beats), or every comparison against it is made only once a lowest
// point exists (a test of the carried index / a found-flag on the way). A zero-valued start compared unguarded makes
// (0,0) the point to beat: input in the negative-Y half-plane has no lowest path.
func lowestStart(c *Ctx, f *ssa.Function) string {
	loops := naturalLoops(f)
	if len(loops) != 2 {
		return ""
	}
	inner, outer := loops[0], loops[1]
	if len(inner.blocks) > len(outer.blocks) {
		inner, outer = outer, inner
	}
	for _, b := range f.Blocks {
		for _, in := range b.Instrs {
			al, ok := in.(*ssa.Alloc)
			if !ok || typeName(al.Type()) != "*Point64" {
				continue
			}
			// updated inside the inner loop, read in comparisons there
			updated, isRangeVar := false, false
			var cmps []*ssa.BinOp
			initX, initY := "zero", "zero"
			for _, r := range *al.Referrers() {
				switch x := r.(type) {
				case *ssa.Store:
					if x.Addr == ssa.Value(al) {
						if inner.blocks[x.Block()] {
							updated = true
							if u, ok := x.Val.(*ssa.UnOp); ok && u.Op == token.MUL {
								if _, isElem := u.X.(*ssa.IndexAddr); isElem {
									isRangeVar = true // the loop's own element variable, not a running extremum
								}
							}
						} else if !outer.blocks[x.Block()] {
							initX, initY = "?", "?"
							// botPt := Point64{X: ..., Y: ...}: the literal is built in a temporary and copied
							if u, ok := x.Val.(*ssa.UnOp); ok && u.Op == token.MUL {
								if tmp, ok := u.X.(*ssa.Alloc); ok {
									initX, initY = "zero", "zero"
									for _, tr := range *tmp.Referrers() {
										if tfa, ok := tr.(*ssa.FieldAddr); ok {
											for _, tr2 := range *tfa.Referrers() {
												if ts, ok := tr2.(*ssa.Store); ok {
													v := "?"
													if k, ok := ts.Val.(*ssa.Const); ok && k.Value != nil {
														v = k.Value.ExactString()
													}
													if fieldName(tfa.X.Type(), tfa.Field) == "X" {
														initX = v
													} else {
														initY = v
													}
												}
											}
										}
									}
								}
							}
						}
					}
				case *ssa.FieldAddr:
					fld := fieldName(x.X.Type(), x.Field)
					for _, r2 := range *x.Referrers() {
						switch y := r2.(type) {
						case *ssa.Store:
							if inner.blocks[y.Block()] {
								updated = true
							} else if !outer.blocks[y.Block()] {
								v := "?"
								if k, ok := y.Val.(*ssa.Const); ok && k.Value != nil {
									v = k.Value.ExactString()
								}
								if fld == "X" {
									initX = v
								} else {
									initY = v
								}
							}
						case *ssa.UnOp:
							for _, r3 := range *y.Referrers() {
								if bo, ok := r3.(*ssa.BinOp); ok && inner.blocks[bo.Block()] {
									switch bo.Op {
									case token.LSS, token.GTR, token.LEQ, token.GEQ, token.EQL, token.NEQ:
										cmps = append(cmps, bo)
									}
								}
							}
						}
					}
				}
			}
			if !updated || len(cmps) == 0 || isRangeVar {
				continue
			}
			if initX == "9223372036854775807" && initY == "-9223372036854775808" {
				continue // the sentinel every vertex beats
			}
			// otherwise each comparison needs "a lowest point exists" on the way
			exists := func(v ssa.Value) bool {
				bo, ok := v.(*ssa.BinOp)
				if !ok {
					if _, isPhi := v.(*ssa.Phi); isPhi {
						return true // a found-flag
					}
					return false
				}
				k, isK := bo.Y.(*ssa.Const)
				_, isPhi := bo.X.(*ssa.Phi)
				return isK && isPhi && k.Value != nil && (k.Int64() == 0 || k.Int64() == -1) && isInt64orInt(bo.X.Type())
			}
			for _, bo := range cmps {
				if !guardedBy(bo, true, exists) && !guardedBy(bo, false, exists) {
					return fmt.Sprintf("the lowest point so far starts at {X: %s, Y: %s}, not at the sentinel {MaxInt64, MinInt64}, and is compared at %s before any lowest point exists: vertices are measured against that start value (input lying in the negative-Y half-plane has no lowest path, so the group's orientation is lost)", initX, initY, c.pos(bo.Pos()))
				}
			}
		}
	}
	return ""
}

func isInt64orInt(t types.Type) bool {
	bt, ok := t.Underlying().(*types.Basic)
	return ok && bt.Info()&types.IsInteger != 0
}
