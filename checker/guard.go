package main

import (
	"fmt"
	"go/constant"
	"go/token"
	"go/types"
	"math"
	"sort"
	"strings"

	"golang.org/x/tools/go/ssa"
)

// GUARD — partial-function discipline (C03): explicit-panic inventory, non-negative make sizes, non-zero
// constant integer divisors.

type ival struct {
	lo, hi float64 // +-Inf for unbounded
}

var top = ival{math.Inf(-1), math.Inf(1)}

func (a ival) add(b ival) ival { return ival{a.lo + b.lo, a.hi + b.hi} }
func (a ival) sub(b ival) ival { return ival{a.lo - b.hi, a.hi - b.lo} }
func (a ival) mul(b ival) ival {
	c := []float64{mulInf(a.lo, b.lo), mulInf(a.lo, b.hi), mulInf(a.hi, b.lo), mulInf(a.hi, b.hi)}
	sort.Float64s(c)
	return ival{c[0], c[3]}
}
func mulInf(x, y float64) float64 {
	if x == 0 || y == 0 {
		return 0
	}
	return x * y
}
func hull(a, b ival) ival { return ival{math.Min(a.lo, b.lo), math.Max(a.hi, b.hi)} }

// onceCell: v is a load of a variable cell that is assigned exactly once (a local captured by a closure lives in a
// heap cell even when it is never reassigned: `n := len(p)` then `func() { ... n ... }`): the load IS the stored
// value. nil otherwise.
func onceCell(v ssa.Value) ssa.Value {
	u, ok := v.(*ssa.UnOp)
	if !ok || u.Op != token.MUL {
		return nil
	}
	al, ok := u.X.(*ssa.Alloc)
	if !ok || al.Referrers() == nil {
		return nil
	}
	var st *ssa.Store
	for _, r := range *al.Referrers() {
		switch x := r.(type) {
		case *ssa.Store:
			if x.Addr != ssa.Value(al) || st != nil {
				return nil
			}
			st = x
		case *ssa.UnOp:
			if x.Op != token.MUL {
				return nil
			}
		case *ssa.MakeClosure:
			fn, _ := x.Fn.(*ssa.Function)
			if fn == nil {
				return nil
			}
			for i, bnd := range x.Bindings {
				if bnd != ssa.Value(al) || i >= len(fn.FreeVars) {
					continue
				}
				if refs := fn.FreeVars[i].Referrers(); refs != nil {
					for _, fr := range *refs {
						if lu, isLoad := fr.(*ssa.UnOp); !isLoad || lu.Op != token.MUL {
							return nil // the closure writes the cell or passes its address on
						}
					}
				}
			}
		case *ssa.DebugRef:
		default:
			return nil
		}
	}
	if st == nil || !(st.Block() == u.Block() || st.Block().Dominates(u.Block())) {
		return nil
	}
	if st.Block() == u.Block() && instrIndex(st) > instrIndex(u) {
		return nil
	}
	return st.Val
}

// sameExpr: structural equality of pure integer expressions (SSA does no CSE).
func sameExpr(a, b ssa.Value, d int) bool {
	if w := onceCell(a); w != nil {
		a = w
	}
	if w := onceCell(b); w != nil {
		b = w
	}
	if a == b {
		return true
	}
	if d > 6 {
		return false
	}
	switch x := a.(type) {
	case *ssa.BinOp:
		y, ok := b.(*ssa.BinOp)
		return ok && x.Op == y.Op && sameExpr(x.X, y.X, d+1) && sameExpr(x.Y, y.Y, d+1)
	case *ssa.Const:
		y, ok := b.(*ssa.Const)
		return ok && x.Value != nil && y.Value != nil && constant.Compare(x.Value, token.EQL, y.Value)
	case *ssa.Call:
		y, ok := b.(*ssa.Call)
		if !ok {
			return false
		}
		bx, ok1 := x.Call.Value.(*ssa.Builtin)
		by, ok2 := y.Call.Value.(*ssa.Builtin)
		if ok1 && ok2 && bx.Name() == by.Name() && (bx.Name() == "len" || bx.Name() == "cap") {
			return sameExpr(x.Call.Args[0], y.Call.Args[0], d+1)
		}
	case *ssa.UnOp:
		y, ok := b.(*ssa.UnOp)
		return ok && x.Op == y.Op && x.Op != token.MUL && sameExpr(x.X, y.X, d+1)
	case *ssa.Convert:
		y, ok := b.(*ssa.Convert)
		return ok && sameExpr(x.X, y.X, d+1)
	}
	return false
}

// bound computes an interval for integer value v as seen in block `at` (dominating branch refinement).
func bound(v ssa.Value, at *ssa.BasicBlock, depth int, seen map[ssa.Value]bool) ival {
	if depth > 12 || seen[v] {
		return top
	}
	seen[v] = true
	defer delete(seen, v)
	if w := onceCell(v); w != nil {
		return bound(w, at, depth+1, seen)
	}
	r := top
	switch x := v.(type) {
	case *ssa.Const:
		if x.Value != nil {
			if f, ok := constant.Float64Val(constant.ToFloat(x.Value)); ok {
				r = ival{f, f}
			}
		} else {
			r = ival{0, 0}
		}
	case *ssa.Call:
		if bi, ok := x.Call.Value.(*ssa.Builtin); ok && (bi.Name() == "len" || bi.Name() == "cap") {
			r = ival{0, math.Inf(1)}
		} else if bi, ok := x.Call.Value.(*ssa.Builtin); ok && (bi.Name() == "max" || bi.Name() == "min") {
			r = bound(x.Call.Args[0], at, depth+1, seen)
			for _, a := range x.Call.Args[1:] {
				o := bound(a, at, depth+1, seen)
				if bi.Name() == "max" {
					r = ival{math.Max(r.lo, o.lo), math.Max(r.hi, o.hi)}
				} else {
					r = ival{math.Min(r.lo, o.lo), math.Min(r.hi, o.hi)}
				}
			}
		}
	case *ssa.Phi:
		first := true
		for _, e := range x.Edges {
			b := bound(e, x.Block(), depth+1, seen)
			if e == ssa.Value(x) {
				continue
			}
			if first {
				r, first = b, false
			} else {
				r = hull(r, b)
			}
		}
		// loop-carried growth is not modelled: if the phi feeds itself the interval is only the hull of its entries and may grow
		for _, e := range x.Edges {
			if dependsOn(e, x, 0) {
				r = ival{math.Min(r.lo, math.Inf(-1)), math.Inf(1)}
				// an induction variable that only grows keeps its lower bound
				if bo, ok := e.(*ssa.BinOp); ok && bo.Op == token.ADD && bo.X == ssa.Value(x) {
					if k, ok := bo.Y.(*ssa.Const); ok && k.Int64() > 0 {
						first = true
						lo := math.Inf(1)
						for _, e2 := range x.Edges {
							if !dependsOn(e2, x, 0) {
								lo = math.Min(lo, bound(e2, x.Block(), depth+1, seen).lo)
							}
						}
						r.lo = lo
					}
				}
			}
		}
	case *ssa.BinOp:
		a, b := bound(x.X, at, depth+1, seen), bound(x.Y, at, depth+1, seen)
		switch x.Op {
		case token.ADD:
			r = a.add(b)
		case token.SUB:
			r = a.sub(b)
		case token.MUL:
			r = a.mul(b)
		case token.QUO:
			if b.lo == b.hi && b.lo > 0 && a.lo >= 0 {
				r = ival{math.Floor(a.lo / b.lo), a.hi / b.lo}
			}
		case token.REM:
			if b.lo == b.hi && b.lo > 0 && a.lo >= 0 {
				r = ival{0, b.lo - 1}
			}
		}
	case *ssa.Convert:
		if isSignedInt(x.X.Type()) || isUnsignedInt(x.X.Type()) {
			r = bound(x.X, at, depth+1, seen)
		}
	case *ssa.ChangeType:
		r = bound(x.X, at, depth+1, seen)
	}
	// refinement by dominating branches on structurally equal expressions
	for d := at; d != nil; d = d.Idom() {
		if len(d.Preds) != 1 {
			continue
		}
		p := d.Preds[0]
		ifi, ok := p.Instrs[len(p.Instrs)-1].(*ssa.If)
		if !ok || p.Succs[0] == p.Succs[1] {
			continue
		}
		cmp, ok := ifi.Cond.(*ssa.BinOp)
		if !ok {
			continue
		}
		taken := p.Succs[0] == d
		op := cmp.Op
		lhs, rhs := cmp.X, cmp.Y
		if !sameExpr(lhs, v, 0) {
			if sameExpr(rhs, v, 0) {
				lhs, rhs = rhs, lhs
				switch op {
				case token.LSS:
					op = token.GTR
				case token.GTR:
					op = token.LSS
				case token.LEQ:
					op = token.GEQ
				case token.GEQ:
					op = token.LEQ
				}
			} else {
				continue
			}
		}
		if !taken {
			switch op {
			case token.LSS:
				op = token.GEQ
			case token.GEQ:
				op = token.LSS
			case token.GTR:
				op = token.LEQ
			case token.LEQ:
				op = token.GTR
			case token.EQL:
				op = token.NEQ
			case token.NEQ:
				op = token.EQL
			}
		}
		ob := bound(rhs, p, depth+1, seen)
		switch op {
		case token.GEQ:
			r.lo = math.Max(r.lo, ob.lo)
		case token.GTR:
			r.lo = math.Max(r.lo, ob.lo+1)
		case token.LEQ:
			r.hi = math.Min(r.hi, ob.hi)
		case token.LSS:
			r.hi = math.Min(r.hi, ob.hi-1)
		case token.EQL:
			r.lo, r.hi = math.Max(r.lo, ob.lo), math.Min(r.hi, ob.hi)
		case token.NEQ:
			if ob.lo == ob.hi {
				if r.lo == ob.lo {
					r.lo++
				}
				if r.hi == ob.lo {
					r.hi--
				}
			}
		}
	}
	return r
}

func isUnsignedInt(t types.Type) bool {
	b, ok := t.Underlying().(*types.Basic)
	return ok && b.Info()&types.IsUnsigned != 0
}

func dependsOn(v ssa.Value, target ssa.Value, d int) bool {
	if v == target {
		return true
	}
	if d > 6 {
		return false
	}
	switch x := v.(type) {
	case *ssa.BinOp:
		return dependsOn(x.X, target, d+1) || dependsOn(x.Y, target, d+1)
	case *ssa.Phi:
		for _, e := range x.Edges {
			if e != ssa.Value(x) && dependsOn(e, target, d+1) {
				return true
			}
		}
	case *ssa.Convert:
		return dependsOn(x.X, target, d+1)
	}
	return false
}

func ruleMakeSizes(rule string) func(*Ctx) {
	return func(c *Ctx) {
		n := 0
		for _, f := range c.srcFuncs() {
			fn := c.fname(f)
			k := 0
			for _, b := range f.Blocks {
				for _, in := range b.Instrs {
					// slices.Grow(s, n) panics on a negative n exactly like make on a negative size
					if gc, isCall := in.(*ssa.Call); isCall {
						if g := gc.Call.StaticCallee(); g != nil && len(gc.Call.Args) == 2 {
							gn, gp := g.Name(), ""
							if o := g.Origin(); o != nil {
								gn = o.Name()
								if o.Pkg != nil {
									gp = o.Pkg.Pkg.Path()
								}
							} else if g.Pkg != nil {
								gp = g.Pkg.Pkg.Path()
							}
							if gp == "slices" && gn == "Grow" {
								k++
								n++
								iv := bound(gc.Call.Args[1], b, 0, map[ssa.Value]bool{})
								badg := ""
								if !(iv.lo >= 0) {
									src := "can be negative"
									if fromFloat(gc.Call.Args[1], 0) {
										src = "comes from an unchecked float->int conversion (NaN/Inf/huge values convert to an arbitrary integer)"
									}
									badg = fmt.Sprintf("slices.Grow(_, %s): lower bound %v — %s", exprOf(gc.Call.Args[1]), iv.lo, src)
								}
								c.check(badg == "", rule, fmt.Sprintf("%s:%s:grow#%d", rule, fn, k), gc.Pos(), fn,
									"the size handed to slices.Grow is provably >= 0", badg,
									"slices.Grow panics on a negative size: an exported function must return normally for every in-range input")
							}
						}
					}
					ms, ok := in.(*ssa.MakeSlice)
					if !ok {
						continue
					}
					k++
					n++
					bad := ""
					for _, op := range []struct {
						name string
						v    ssa.Value
					}{{"len", ms.Len}, {"cap", ms.Cap}} {
						iv := bound(op.v, b, 0, map[ssa.Value]bool{})
						if !(iv.lo >= 0) {
							src := "can be negative"
							if fromFloat(op.v, 0) {
								src = "comes from an unchecked float->int conversion (NaN/Inf/huge values convert to an arbitrary integer)"
							}
							bad = fmt.Sprintf("make(%s) %s operand %s: lower bound %v — %s", ms.Type(), op.name, exprOf(op.v), iv.lo, src)
						}
					}
					c.check(bad == "", rule, fmt.Sprintf("%s:%s:make#%d", rule, fn, k), ms.Pos(), fn,
						"len and cap operands are provably >= 0 (len(), constants, guarded differences)", bad,
						"make panics on a negative size: an exported function must return normally for every in-range input (MinkowskiSum64(pattern, {}, false) panicked with cap -len(pattern))")
				}
			}
		}
		c.floor(rule, n, 10) // an inventory of hazards: fewer is fine; the floor only guards against a blind detector
	}
}

func fromFloat(v ssa.Value, d int) bool {
	if d > 8 {
		return false
	}
	switch x := v.(type) {
	case *ssa.Convert:
		return isFloat(x.X.Type())
	case *ssa.Phi:
		for _, e := range x.Edges {
			if e != ssa.Value(x) && fromFloat(e, d+1) {
				return true
			}
		}
	case *ssa.BinOp:
		return fromFloat(x.X, d+1) || fromFloat(x.Y, d+1)
	}
	return false
}

func exprOf(v ssa.Value) string {
	switch x := v.(type) {
	case *ssa.BinOp:
		return "(" + exprOf(x.X) + " " + x.Op.String() + " " + exprOf(x.Y) + ")"
	case *ssa.Const:
		return x.String()
	case *ssa.Phi:
		if x.Comment != "" {
			return x.Comment
		}
	case *ssa.Parameter:
		return x.Name()
	case *ssa.Call:
		if bi, ok := x.Call.Value.(*ssa.Builtin); ok {
			return bi.Name() + "(" + exprOf(x.Call.Args[0]) + ")"
		}
	case *ssa.Convert:
		return typeName(x.Type()) + "(" + exprOf(x.X) + ")"
	case *ssa.UnOp:
		if al, ok := x.X.(*ssa.Alloc); ok && x.Op == token.MUL && al.Comment != "" {
			return al.Comment
		}
	}
	return v.Name()
}

func ruleDivisors(rule string) func(*Ctx) {
	return func(c *Ctx) {
		n := 0
		for _, f := range c.srcFuncs() {
			fn := c.fname(f)
			k := 0
			for _, b := range f.Blocks {
				for _, in := range b.Instrs {
					bo, ok := in.(*ssa.BinOp)
					if !ok || (bo.Op != token.QUO && bo.Op != token.REM) {
						continue
					}
					bt, ok := bo.Type().Underlying().(*types.Basic)
					if !ok || bt.Info()&types.IsInteger == 0 {
						continue
					}
					k++
					n++
					kc, isK := bo.Y.(*ssa.Const)
					okDiv := isK && kc.Value != nil && constant.Sign(kc.Value) != 0
					if !okDiv && !isK {
						// a divisor the dominating branches prove positive (n := len(p); if n < 3 { return })
						if iv := bound(bo.Y, b, 0, map[ssa.Value]bool{}); iv.lo >= 1 || iv.hi <= -1 {
							okDiv = true
						}
					}
					c.check(okDiv, rule, fmt.Sprintf("%s:%s:div#%d", rule, fn, k), bo.Pos(), fn,
						"integer divisor is a non-zero constant, or proven non-zero by the dominating branches: "+bo.Y.String(), "integer division/remainder by a value that is neither a non-zero constant nor proven non-zero by the dominating branches: "+exprOf(bo.Y),
						"integer division by zero panics")
				}
			}
		}
		c.floor(rule, n, 2)
	}
}

// rulePanics: inventory of explicit panics.
func rulePanics(rule string) func(*Ctx) {
	return func(c *Ctx) {
		allowed := map[string]string{
			"checkPrecision:ErrPrecisionRange":                       "the documented precision-range panic",
			"NewClipperD:ErrPrecisionRange":                          "the documented precision-range panic",
			"StripDuplicates:ErrInvalidRemoveListIndex":              "removeAtIndex(result, len(result)-1): result holds at least path[0] (appended before), so the index is valid and the error branch is unreachable",
			"(clipperBase).insertScanline:ErrInvalidRemoveListIndex": "insertAtIndex(list, ^binarySearch(...)): a negative binarySearch result r encodes insertion point ^r in [0, len], which insertAtIndex accepts",
			"(clipperBase).popScanline:ErrInvalidRemoveListIndex":    "removeAtIndex(list, cnt) with cnt = len-1 >= 0 after the `cnt < 0 -> return` test, and cnt >= 0 in the loop condition",
		}
		n := 0
		for _, f := range c.srcFuncs() {
			fn := c.fname(f)
			k := map[string]int{}
			for _, b := range f.Blocks {
				for _, in := range b.Instrs {
					p, ok := in.(*ssa.Panic)
					if !ok {
						continue
					}
					if !p.Pos().IsValid() {
						// the two checks go/ssa synthesises around a range-over-func loop (the iterator misbehaving),
						// not a panic written in the source
						if k, isK := p.X.(*ssa.MakeInterface); isK {
							if ks, isS := k.X.(*ssa.Const); isS && ks.Value != nil && (strings.Contains(ks.Value.String(), "iterator call did not preserve panic") || strings.Contains(ks.Value.String(), "yield function called after range loop exit")) {
								continue
							}
						}
					}
					n++
					what := renderPanic(p)
					k[what]++
					reason, ok := allowed[fn+":"+what]
					bad := ""
					if !ok {
						bad = "explicit panic(" + what + ") that is not in the reviewed inventory"
					} else if what == "ErrInvalidRemoveListIndex" {
						bad = removePremise(c, f, p)
					}
					c.check(bad == "", rule, fmt.Sprintf("%s:%s:%s#%d", rule, fn, what, k[what]), p.Pos(), fn, "reviewed: "+reason, bad,
						"the only permitted panic is the documented precision-range error; any other explicit panic reachable from the API breaks totality")
				}
			}
		}
		c.floor(rule, n, 1)
	}
}

// removePremise checks the structural premise that makes an index-error panic unreachable: the panic is guarded
// by `err != nil` of a removeAtIndex/insertAtIndex call whose index operand has the reviewed shape.
func removePremise(c *Ctx, f *ssa.Function, p *ssa.Panic) string {
	// find the governing call: the nearest dominating call to removeAtIndex / insertAtIndex
	var call *ssa.Call
	for _, ci := range calls(f) {
		cl, ok := ci.(*ssa.Call)
		if !ok {
			continue
		}
		n := calleeName(c, cl)
		if (n == "removeAtIndex" || n == "insertAtIndex") && precedes(cl, p) {
			if call == nil || precedes(call, cl) {
				call = cl
			}
		}
	}
	if call == nil {
		return "the panic is not the error branch of removeAtIndex/insertAtIndex"
	}
	idx := call.Call.Args[1]
	name := calleeName(c, call)
	iv := bound(idx, call.Block(), 0, map[ssa.Value]bool{})
	switch name {
	case "removeAtIndex":
		// index must be `len(s) - 1`-like with s non-empty, or a counter proven >= 0 that is below len by construction
		if iv.lo >= 0 {
			return ""
		}
		// len(result)-1 where result was appended to before
		if bo, ok := idx.(*ssa.BinOp); ok && bo.Op == token.SUB && isConstInt(bo.Y, 1) {
			if l, ok := bo.X.(*ssa.Call); ok {
				if bi, ok := l.Call.Value.(*ssa.Builtin); ok && bi.Name() == "len" {
					if hasDominatingAppend(l.Call.Args[0], call, 0) {
						return ""
					}
				}
			}
		}
		return "removeAtIndex index " + exprOf(idx) + " is not provably within range (lower bound " + fmt.Sprint(iv.lo) + ")"
	case "insertAtIndex":
		// index = ^r where r is binarySearch's negative result
		if bo, ok := idx.(*ssa.BinOp); ok && bo.Op == token.XOR {
			return ""
		}
		if u, ok := idx.(*ssa.UnOp); ok && u.Op == token.XOR {
			return ""
		}
		return "insertAtIndex index is not the complement of binarySearch's result: " + exprOf(idx)
	}
	return ""
}

// hasDominatingAppend: slice value s was produced (possibly through phis) by append calls only, at least one of
// which precedes `at` — i.e. it is non-empty there.
func hasDominatingAppend(s ssa.Value, at ssa.Instruction, d int) bool {
	return nonEmptyByAppend(s, map[ssa.Value]bool{})
}

func nonEmptyByAppend(s ssa.Value, seen map[ssa.Value]bool) bool {
	if seen[s] {
		return true // coinductive: a cycle of phis adds no new origin
	}
	seen[s] = true
	switch x := s.(type) {
	case *ssa.Call:
		if bi, ok := x.Call.Value.(*ssa.Builtin); ok && bi.Name() == "append" {
			return true
		}
	case *ssa.Phi:
		for _, e := range x.Edges {
			if e == ssa.Value(x) {
				continue
			}
			if !nonEmptyByAppend(e, seen) {
				return false
			}
		}
		return len(x.Edges) > 0
	}
	return false
}

// ruleRectFast: C06.fast — bounds of the CURRENT path; disjoint -> skipped; contained -> the input path itself.
func ruleRectFast(rule string) func(*Ctx) {
	return func(c *Ctx) {
		f := c.fn("(RectClip64).Execute")
		loops := naturalLoops(f)
		var outer *loopInfo
		for _, l := range loops {
			if outer == nil || len(l.blocks) > len(outer.blocks) {
				outer = l
			}
		}
		if outer == nil {
			fatalf("RectClip64.Execute: no loop")
		}
		ll := outer
		outs := (&explorer{c: c, f: f, maxPaths: 4000, stop: func(b *ssa.BasicBlock) bool { return !ll.blocks[b] }}).explore(outer.header)
		bad := ""
		sawSkip, sawKeep, sawClip := false, false, false
		for _, p := range outs {
			if p.end != "loop" {
				continue
			}
			var elem string
			for _, s := range p.stores {
				if strings.HasSuffix(s.addr, ".pathBounds") {
					if !strings.HasPrefix(s.val.expr, "getBounds(") {
						bad = "pathBounds is not getBounds(path): " + s.val.expr
					}
					elem = strings.TrimSuffix(strings.TrimPrefix(s.val.expr, "getBounds("), ")")
				}
			}
			inter, cont := 0, 0 // 0 unknown, 1 true, 2 false
			for _, cd := range p.conds {
				if strings.HasPrefix(cd.expr, "(Rect64).Intersects(") {
					inter = map[bool]int{true: 1, false: 2}[cd.taken]
					if !strings.Contains(cd.expr, ".pathBounds") {
						bad = "Intersects is not asked about the current path's bounds"
					}
				}
				if strings.HasPrefix(cd.expr, "(Rect64).Contains(") {
					cont = map[bool]int{true: 1, false: 2}[cd.taken]
					if !strings.Contains(cd.expr, ".pathBounds") {
						bad = "Contains is not asked about the current path's bounds"
					}
				}
			}
			runs := p.called("(RectClip64).executeInternal")
			switch {
			case inter == 2:
				sawSkip = true
				if runs || p.called("builtin.append") {
					bad = "a path whose bounds miss the rectangle is still processed"
				}
			case inter == 1 && cont == 1:
				sawKeep = true
				if runs {
					bad = "a contained path is still clipped"
				}
				ok := false
				for _, cl := range p.calls {
					if cl.callee == "builtin.append" {
						ok = true
					}
				}
				if !ok {
					bad = "a contained path is not appended to the result"
				}
				// the appended element must be the loop's current path (same expression as the bounds argument)
				found := false
				for _, s := range p.stores {
					if s.val.expr == elem {
						found = true
					}
				}
				if !found && elem != "" {
					bad = "the path returned for a contained input is not the input path itself"
				}
			case inter == 1 && cont == 2:
				if runs {
					sawClip = true
				}
			}
		}
		if bad == "" && !(sawSkip && sawKeep && sawClip) {
			bad = fmt.Sprintf("fast paths incomplete: skip=%v keep=%v clip=%v", sawSkip, sawKeep, sawClip)
		}
		c.check(bad == "", rule, rule+":(RectClip64).Execute:fast-paths", f.Pos(), "(RectClip64).Execute",
			"pathBounds = getBounds(current path); disjoint -> skipped; contained -> the input path itself appended; otherwise clipped", bad,
			"paths entirely inside must be returned unchanged and paths entirely outside must vanish; bounds of another path or a stale value break both")
	}
}

// ruleConstIndex: C03.index — a constant index c into a slice PARAMETER needs len(param) > c, established by a
// dominating guard in the function or, for unexported functions, at every call site (precondition push-down).
// Variable indices are out of scope; an argument that is a struct field (r.rectPath, built with 4 corners by the
// constructor) is an object invariant, also out of scope (stated in evidence).
func ruleConstIndex(rule string, reviewed map[string]string) func(*Ctx) {
	return func(c *Ctx) {
		g := c.callgraphCHA()
		api := map[*ssa.Function]bool{}
		for _, e := range c.apiEntries() {
			api[e] = true
		}
		n := 0
		for _, f := range c.srcFuncs() {
			fn := c.fname(f)
			type agg struct {
				p     *ssa.Parameter
				sites int
				need  float64 // largest unguarded requirement
				pos   token.Pos
			}
			per := map[*ssa.Parameter]*agg{}
			var order []*ssa.Parameter
			for _, b := range f.Blocks {
				for _, in := range b.Instrs {
					ia, ok := in.(*ssa.IndexAddr)
					if !ok {
						continue
					}
					p := paramOf(ia.X)
					if p == nil {
						continue
					}
					if _, isSlice := p.Type().Underlying().(*types.Slice); !isSlice {
						continue
					}
					k, ok := ia.Index.(*ssa.Const)
					if !ok || k.Value == nil {
						continue
					}
					a := per[p]
					if a == nil {
						a = &agg{p: p, pos: ia.Pos()}
						per[p] = a
						order = append(order, p)
					}
					a.sites++
					need := float64(k.Int64() + 1)
					if lenLower(f, p, b) < need && need > a.need {
						a.need = need
						a.pos = ia.Pos()
					}
				}
			}
			for _, p := range order {
				a := per[p]
				n++
				pk := -1
				for i, q := range f.Params {
					if q == p {
						pk = i
					}
				}
				key := fmt.Sprintf("%s:%s:param#%d", rule, fn, pk) // by position: renaming a parameter changes nothing
				if a.need == 0 {
					c.pass(rule, key, a.pos, fn, fmt.Sprintf("%d constant-index reads of %s, each dominated by a guard on len(%s)", a.sites, p.Name(), p.Name()))
					continue
				}
				if r, ok := reviewed[fmt.Sprintf("%s:param#%d", fn, pk)]; ok {
					c.add(Ob{Rule: rule, Key: key, Pos: c.pos(a.pos), Func: fn, Status: Pass, Detail: "reviewed by hand (this one parameter): " + r})
					continue
				}
				bad := ""
				detail := ""
				if api[f] {
					bad = fmt.Sprintf("%s[%v] in an exported function is not guarded by a length test: a shorter input panics", p.Name(), a.need-1)
				} else {
					pi := -1
					for i, q := range f.Params {
						if q == p {
							pi = i
						}
					}
					node := g.Nodes[f]
					sites, inv := 0, 0
					if node != nil {
						for _, e := range node.In {
							if e.Site == nil || e.Site.Common().StaticCallee() != f {
								continue
							}
							sites++
							arg := e.Site.Common().Args[pi]
							if isFieldValue(arg) {
								inv++
								continue
							}
							if argLenLower(e.Site.Parent(), arg, e.Site.Block()) < a.need {
								bad = fmt.Sprintf("%s reads %s[%v] but its caller %s (at %s) does not establish len >= %v for the argument", fn, p.Name(), a.need-1, c.fname(e.Site.Parent()), c.pos(e.Site.Pos()), a.need)
							}
						}
					}
					detail = fmt.Sprintf("%s needs len(%s) >= %v: established at %d call sites, %d pass a struct field (object invariant, out of scope)", fn, p.Name(), a.need, sites-inv, inv)
				}
				c.check(bad == "", rule, key, a.pos, fn, detail, bad,
					"an index past the end panics: empty and one-point paths are in the property's domain (InflatePaths64({{}},10,Miter,Butt) panicked on path[0])")
			}
		}
		c.floor(rule, n, 4)
	}
}

func isFieldValue(v ssa.Value) bool {
	u, ok := v.(*ssa.UnOp)
	if !ok || u.Op != token.MUL {
		return false
	}
	_, ok = u.X.(*ssa.FieldAddr)
	return ok
}

// lenLower: best provable lower bound of len(param) in block at, using any len(param) expression in f.
func lenLower(f *ssa.Function, p ssa.Value, at *ssa.BasicBlock) float64 {
	lo := 0.0
	for _, b := range f.Blocks {
		for _, in := range b.Instrs {
			call, ok := in.(*ssa.Call)
			if !ok {
				continue
			}
			if bi, ok := call.Call.Value.(*ssa.Builtin); ok && bi.Name() == "len" && (call.Call.Args[0] == p || (paramOf(call.Call.Args[0]) != nil && ssa.Value(paramOf(call.Call.Args[0])) == p) || sameLocalLoad(call.Call.Args[0], p)) {
				if v := bound(call, at, 0, map[ssa.Value]bool{}).lo; v > lo {
					lo = v
				}
			}
		}
	}
	return lo
}

func argLenLower(f *ssa.Function, arg ssa.Value, at *ssa.BasicBlock) float64 {
	if f == nil {
		return 0
	}
	// a freshly built non-empty literal / append result
	if nonEmptyByAppend(arg, map[ssa.Value]bool{}) {
		return 1
	}
	return lenLower(f, arg, at)
}

// paramOf: v is a parameter, or a load of the address-taken copy of a parameter.
func paramOf(v ssa.Value) *ssa.Parameter {
	if p, ok := v.(*ssa.Parameter); ok {
		return p
	}
	if u, ok := v.(*ssa.UnOp); ok && u.Op == token.MUL {
		if al, ok := u.X.(*ssa.Alloc); ok {
			var p *ssa.Parameter
			for _, r := range *al.Referrers() {
				if st, ok := r.(*ssa.Store); ok && st.Addr == ssa.Value(al) {
					q, ok := st.Val.(*ssa.Parameter)
					if !ok || (p != nil && p != q) {
						return nil
					}
					p = q
				}
			}
			return p
		}
	}
	return nil
}

// sameLocalLoad: a and b are loads of the same address-taken local variable (its value is re-read, not changed,
// between a length test and a use in this code base: the only writer is the range statement that declares it).
func sameLocalLoad(a, b ssa.Value) bool {
	ua, ok1 := a.(*ssa.UnOp)
	ub, ok2 := b.(*ssa.UnOp)
	if !ok1 || !ok2 || ua.Op != token.MUL || ub.Op != token.MUL {
		return false
	}
	al, ok := ua.X.(*ssa.Alloc)
	return ok && ub.X == ssa.Value(al)
}

// ---- variable indices ---------------------------------------------------------------------------------------
// upperProven: idx < len(X) is established at block `at` by a dominating branch on the SAME index value:
// idx < len(X), idx <= len(X)-1 (also through a never-reassigned alias such as highI := len(X)-1), and the
// negations on false edges; or idx is a range-loop index of X.
func upperProven(idx ssa.Value, X ssa.Value, at *ssa.BasicBlock) bool {
	isLen := func(v ssa.Value) bool {
		call, ok := v.(*ssa.Call)
		if !ok {
			return false
		}
		bi, ok := call.Call.Value.(*ssa.Builtin)
		return ok && bi.Name() == "len" && (call.Call.Args[0] == X || sameLocalLoad(call.Call.Args[0], X) || (paramOf(call.Call.Args[0]) != nil && paramOf(X) != nil && paramOf(call.Call.Args[0]) == paramOf(X)))
	}
	isLenMinus1 := func(v ssa.Value) bool {
		bo, ok := v.(*ssa.BinOp)
		return ok && bo.Op == token.SUB && isLen(bo.X) && isConstInt(bo.Y, 1)
	}
	for d := at; d != nil; d = d.Idom() {
		if len(d.Preds) != 1 {
			continue
		}
		p := d.Preds[0]
		ifi, ok := p.Instrs[len(p.Instrs)-1].(*ssa.If)
		if !ok || p.Succs[0] == p.Succs[1] {
			continue
		}
		cmp, ok := ifi.Cond.(*ssa.BinOp)
		if !ok {
			continue
		}
		taken := p.Succs[0] == d
		op, l, r := cmp.Op, cmp.X, cmp.Y
		if !taken {
			switch op {
			case token.LSS:
				op = token.GEQ
			case token.GEQ:
				op = token.LSS
			case token.GTR:
				op = token.LEQ
			case token.LEQ:
				op = token.GTR
			default:
				continue
			}
		}
		// the index lives in an address-taken local: the guard and the read load it separately
		if l != idx && r != idx {
			if reloadedUnchanged(l, idx, p, at) {
				l = idx
			} else if reloadedUnchanged(r, idx, p, at) {
				r = idx
			}
		}
		// normalise to idx on the left
		if r == idx {
			l, r = r, l
			switch op {
			case token.LSS:
				op = token.GTR
			case token.GTR:
				op = token.LSS
			case token.LEQ:
				op = token.GEQ
			case token.GEQ:
				op = token.LEQ
			}
		}
		if l != idx {
			continue
		}
		if (op == token.LSS && isLen(r)) || (op == token.LEQ && isLenMinus1(r)) || (op == token.LSS && isLenMinus1(r)) {
			return true
		}
	}
	return false
}

// ruleVarIndex: C03.index.var — variable indices into slice parameters. Sites whose upper bound is established by a
// dominating guard on the same index value are "proven"; the set of proven sites on the confirmed tree is frozen
// (by function, parameter and index expression) and must stay proven. Unproven sites are reported, not judged.
func ruleVarIndex(rule string, frozen map[string]int) func(*Ctx) {
	return func(c *Ctx) {
		got := map[string]int{}
		unproven := map[string]int{}
		total, proven := 0, 0
		firstPos := map[string]token.Pos{}
		for _, f := range c.srcFuncs() {
			fn := c.fname(f)
			for _, b := range f.Blocks {
				for _, in := range b.Instrs {
					ia, ok := in.(*ssa.IndexAddr)
					if !ok {
						continue
					}
					p := paramOf(ia.X)
					if p == nil {
						continue
					}
					if _, isSlice := p.Type().Underlying().(*types.Slice); !isSlice {
						continue
					}
					if _, isK := ia.Index.(*ssa.Const); isK {
						continue
					}
					total++
					key := fmt.Sprintf("%s:param#%d", fn, paramIndex(f, p)) // by position: local and parameter names may change
					if _, ok := firstPos[key]; !ok {
						firstPos[key] = ia.Pos()
					}
					if upperProven(ia.Index, ia.X, b) {
						proven++
						got[key]++
					} else {
						unproven[key]++
					}
				}
			}
		}
		var keys []string
		for k := range frozen {
			keys = append(keys, k)
		}
		sort.Strings(keys)
		for _, k := range keys {
			fn := k[:strings.LastIndex(k, ":")]
			c.fn(fn)
			c.check(unproven[k] <= frozen[k], rule, rule+":"+k, firstPos[k], fn,
				fmt.Sprintf("slice parameter %s: %d variable-index reads are dominated by `index < len` on the same index value; %d are not (as many as on the confirmed tree, where each was reviewed)", k[strings.LastIndex(k, ":")+1:], got[k], unproven[k]),
				fmt.Sprintf("%s: %d variable-index reads are not dominated by `index < len` (or `<= len-1`) on the same index value; the confirmed tree had %d: a guard was removed, weakened or moved, or a new unguarded read was added — the index can run past the end", k, unproven[k], frozen[k]),
				"an off-by-one between a loop guard and the read it protects panics on the last element (all-on-boundary paths in the rectangle scans)")
		}
		var extra []string
		for k, n := range got {
			if frozen[k] == 0 {
				extra = append(extra, fmt.Sprintf("%s x%d", k, n))
			}
		}
		sort.Strings(extra)
		c.note("%s: %d variable-index reads of slice parameters, %d with a dominating upper-bound guard on the same value; proven but not frozen: %v", rule, total, proven, extra)
	}
}

// reloadedUnchanged: g (in the guard block gb) and use (in block ub, whose only predecessor chain back to gb has no
// writes) are loads of the same address-taken local with no store to it and no call receiving its address between.
func reloadedUnchanged(g, use ssa.Value, gb, ub *ssa.BasicBlock) bool {
	ug, ok1 := g.(*ssa.UnOp)
	uu, ok2 := use.(*ssa.UnOp)
	if !ok1 || !ok2 || ug.Op != token.MUL || uu.Op != token.MUL {
		return false
	}
	al, ok := ug.X.(*ssa.Alloc)
	if !ok || uu.X != ssa.Value(al) || ug.Block() != gb {
		return false
	}
	writes := func(in ssa.Instruction) bool {
		switch x := in.(type) {
		case *ssa.Store:
			return x.Addr == ssa.Value(al)
		case ssa.CallInstruction:
			for _, a := range x.Common().Args {
				if a == ssa.Value(al) {
					return true
				}
			}
		}
		return false
	}
	// after the guard load in its block
	seen := false
	for _, in := range gb.Instrs {
		if in == ssa.Instruction(ug) {
			seen = true
			continue
		}
		if seen && writes(in) {
			return false
		}
	}
	// blocks from the guarded successor down to the use block along single-predecessor edges
	b := uu.Block()
	for b != nil && b != gb {
		for _, in := range b.Instrs {
			if in == ssa.Instruction(uu) {
				break
			}
			if writes(in) {
				return false
			}
		}
		if len(b.Preds) != 1 {
			return false
		}
		b = b.Preds[0]
	}
	return b == gb
}

func paramIndex(f *ssa.Function, p *ssa.Parameter) int {
	for i, q := range f.Params {
		if q == p {
			return i
		}
	}
	return -1
}
