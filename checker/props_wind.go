package main

import (
	"fmt"
	"strings"
)

// C01.wind — the winding-count representation is preserved by the two places that compute it.
//
// Representation (first principles, no reference output): a closed edge e of one set separates two regions whose
// winding numbers for that set are L (left) and R (right) with R - L = e.windDx; e.windCount holds the one of the
// two with the larger magnitude (they differ by one, so the magnitudes are never equal), and e.windCount2 is the
// OTHER set's winding number at e. The leftmost edge has L = 0, hence windCount = windDx — the code's own base
// case, which is what fixes the sign convention. isContributingClosed's `windCount == +-1` then reads "e bounds
// the filled region" under Positive/Negative.
//
// (insert)  setWindCountForClosedPathEdge, nearest same-set closed edge p to the left with (wp, dp): the region
//           right of p has R_p = wp if wp*dp > 0, else wp + dp; the new edge gets maxabs(R_p, R_p + d); its
//           windCount2 starts as p's and every closed edge of the other set passed on the way adds its windDx
//           (toggles under EvenOdd).
// (cross)   intersectEdges, same set: regions A | e1 | B | e2 | C become A | e2 | B' | e1 | C with B' = A + d2;
//           e1 gets maxabs(B', C), e2 gets maxabs(A, B'). Different sets: e1 moves to the right of e2, so its
//           windCount2 grows by d2; e2 moves to the left of e1, so its windCount2 shrinks by d1 (toggle under EvenOdd).

func maxabs(a, b int64) int64 {
	x, y := a, b
	if x < 0 {
		x = -x
	}
	if y < 0 {
		y = -y
	}
	if x > y {
		return a
	}
	return b
}

func lastStore(p *pathOutcome, addr string) (symVal, bool) {
	for i := len(p.stores) - 1; i >= 0; i-- {
		if p.stores[i].addr == addr {
			return p.stores[i].val, true
		}
	}
	return symVal{}, false
}

func ruleWindingInvariant(rule string) func(*Ctx) {
	return func(c *Ctx) {
		fills := c.enumValues("FillRule")
		polys := c.enumValues("PathType")
		subj, clip := enumByName(polys, "Subject"), enumByName(polys, "Clip")

		// ---------- (insert) ----------
		f := c.fn("(clipperBase).setWindCountForClosedPathEdge")
		recv := "c"
		const P = "ae.prevInAEL"
		const M = "ae.prevInAEL.nextInAEL"
		for _, fr := range fills {
			bad := ""
			n := 0
			evenOdd := fr.name == "EvenOdd"
			ws := []int64{-3, -2, -1, 1, 2, 3}
			ks := []int64{-1, 0, 2}
			if evenOdd {
				ws = []int64{-1, 1}
				ks = []int64{0, 1}
			}
			for _, wp := range ws {
				for _, dp := range []int64{-1, 1} {
					if evenOdd && wp != dp {
						continue
					}
					for _, d := range []int64{-1, 1} {
						for _, k := range ks {
							for _, between := range []bool{false, true} {
								for _, dm := range []int64{-1, 1} {
									if !between && dm == 1 {
										continue
									}
									atoms := map[string]absVal{
										recv + ".fillRule": intVal(fr.val),
										"getPolyType(ae)":  intVal(subj), "ae.localMin.PolyType": intVal(subj),
										"getPolyType(" + P + ")": intVal(subj), "isOpen(" + P + ")": boolVal(false), "isOpen(ae)": boolVal(false),
										"(" + P + " != nil)": boolVal(true), "(" + P + " == nil)": boolVal(false),
										P + ".windCount": intVal(wp), P + ".windDx": intVal(dp), P + ".windCount2": intVal(k), "ae.windDx": intVal(d),
										"(" + M + " != ae)": boolVal(between), "(" + M + " == ae)": boolVal(!between),
										"getPolyType(" + M + ")": intVal(clip), "isOpen(" + M + ")": boolVal(false), M + ".windDx": intVal(dm),
									}
									ex := &explorer{c: c, f: f, atoms: atoms, maxPaths: 500, canon: canonParams(f, recv, "ae")}
									outs := ex.explore(nil)
									if len(outs) != 1 {
										var cs []string
										for _, p := range outs {
											cs = append(cs, p.end+": "+p.condString())
										}
										fatalf("setWindCountForClosedPathEdge: %d paths for %s wp=%d dp=%d d=%d: %s", len(outs), fr.name, wp, dp, d, strings.Join(cs, " | "))
									}
									p := outs[0]
									wantEnd := "return"
									if between {
										wantEnd = "loop"
									}
									if p.end != wantEnd {
										fatalf("setWindCountForClosedPathEdge: path ends with %s, expected %s", p.end, wantEnd)
									}
									Rp := wp
									if wp*dp < 0 {
										Rp = wp + dp
									}
									want := maxabs(Rp, Rp+d)
									if evenOdd {
										want = d
									}
									want2 := k
									if between {
										if evenOdd {
											want2 = 1 - k
										} else {
											want2 = k + dm
										}
									}
									n++
									got, ok := lastStore(p, "ae.windCount")
									got2, ok2 := lastStore(p, "ae.windCount2")
									switch {
									case !ok || got.abs.k != aInt || got.abs.i != want:
										if bad == "" {
											bad = fmt.Sprintf("left neighbour of the same set has (windCount %d, windDx %d): the region between has winding %d, so the new edge (windDx %d) must get %d; it gets %s", wp, dp, Rp, d, want, got.v())
										}
									case !ok2 || got2.abs.k != aInt || got2.abs.i != want2:
										if bad == "" {
											bad = fmt.Sprintf("windCount2 must be %d (left neighbour's %d%s); it is %s", want2, k, map[bool]string{true: fmt.Sprintf(", one closed edge of the other set with windDx %d in between", dm), false: ""}[between], got2.v())
										}
									}
								}
							}
						}
					}
				}
			}
			// base case: no same-set edge to the left
			for _, d := range []int64{-1, 1} {
				atoms := map[string]absVal{recv + ".fillRule": intVal(fr.val), "(" + P + " != nil)": boolVal(false), "(" + P + " == nil)": boolVal(true), "ae.windDx": intVal(d),
					"getPolyType(ae)": intVal(subj), "ae.localMin.PolyType": intVal(subj), "(" + recv + ".actives != ae)": boolVal(false), "(" + recv + ".actives == ae)": boolVal(true)}
				outs := (&explorer{c: c, f: f, atoms: atoms, maxPaths: 500, canon: canonParams(f, recv, "ae")}).explore(nil)
				if len(outs) != 1 || outs[0].end != "return" {
					fatalf("setWindCountForClosedPathEdge (leftmost edge): %d paths", len(outs))
				}
				n++
				if got, ok := lastStore(outs[0], "ae.windCount"); (!ok || got.abs.k != aInt || got.abs.i != d) && bad == "" {
					bad = fmt.Sprintf("the leftmost edge of its set (outside on its left) must get windCount = windDx = %d, it gets %s", d, got.v())
				}
			}
			c.check(bad == "", rule+".insert", fmt.Sprintf("%s.insert:setWindCountForClosedPathEdge:%s", rule, fr.name), f.Pos(), "(clipperBase).setWindCountForClosedPathEdge",
				fmt.Sprintf("%d cells: windCount = larger-magnitude winding of the two regions the new edge separates, windCount2 = the other set's winding there", n), bad,
				"every contribution decision reads these two numbers; a wrong count for one (neighbour count, direction) combination mis-fills the region right of that edge only for inputs that realise it (nested or overlapping same-direction rings)")
		}

		// ---------- (cross) ----------
		g := c.fn("(clipperBase).intersectEdges")
		grecv := g.Params[0].Name()
		clipT := c.enumValues("ClipType")
		for _, fr := range fills {
			if fr.name == "EvenOdd" {
				continue
			}
			bad := ""
			n := 0
			for _, A := range []int64{-3, -2, -1, 0, 1, 2} {
				for _, d1 := range []int64{-1, 1} {
					for _, d2 := range []int64{-1, 1} {
						B, C := A+d1, A+d1+d2
						w1, w2 := maxabs(A, B), maxabs(B, C)
						B2 := A + d2
						want1, want2 := maxabs(B2, C), maxabs(A, B2)
						atoms := map[string]absVal{
							grecv + ".hasOpenPaths": boolVal(false), grecv + ".fillRule": intVal(fr.val), grecv + ".clipType": intVal(enumByName(clipT, "Union")),
							"isJoined(ae1)": boolVal(false), "isJoined(ae2)": boolVal(false), "isHotEdge(ae1)": boolVal(false), "isHotEdge(ae2)": boolVal(false),
							"ae1.localMin.PolyType": intVal(subj), "ae2.localMin.PolyType": intVal(subj), "getPolyType(ae1)": intVal(subj), "getPolyType(ae2)": intVal(subj),
							"isSamePolyType(ae1, ae2)": boolVal(true),
							"ae1.windCount":            intVal(w1), "ae2.windCount": intVal(w2), "ae1.windDx": intVal(d1), "ae2.windDx": intVal(d2),
							"ae1.windCount2": intVal(0), "ae2.windCount2": intVal(0),
						}
						ex := &explorer{c: c, f: g, atoms: atoms, maxPaths: 2000, canon: canonParams(g, grecv, "ae1", "ae2", "pt")}
						outs := ex.explore(nil)
						if len(outs) == 0 {
							fatalf("intersectEdges: no path")
						}
						n++
						for _, p := range outs {
							g1, ok1 := firstStore(p, "ae1.windCount")
							g2, ok2 := firstStore(p, "ae2.windCount")
							if (!ok1 || !ok2 || g1.abs.k != aInt || g2.abs.k != aInt || g1.abs.i != want1 || g2.abs.i != want2) && bad == "" {
								bad = fmt.Sprintf("regions %d | e1(%+d) | %d | e2(%+d) | %d: after the crossing the middle region has winding %d, so (e1, e2) must carry (%d, %d); they get (%s, %s)", A, d1, B, d2, C, B2, want1, want2, g1.v(), g2.v())
							}
						}
					}
				}
			}
			c.check(bad == "", rule+".cross", fmt.Sprintf("%s.cross:intersectEdges:same-set/%s", rule, fr.name), g.Pos(), "(clipperBase).intersectEdges",
				fmt.Sprintf("%d cells: two crossing edges of one set exchange places and each takes the larger-magnitude winding of its new pair of regions", n), bad,
				"a wrong count after a crossing turns the lobe beyond it inside out for exactly the (winding, direction, direction) combinations concerned: self-overlapping inputs")
		}
		for _, fr := range fills {
			bad := ""
			n := 0
			ks := []int64{-2, -1, 0, 1, 2}
			if fr.name == "EvenOdd" {
				ks = []int64{0, 1}
			}
			for _, k1 := range ks {
				for _, k2 := range ks {
					for _, d1 := range []int64{-1, 1} {
						for _, d2 := range []int64{-1, 1} {
							atoms := map[string]absVal{
								grecv + ".hasOpenPaths": boolVal(false), grecv + ".fillRule": intVal(fr.val), grecv + ".clipType": intVal(enumByName(clipT, "Union")),
								"isJoined(ae1)": boolVal(false), "isJoined(ae2)": boolVal(false), "isHotEdge(ae1)": boolVal(false), "isHotEdge(ae2)": boolVal(false),
								"ae1.localMin.PolyType": intVal(subj), "ae2.localMin.PolyType": intVal(clip), "getPolyType(ae1)": intVal(subj), "getPolyType(ae2)": intVal(clip),
								"isSamePolyType(ae1, ae2)": boolVal(false),
								"ae1.windCount":            intVal(d1), "ae2.windCount": intVal(d2), "ae1.windDx": intVal(d1), "ae2.windDx": intVal(d2),
								"ae1.windCount2": intVal(k1), "ae2.windCount2": intVal(k2),
							}
							ex := &explorer{c: c, f: g, atoms: atoms, maxPaths: 2000, canon: canonParams(g, grecv, "ae1", "ae2", "pt")}
							outs := ex.explore(nil)
							if len(outs) == 0 {
								fatalf("intersectEdges: no path")
							}
							want1, want2 := k1+d2, k2-d1
							if fr.name == "EvenOdd" {
								want1, want2 = 1-k1, 1-k2
							}
							n++
							for _, p := range outs {
								g1, ok1 := firstStore(p, "ae1.windCount2")
								g2, ok2 := firstStore(p, "ae2.windCount2")
								if (!ok1 || !ok2 || g1.abs.k != aInt || g2.abs.k != aInt || g1.abs.i != want1 || g2.abs.i != want2) && bad == "" {
									bad = fmt.Sprintf("e1 (other-set winding %d) crosses to the right of e2 (windDx %+d) and e2 (other-set winding %d) to the left of e1 (windDx %+d): they must carry (%d, %d), they get (%s, %s)", k1, d2, k2, d1, want1, want2, g1.v(), g2.v())
								}
								if _, changed := firstStore(p, "ae1.windCount"); changed && bad == "" {
									bad = "a crossing of edges of different sets changes an own winding count"
								}
							}
						}
					}
				}
			}
			c.check(bad == "", rule+".cross", fmt.Sprintf("%s.cross:intersectEdges:different-sets/%s", rule, fr.name), g.Pos(), "(clipperBase).intersectEdges",
				fmt.Sprintf("%d cells: the edge that moves right gains the other edge's windDx in windCount2, the one that moves left loses it (parity toggles under EvenOdd)", n), bad,
				"windCount2 decides on which side of the other set an edge lies; a wrong sign here exchanges Intersection and Difference beyond the first subject/clip crossing of a scanbeam")
		}
	}
}

func firstStore(p *pathOutcome, addr string) (symVal, bool) {
	for _, s := range p.stores {
		if s.addr == addr {
			return s.val, true
		}
	}
	return symVal{}, false
}
