package main

import (
	"bytes"
	"fmt"
	"go/ast"
	"go/printer"
	"go/token"
	"go/types"
	"strings"
)

// MIRROR — sibling agreement by AST rewriting: the code base is its own oracle. A fragment and a rewriting
// (sign mirror, left/right, top/bottom, diagonal, 64/D) are given; the rewritten fragment must print like its sibling.

func (c *Ctx) src(n ast.Node) string {
	var b bytes.Buffer
	printer.Fprint(&b, c.fset, n)
	return strings.Join(strings.Fields(b.String()), " ")
}

func flipOp(op token.Token) token.Token {
	switch op {
	case token.LSS:
		return token.GTR
	case token.GTR:
		return token.LSS
	case token.LEQ:
		return token.GEQ
	case token.GEQ:
		return token.LEQ
	}
	return op
}

func isCmp(op token.Token) bool {
	switch op {
	case token.LSS, token.GTR, token.LEQ, token.GEQ, token.EQL, token.NEQ:
		return true
	}
	return false
}

// render prints an expression canonically (no parentheses noise, unary minus on literals folded).
func render(e ast.Expr) string {
	switch x := e.(type) {
	case *ast.ParenExpr:
		return render(x.X)
	case *ast.BasicLit:
		return x.Value
	case *ast.Ident:
		return x.Name
	case *ast.SelectorExpr:
		return render(x.X) + "." + x.Sel.Name
	case *ast.StarExpr:
		return "*" + render(x.X)
	case *ast.UnaryExpr:
		in := render(x.X)
		if x.Op == token.SUB && strings.HasPrefix(in, "-") {
			return in[1:]
		}
		return x.Op.String() + in
	case *ast.BinaryExpr:
		return "(" + render(x.X) + " " + x.Op.String() + " " + render(x.Y) + ")"
	case *ast.IndexExpr:
		return render(x.X) + "[" + render(x.Index) + "]"
	case *ast.CallExpr:
		var as []string
		for _, a := range x.Args {
			as = append(as, render(a))
		}
		return render(x.Fun) + "(" + strings.Join(as, ", ") + ")"
	case *ast.CompositeLit:
		var es []string
		for _, el := range x.Elts {
			es = append(es, render(el))
		}
		t := ""
		if x.Type != nil {
			t = render(x.Type)
		}
		return t + "{" + strings.Join(es, ", ") + "}"
	case *ast.KeyValueExpr:
		return render(x.Key) + ": " + render(x.Value)
	case *ast.ArrayType:
		return "[]" + render(x.Elt)
	case *ast.FuncLit:
		return "func{...}"
	}
	return fmt.Sprintf("%T", e)
}

// signMirror renders expression e as it must read under "all winding numbers negated":
// comparisons `w op K` become `w flip(op) -K`; any other value expression v becomes -v.
func signMirrorExpr(e ast.Expr, asValue bool) string {
	if p, ok := e.(*ast.ParenExpr); ok {
		return signMirrorExpr(p.X, asValue)
	}
	if b, ok := e.(*ast.BinaryExpr); ok && isCmp(b.Op) {
		return "(" + render(b.X) + " " + flipOp(b.Op).String() + " " + negRender(b.Y) + ")"
	}
	if asValue {
		return negRender(e)
	}
	return render(e)
}

func negRender(e ast.Expr) string {
	s := render(e)
	if s == "0" {
		return "0"
	}
	if strings.HasPrefix(s, "-") {
		return s[1:]
	}
	return "-" + s
}

// signMirrorStmts renders a statement list under the sign mirror.
func signMirrorStmts(stmts []ast.Stmt) (string, bool) {
	var out []string
	for _, s := range stmts {
		switch x := s.(type) {
		case *ast.IfStmt:
			if x.Init != nil || x.Else != nil {
				return "", false
			}
			body, ok := plainStmts(x.Body.List)
			if !ok {
				return "", false
			}
			out = append(out, "if "+signMirrorExpr(x.Cond, false)+" {"+body+"}")
		case *ast.ReturnStmt:
			var rs []string
			for _, r := range x.Results {
				// a returned winding VALUE is negated by the mirror; a returned truth value or call is not
				rs = append(rs, signMirrorExpr(r, returnsValue(r)))
			}
			out = append(out, "return "+strings.Join(rs, ", "))
		case *ast.AssignStmt:
			if len(x.Lhs) != len(x.Rhs) {
				return "", false
			}
			for i := range x.Lhs {
				out = append(out, render(x.Lhs[i])+" "+x.Tok.String()+" "+signMirrorExpr(x.Rhs[i], true))
			}
		default:
			return "", false
		}
	}
	return strings.Join(out, "; "), true
}

// plainStmts renders statements without mirroring (bodies such as `return false`, `return`).
func plainStmts(stmts []ast.Stmt) (string, bool) {
	var out []string
	for _, s := range stmts {
		switch x := s.(type) {
		case *ast.ReturnStmt:
			var rs []string
			for _, r := range x.Results {
				rs = append(rs, render(r))
			}
			out = append(out, strings.TrimSpace("return "+strings.Join(rs, ", ")))
		case *ast.AssignStmt:
			for i := range x.Lhs {
				out = append(out, render(x.Lhs[i])+" "+x.Tok.String()+" "+render(x.Rhs[i]))
			}
		case *ast.IfStmt:
			if x.Init != nil || x.Else != nil {
				return "", false
			}
			b, ok := plainStmts(x.Body.List)
			if !ok {
				return "", false
			}
			out = append(out, "if "+render(x.Cond)+" {"+b+"}")
		case *ast.BranchStmt:
			out = append(out, x.Tok.String())
		case *ast.ExprStmt:
			out = append(out, render(x.X))
		case *ast.IncDecStmt:
			out = append(out, render(x.X)+x.Tok.String())
		default:
			return "", false
		}
	}
	return strings.Join(out, "; "), true
}

// ruleFillRuleMirror: in every `switch <x>.fillRule` the Negative arm is the Positive arm under the sign mirror.
func ruleFillRuleMirror(rule string, minSwitches int) func(*Ctx) {
	return func(c *Ctx) {
		n := 0
		for _, file := range c.ppkg.Syntax {
			for _, d := range file.Decls {
				fd, ok := d.(*ast.FuncDecl)
				if !ok || fd.Body == nil {
					continue
				}
				fn := declName(fd)
				k := 0
				// a function that NORMALISES the counts first (`case Negative: wc, wc2 = -wc, -wc2`, nothing for
				// Positive) realises the mirror by construction: its later switches treat the normalised counts
				// alike for both rules, which the syntactic arm-by-arm mirror cannot express. What such a function
				// decides is checked on the explored truth tables (C01.table, C19.ident).
				normalises := false
				ast.Inspect(fd.Body, func(nd ast.Node) bool {
					sw, ok := nd.(*ast.SwitchStmt)
					if !ok || sw.Tag == nil {
						return true
					}
					for _, st := range sw.Body.List {
						cc := st.(*ast.CaseClause)
						if len(cc.List) != 1 || render(cc.List[0]) != "Negative" || len(cc.Body) == 0 {
							continue
						}
						all := true
						for _, b := range cc.Body {
							as, ok := b.(*ast.AssignStmt)
							if !ok || len(as.Lhs) != len(as.Rhs) {
								all = false
								break
							}
							for i := range as.Lhs {
								u, ok := as.Rhs[i].(*ast.UnaryExpr)
								id, isID := as.Lhs[i].(*ast.Ident)
								if !ok || !isID || u.Op != token.SUB || render(u.X) != id.Name {
									all = false
								}
							}
						}
						posEmpty := true
						for _, st2 := range sw.Body.List {
							c2 := st2.(*ast.CaseClause)
							for _, e := range c2.List {
								if render(e) == "Positive" && len(c2.Body) > 0 {
									posEmpty = false
								}
							}
						}
						if all && posEmpty {
							normalises = true
						}
					}
					return true
				})
				if normalises {
					n++
					c.pass(rule, fmt.Sprintf("%s:%s:normalised", rule, fn), fd.Pos(), fn, "the counts are negated once for Negative and the rest of the function is shared by both rules (mirror by construction; the decisions are checked on the explored tables)")
					continue
				}
				ast.Inspect(fd.Body, func(nd ast.Node) bool {
					sw, ok := nd.(*ast.SwitchStmt)
					if !ok || sw.Tag == nil {
						return true
					}
					// `switch x.fillRule` or, where the fill rule is passed as an argument, `switch fillRule`
					isFR := false
					switch tg := sw.Tag.(type) {
					case *ast.SelectorExpr:
						isFR = tg.Sel.Name == "fillRule"
					case *ast.Ident:
						isFR = tg.Name == "fillRule"
					}
					if !isFR {
						return true
					}
					k++
					n++
					var pos, neg *ast.CaseClause
					for _, s := range sw.Body.List {
						cc := s.(*ast.CaseClause)
						for _, e := range cc.List {
							if id, ok := e.(*ast.Ident); ok {
								if id.Name == "Positive" {
									pos = cc
								}
								if id.Name == "Negative" {
									neg = cc
								}
							}
						}
					}
					key := fmt.Sprintf("%s:%s:switch-fillRule#%d", rule, fn, k)
					why := "reversing every input path negates every winding number; Positive on the input must decide exactly like Negative on the reversed input, arm by arm"
					if pos == nil || neg == nil {
						c.fail(rule, key, sw.Pos(), fn, "switch on fillRule lacks a Positive or a Negative arm", why)
						return true
					}
					want, ok1 := signMirrorStmts(pos.Body)
					got, ok2 := plainStmts(neg.Body)
					if !ok1 || !ok2 {
						fatalf("%s: fillRule switch #%d has a statement shape the sign mirror does not support — undecided", fn, k)
					}
					c.check(want == got, rule, key, sw.Pos(), fn,
						"Negative arm = Positive arm with every winding operand negated: "+got,
						fmt.Sprintf("Negative arm reads `%s` but the sign mirror of the Positive arm is `%s`", got, want), why)
					return true
				})
			}
		}
		c.floor(rule, n, minSwitches)
	}
}

// ---------------------------------------------------------------------------------------------------------
// generic renaming mirror for case arms (rectangle clipper)

type renaming struct {
	local  func(*ast.Ident) string // alpha-renaming of local variables (nil = keep names)
	idents map[string]string       // identifier / selector-tail renames, e.g. left<->right, Left<->Right
	flipIf []string                // flip comparison operators when the rendered operand mentions one of these
	corner map[string]string       // rectPath index renames "0"<->"1" ...
	axis   bool                    // swap .X <-> .Y
}

func (r *renaming) ren(s string) string {
	if t, ok := r.idents[s]; ok {
		return t
	}
	return s
}

func (r *renaming) expr(e ast.Expr) string {
	switch x := e.(type) {
	case *ast.ParenExpr:
		return r.expr(x.X)
	case *ast.BasicLit:
		return x.Value
	case *ast.Ident:
		if r.local != nil {
			if n := r.local(x); n != "" {
				return n
			}
		}
		return r.ren(x.Name)
	case *ast.SelectorExpr:
		sel := x.Sel.Name
		if r.axis {
			if sel == "X" {
				sel = "Y"
			} else if sel == "Y" {
				sel = "X"
			}
		}
		return r.expr(x.X) + "." + r.ren(sel)
	case *ast.StarExpr:
		return "*" + r.expr(x.X)
	case *ast.UnaryExpr:
		return x.Op.String() + r.expr(x.X)
	case *ast.IndexExpr:
		idx := r.expr(x.Index)
		if id, ok := x.X.(*ast.Ident); ok && id.Name == "rectPath" && r.corner != nil {
			if t, ok := r.corner[idx]; ok {
				idx = t
			}
		}
		return r.expr(x.X) + "[" + idx + "]"
	case *ast.BinaryExpr:
		xs, ys := r.expr(x.X), r.expr(x.Y)
		op := x.Op
		if isCmp(op) {
			for _, f := range r.flipIf {
				if strings.Contains(xs, f) || strings.Contains(ys, f) {
					op = flipOp(op)
					break
				}
			}
		}
		return "(" + xs + " " + op.String() + " " + ys + ")"
	case *ast.CallExpr:
		var as []string
		for _, a := range x.Args {
			as = append(as, r.expr(a))
		}
		// segment arguments of getSegmentIntersection are an unordered pair of rectangle corners
		if id, ok := x.Fun.(*ast.Ident); ok && id.Name == "getSegmentIntersection" && len(as) == 4 {
			if as[2] > as[3] {
				as[2], as[3] = as[3], as[2]
			}
		}
		return r.expr(x.Fun) + "(" + strings.Join(as, ", ") + ")"
	case *ast.CompositeLit:
		var es []string
		for _, el := range x.Elts {
			es = append(es, r.expr(el))
		}
		t := ""
		if x.Type != nil {
			t = r.expr(x.Type)
		}
		return t + "{" + strings.Join(es, ", ") + "}"
	}
	return fmt.Sprintf("%T", e)
}

func (r *renaming) stmts(list []ast.Stmt) string {
	var out []string
	for _, s := range list {
		out = append(out, r.stmt(s))
	}
	return strings.Join(out, "; ")
}

func (r *renaming) stmt(s ast.Stmt) string {
	switch x := s.(type) {
	case *ast.ForStmt:
		h := ""
		if x.Cond != nil {
			h = r.expr(x.Cond)
		}
		return "for " + h + " {" + r.stmts(x.Body.List) + "}"
	case *ast.IfStmt:
		init := ""
		if x.Init != nil {
			init = r.stmt(x.Init) + "; "
		}
		el := ""
		if x.Else != nil {
			el = " else " + r.stmt(x.Else)
		}
		return "if " + init + r.expr(x.Cond) + " {" + r.stmts(x.Body.List) + "}" + el
	case *ast.BlockStmt:
		return "{" + r.stmts(x.List) + "}"
	case *ast.SwitchStmt:
		var cs []string
		for _, c := range x.Body.List {
			cc := c.(*ast.CaseClause)
			var ls []string
			for _, e := range cc.List {
				ls = append(ls, r.expr(e))
			}
			cs = append(cs, "case "+strings.Join(ls, ",")+": "+r.stmts(cc.Body))
		}
		tag := ""
		if x.Tag != nil {
			tag = r.expr(x.Tag)
		}
		return "switch " + tag + " {" + strings.Join(cs, " | ") + "}"
	case *ast.AssignStmt:
		var l, rr []string
		for _, e := range x.Lhs {
			l = append(l, r.expr(e))
		}
		for _, e := range x.Rhs {
			rr = append(rr, r.expr(e))
		}
		return strings.Join(l, ", ") + " " + x.Tok.String() + " " + strings.Join(rr, ", ")
	case *ast.IncDecStmt:
		return r.expr(x.X) + x.Tok.String()
	case *ast.BranchStmt:
		return x.Tok.String()
	case *ast.ReturnStmt:
		var rs []string
		for _, e := range x.Results {
			rs = append(rs, r.expr(e))
		}
		return "return " + strings.Join(rs, ", ")
	case *ast.ExprStmt:
		return r.expr(x.X)
	}
	return fmt.Sprintf("%T", s)
}

// caseArm returns the body of the `case <name>:` clause of the first tagged switch on `*loc`-like tag in fd.
func caseArms(fd *ast.FuncDecl) map[string][]ast.Stmt {
	out := map[string][]ast.Stmt{}
	var sw *ast.SwitchStmt
	ast.Inspect(fd.Body, func(n ast.Node) bool {
		if s, ok := n.(*ast.SwitchStmt); ok && sw == nil && s.Tag != nil {
			sw = s
			return false
		}
		return true
	})
	if sw == nil {
		return out
	}
	for _, s := range sw.Body.List {
		cc := s.(*ast.CaseClause)
		if len(cc.List) == 0 {
			out["default"] = cc.Body
		}
		for _, e := range cc.List {
			if id, ok := e.(*ast.Ident); ok {
				out[id.Name] = cc.Body
			}
		}
	}
	return out
}

var (
	mirrorLR = &renaming{idents: map[string]string{"left": "right", "right": "left", "Left": "Right", "Right": "Left"}, flipIf: []string{".left", ".right"},
		corner: map[string]string{"0": "1", "1": "0", "3": "2", "2": "3"}}
	mirrorTB = &renaming{idents: map[string]string{"top": "bottom", "bottom": "top", "Top": "Bottom", "Bottom": "Top"}, flipIf: []string{".top", ".bottom"},
		corner: map[string]string{"0": "3", "3": "0", "1": "2", "2": "1"}}
	mirrorDiag = &renaming{idents: map[string]string{"left": "top", "top": "left", "right": "bottom", "bottom": "right", "Left": "Top", "Top": "Left", "Right": "Bottom", "Bottom": "Right"}, axis: true}
	identity   = &renaming{}
)

// cornerSymbols rewrites rectPath[k].X / .Y into LEFT/RIGHT/TOP/BOTTOM so that equal coordinates of different corners compare equal.
func cornerSymbols(s string) string {
	return strings.NewReplacer("rectPath[0].X", "LEFT", "rectPath[3].X", "LEFT", "rectPath[1].X", "RIGHT", "rectPath[2].X", "RIGHT",
		"rectPath[0].Y", "TOP", "rectPath[1].Y", "TOP", "rectPath[2].Y", "BOTTOM", "rectPath[3].Y", "BOTTOM").Replace(s)
}

func mirrorCornerSymbols(s string, m *renaming) string {
	if m == mirrorLR {
		return strings.NewReplacer("LEFT", "RIGHT", "RIGHT", "LEFT").Replace(s)
	}
	if m == mirrorTB {
		return strings.NewReplacer("TOP", "BOTTOM", "BOTTOM", "TOP").Replace(s)
	}
	return s
}

// ruleRectMirror: C06.mirror.
func ruleRectMirror(rule string) func(*Ctx) {
	return func(c *Ctx) {
		why := "rectangle clipping is equivariant under the rectangle's mirror symmetries: an arm that is not the mirror image of its sibling mis-clips the mirrored input"
		type pair struct {
			fn, a, b string
			m        *renaming
			name     string
		}
		pairs := []pair{
			{"(RectClip64).getNextLocation", "Left", "Right", mirrorLR, "left/right"},
			{"(RectClip64).getNextLocation", "Top", "Bottom", mirrorTB, "top/bottom"},
			{"(RectClip64).getNextLocation", "Left", "Top", mirrorDiag, "diagonal"},
			{"getIntersection", "Left", "Right", mirrorLR, "left/right"},
			{"getIntersection", "Top", "Bottom", mirrorTB, "top/bottom"},
		}
		for _, p := range pairs {
			arms := caseArms(c.decl(p.fn))
			a, b := arms[p.a], arms[p.b]
			if a == nil || b == nil {
				fatalf("%s: case arms %s/%s not found", p.fn, p.a, p.b)
			}
			want := p.m.stmts(a)
			got := identity.stmts(b)
			// corner-coordinate normalisation (rectPath[0].Y == rectPath[1].Y == top ...)
			wantN := mirrorCornerSymbols(cornerSymbols(identity.stmts(a)), p.m)
			_ = wantN
			w2 := cornerSymbols(want)
			g2 := cornerSymbols(got)
			c.check(w2 == g2, rule, fmt.Sprintf("%s:%s:%s=mirror(%s)", rule, p.fn, p.b, p.a), c.decl(p.fn).Pos(), p.fn,
				fmt.Sprintf("case %s is the %s mirror image of case %s", p.b, p.name, p.a),
				fmt.Sprintf("case %s reads `%s` but the %s mirror of case %s is `%s`", p.b, g2, p.name, p.a, w2), why)
		}
		// getLocation: the four boundary tests and the outside classification are mirror images too
		fd := c.decl("getLocation")
		var ifs []*ast.IfStmt
		for _, s := range fd.Body.List {
			if i, ok := s.(*ast.IfStmt); ok {
				ifs = append(ifs, i)
			}
		}
		if len(ifs) >= 4 {
			c.check(mirrorLR.stmt(ifs[0]) == identity.stmt(ifs[1]), rule, rule+":getLocation:onRight=mirror(onLeft)", ifs[1].Pos(), "getLocation", "boundary test for the right edge mirrors the left edge's",
				fmt.Sprintf("`%s` vs mirror `%s`", identity.stmt(ifs[1]), mirrorLR.stmt(ifs[0])), why)
			c.check(mirrorTB.stmt(ifs[2]) == identity.stmt(ifs[3]), rule, rule+":getLocation:onBottom=mirror(onTop)", ifs[3].Pos(), "getLocation", "boundary test for the bottom edge mirrors the top edge's",
				fmt.Sprintf("`%s` vs mirror `%s`", identity.stmt(ifs[3]), mirrorTB.stmt(ifs[2])), why)
			c.check(mirrorDiag.stmt(ifs[0]) == identity.stmt(ifs[2]), rule, rule+":getLocation:onTop=diag(onLeft)", ifs[2].Pos(), "getLocation", "boundary test for the top edge is the diagonal image of the left edge's",
				fmt.Sprintf("`%s` vs mirror `%s`", identity.stmt(ifs[2]), mirrorDiag.stmt(ifs[0])), why)
		} else {
			fatalf("getLocation changed shape")
		}
	}
}

// ruleSiblingD: C16.sibling — a D function equals its 64 sibling modulo type and helper names.
func ruleSibling(rule string, pairs [][2]string, ren map[string]string, why string) func(*Ctx) {
	return func(c *Ctx) {
		for _, p := range pairs {
			a, b := c.decl(p[0]), c.decl(p[1])
			ra := &renaming{idents: ren, local: alphaLocals(c, a)}
			rb := &renaming{local: alphaLocals(c, b)}
			want := ra.stmts(a.Body.List)
			got := rb.stmts(b.Body.List)
			c.check(want == got, rule, fmt.Sprintf("%s:%s=%s", rule, p[1], p[0]), b.Pos(), p[1],
				p[1]+" is "+p[0]+" modulo type and helper names", firstDiff(want, got), why)
		}
	}
}

func firstDiff(a, b string) string {
	i := 0
	for i < len(a) && i < len(b) && a[i] == b[i] {
		i++
	}
	lo := i - 60
	if lo < 0 {
		lo = 0
	}
	hiA, hiB := i+80, i+80
	if hiA > len(a) {
		hiA = len(a)
	}
	if hiB > len(b) {
		hiB = len(b)
	}
	return fmt.Sprintf("siblings diverge: expected `…%s` but found `…%s`", a[lo:hiA], b[lo:hiB])
}

// alphaLocals numbers the parameters and local variables of fd in order of declaration, so that siblings that
// differ only in local names compare equal.
func alphaLocals(c *Ctx, fd *ast.FuncDecl) func(*ast.Ident) string {
	names := map[types.Object]string{}
	n := 0
	ast.Inspect(fd, func(nd ast.Node) bool {
		id, ok := nd.(*ast.Ident)
		if !ok {
			return true
		}
		if obj := c.info.Defs[id]; obj != nil {
			if v, ok := obj.(*types.Var); ok && !v.IsField() {
				if _, seen := names[obj]; !seen {
					n++
					names[obj] = fmt.Sprintf("$%d", n)
				}
			}
		}
		return true
	})
	return func(id *ast.Ident) string {
		if obj := c.info.ObjectOf(id); obj != nil {
			return names[obj]
		}
		return ""
	}
}

// ruleSegIntersectMirror: getSegmentIntersection handles "an end point lies on the other segment's line" in four
// blocks, one per end point; they must be images of one another under renaming of the points.
func ruleSegIntersectMirror(rule string) func(*Ctx) {
	return func(c *Ctx) {
		fd := c.decl("getSegmentIntersection")
		type blk struct {
			own, a, b string
			body      []ast.Stmt
			pos       token.Pos
		}
		var blocks []blk
		for _, s := range fd.Body.List {
			ifs, ok := s.(*ast.IfStmt)
			if !ok {
				continue
			}
			cond, ok := ifs.Cond.(*ast.BinaryExpr)
			if !ok || cond.Op != token.EQL || render(cond.Y) != "0" {
				continue
			}
			// the block's own point: `ip = pK` first statement
			if len(ifs.Body.List) == 0 {
				continue
			}
			as, ok := ifs.Body.List[0].(*ast.AssignStmt)
			if !ok || render(as.Lhs[0]) != "ip" {
				continue
			}
			own := render(as.Rhs[0])
			a, b := "p3", "p4"
			if own == "p3" || own == "p4" {
				a, b = "p1", "p2"
			}
			blocks = append(blocks, blk{own, a, b, ifs.Body.List, ifs.Pos()})
		}
		if len(blocks) != 4 {
			fatalf("getSegmentIntersection: expected four end-point blocks, found %d", len(blocks))
		}
		norm := func(b blk, skipCollinear bool) string {
			r := &renaming{idents: map[string]string{b.own: "Q", b.a: "A", b.b: "B"}}
			body := b.body
			var out []string
			for i, s := range body {
				if skipCollinear && i == 1 {
					if ifs, ok := s.(*ast.IfStmt); ok && strings.Contains(render(ifs.Cond), "res") {
						continue // `if resOther == 0 { return no-intersection }`: only the first block tests full collinearity
					}
				}
				out = append(out, r.stmt(s))
			}
			return strings.Join(out, "; ")
		}
		ref := norm(blocks[1], false)
		for i, b := range blocks {
			got := norm(b, i == 0)
			c.check(got == ref, rule, fmt.Sprintf("%s:getSegmentIntersection:endpoint-%s", rule, b.own), b.pos, "getSegmentIntersection",
				fmt.Sprintf("the block for end point %s is the image of its siblings under point renaming", b.own),
				fmt.Sprintf("the block for end point %s reads `%s` (Q=%s, other segment A=%s B=%s) but its sibling reads `%s`", b.own, got, b.own, b.a, b.b, ref),
				"the four end points play symmetric roles: a block that tests another point (p2 == p4 for p1 == p4) misses a segment that ends exactly on a rectangle corner")
		}
	}
}

// returnsValue: the returned expression is an arithmetic value (a selector, identifier other than true/false/nil,
// unary minus, arithmetic), not a comparison, literal truth value or call.
func returnsValue(e ast.Expr) bool {
	switch x := e.(type) {
	case *ast.ParenExpr:
		return returnsValue(x.X)
	case *ast.Ident:
		return x.Name != "true" && x.Name != "false" && x.Name != "nil"
	case *ast.SelectorExpr:
		return true
	case *ast.UnaryExpr:
		return x.Op == token.SUB || x.Op == token.ADD
	case *ast.BinaryExpr:
		return !isCmp(x.Op) && x.Op != token.LAND && x.Op != token.LOR
	}
	return false
}
