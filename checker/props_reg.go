package main

// Registration of properties C01..C19 (C10, C11 are in props_a.go). Rule sets grow as engines are added.

var sweepLive = []string{"(clipperBase).doSplitOp", "(clipperBase).fixSelfIntersects", "(clipperBase).cleanCollinear",
	"(clipperBase).checkJoinLeft", "(clipperBase).checkJoinRight", "(clipperBase).split", "(clipperBase).joinOutrecPaths",
	"(clipperBase).convertHorzSegsToJoins", "(clipperBase).processHorzJoins", "(clipperBase).addLocalMinPoly", "(clipperBase).addLocalMaxPoly",
	"(clipperBase).intersectEdges", "(clipperBase).doHorizontal", "(clipperBase).doIntersections", "(clipperBase).doTopOfScanbeam",
	"(clipperBase).insertLocalMinimaIntoAEL", "addOutPt", "areaOP", "areaTriangle"}

const whyRing = "a ring walk that leaves on cursor != start visits one node: areaOP then measures one edge and doSplitOp deletes or keeps whole polygons at random; fixOutRecPts/setNewOwner would relabel one point"

func init() {
	register(&propDef{
		id: "C01",
		explanation: "Decides structural clauses of C01: (table) the predicate deciding whether a closed edge bounds the solution (isContributingClosed) equals, on every cell of the code-derived partition of (fillRule, clipType, polytype, windCount, windCount2), the set-theoretic table the property states; (open-guard) the boundary test of intersectEdges' open branch is the same own-set test; (ring) every ring walk over OutPt/OutPt2/Vertex lists leaves on cursor==start, i.e. visits the whole ring; (live) no call to a sweep/repair mechanism sits in a constant-dead block. Does NOT decide the sweep's geometry: edge ordering, intersection rounding, winding update arithmetic, join/split topology.",
		notDecided: []string{"active-edge ordering (isValidAelOrder)", "intersection detection and rounding", "winding-count update arithmetic in intersectEdges/setWindCountForClosedPathEdge", "horizontal processing, joins and splits", "doSplitOp's area condition (no in-repo oracle)"},
		rules: []func(*Ctx){
			ruleContribClosed("C01.table"),
			ruleOpenGuard("C01.open-guard"),
			ruleRing("C01.ring", 25, whyRing),
			ruleDead("C01.live", nil, sweepLive, 60, "these calls are the sweep and its self-intersection/join repair; a constant-dead one silently disables that repair for every input"),
		},
	})
	register(&propDef{
		id: "C09",
		explanation: "Decides structural clauses of C09: (table) isContributingOpen equals the property's coverage table (Intersection: inside clip; Union: outside both; Difference: outside clip) on every cell of (fillRule, clipType, windCount, windCount2); (guard) an open edge is cut at a closed edge exactly when that edge bounds its own set. Does NOT decide cut positions or that pieces are sub-polylines.",
		notDecided: []string{"cut positions (intersection rounding)", "sub-polyline-ness of the pieces", "horizontal open edges in doHorizontal", "Xor for open paths (the property does not constrain it)"},
		rules: []func(*Ctx){
			ruleContribOpen("C09.table"),
			ruleOpenGuard("C09.guard"),
		},
	})
	register(&propDef{
		id: "C19",
		explanation: "Decides structural clauses of C19: (ident) the edge-level forms of the four set identities hold inside the extracted contribution table for every fill rule and every cell, with no external oracle (Union xor Intersection on boundary edges; Xor = their union; Difference = Union on subject edges and Intersection on clip edges); (wrap) each named convenience wrapper passes the clip-type constant its name states and subject, clip, fill rule in that order, and the generic entry adds subject as Subject and clip as Clip. Does NOT decide the area bounds (rounding band times edge length).",
		notDecided: []string{"area discrepancy bounds", "agreement of the sweep's output with the contribution decisions"},
		rules: []func(*Ctx){
			ruleContribIdent("C19.ident"),
			ruleWrappers("C19.wrap"),
		},
	})
}

func init() {
	register(&propDef{
		id: "C18",
		explanation: "Decides C18 by an effect argument over the whole package: (globals) no package-level variable is stored to or has its address taken outside init, and none carries pointers; (shared) no write effect (store, append, copy, sort, map update) can target memory reachable from a caller-supplied input slice, under an inclusion-based points-to analysis rooted at every exported function's parameters; (local) no goroutine, channel, sync, unsafe, reflect, runtime, time or rand use exists in the package or in the reachable part of govalues/decimal. Together: two calls on distinct objects share only read-only memory, so they cannot race or influence each other. Trusted: the Go standard library, and that caller-supplied callbacks/scale functions are the caller's responsibility.",
		notDecided: []string{"behaviour of caller-supplied functions (DeltaCallbackFunc, *WithScaleFunc hooks, InflateOption)", "thread safety inside the standard library (fmt, sort, slices, math)"},
		assumptions: []string{"field-insensitive, context-insensitive points-to: may report spurious aliases, never misses one among modelled instructions; unmodelled instruction kinds abort the check"},
		rules: []func(*Ctx){
			ruleNoGlobalWrites("C18.globals"),
			ruleImmutable("C18.shared"),
			ruleForbidden("C18.local", true),
		},
	})
}

func init() {
	register(&propDef{
		id: "C07",
		explanation: "Decides structural clauses of C07 for every D entry point (enumerated by type): (prec) the precision that reaches math.Pow(10,p) is the caller's value unmodified (a constant 2 only when the optional argument is absent) and a [-8,8] range check with the ErrPrecisionRange panic dominates it; (in) every PathD/PathsD/RectD input reaches 64-bit code only through ScalePath(s)DToPath(s)64/ScaleRectD with this call's scale, delta and arc tolerance are multiplied by it, the miter limit is not; (out) every PathD/PathsD result is ScalePath(s)64ToPath(s)D(x, 1/scale) with the same scale (or delegated to another D entry point); (round) the quantiser rounds coord*scale to an integer axis by axis and rectangles use the same quantiser; (same) after removing scaling and validation the wrapper calls exactly what its 64-bit sibling calls, with the same constants. Does NOT decide bit-exact equality of the decimal round trip or float overflow at the domain edge.",
		notDecided: []string{"bit-exactness of ScalePath64ToPathD's decimal multiplication", "float overflow when |coord|*10^p leaves the integer domain", "behaviour of caller-supplied scale functions (*WithScaleFunc)"},
		rules:      []func(*Ctx){ruleScale("C07")},
	})
}
