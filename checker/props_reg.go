package main

// Registration of properties C01..C19 (C10, C11 are in props_a.go). Rule sets grow as engines are added.

var sweepLive = []string{"(clipperBase).doSplitOp", "(clipperBase).fixSelfIntersects", "(clipperBase).cleanCollinear",
	"(clipperBase).checkJoinLeft", "(clipperBase).checkJoinRight", "(clipperBase).split", "(clipperBase).joinOutrecPaths",
	"(clipperBase).convertHorzSegsToJoins", "(clipperBase).processHorzJoins", "(clipperBase).addLocalMinPoly", "(clipperBase).addLocalMaxPoly",
	"(clipperBase).intersectEdges", "(clipperBase).doHorizontal", "(clipperBase).doIntersections", "(clipperBase).doTopOfScanbeam",
	"(clipperBase).insertLocalMinimaIntoAEL", "addOutPt", "areaOP", "areaTriangle"}

const whyRing = "a ring walk that leaves on cursor != start visits one node: areaOP then measures one edge and doSplitOp deletes or keeps whole polygons at random; fixOutRecPts/setNewOwner would relabel one point"

func init() {
	register(&propDef{
		id:          "C01",
		explanation: "Decides structural clauses of C01: (table) the predicate deciding whether a closed edge bounds the solution (isContributingClosed) equals, on every cell of the code-derived partition of (fillRule, clipType, polytype, windCount, windCount2), the set-theoretic table the property states; (open-guard) the boundary test of intersectEdges' open branch is the same own-set test; (ring) every ring walk over OutPt/OutPt2/Vertex lists leaves on cursor==start, i.e. visits the whole ring; (order) the sort comparators implement the sweep order (minima bottom-up, intersections bottom-up then left to right); (mirror) intersectEdges decides and updates winding state under Negative exactly as under Positive on the negated state; (table2) two crossing same-set boundary edges start a polygon exactly where the boolean table has a boundary; (grow/split) records split off during clean-up are visited, and a ring split by a horizontal join is relabelled before ownership of the entry point is tested; (live) no call to a sweep/repair mechanism sits in a constant-dead block. Also: (wind) the winding-count representation (windCount = larger-magnitude winding of the two regions an edge separates, R - L = windDx, windCount2 = the other set's winding there) is preserved by setWindCountForClosedPathEdge and by both crossing cases of intersectEdges on every cell of a first-principles region model; (ael.join) a new left bound is never spliced in after the left half of a joined pair; (join.advance) an edge that moves to its next segment is tested for a join on every exit; (merged-owner) a record emptied by a merge gets an owner in flat mode too; (horz-roles) duplicateOp's flag is true exactly for the left-to-right segment of a horizontal join; (area-sign) every signed-area function uses the same (previous minus current) shoelace convention. (all-paths) every input path's points reach the vertex list unless it has none; (join.mirror) checkJoinLeft and checkJoinRight coincide under exchanging the neighbour side. Does NOT decide the sweep's geometry: edge ordering, intersection rounding, winding update arithmetic, join/split topology. Also (join.maxima): before a maxima pair is closed both of its edges were released from any join.",
		notDecided:  []string{"active-edge ordering (isValidAelOrder)", "intersection detection and rounding", "horizontal processing, joins and splits", "doSplitOp's area condition (no in-repo oracle)"},
		rules: []func(*Ctx){
			ruleAelJoinSplice("C01.ael.join"),
			ruleHorzJoinRoles("C01.horz-roles"),
			ruleSplitOnAdvance("C01.join.advance"),
			ruleSplitAtMaxima("C01.join.maxima"),
			ruleMergedOwner("C01.merged-owner"),
			ruleEveryPathEntersRing("C01.all-paths"),
			ruleJoinMirror("C01.join.mirror"),
			ruleShoelaceConvention("C01.area-sign", []string{"areaTriangle", "areaOP", "Area64", "AreaD"}, 3),
			ruleWindingInvariant("C01.wind"),
			ruleContribClosed("C01.table"),
			ruleOpenGuard("C01.open-guard"),
			ruleRing("C01.ring", 25, whyRing),
			ruleSweepOrder("C01.order"),
			ruleIntersectMirror("C01.mirror"),
			ruleIntersectTable("C01.table2"),
			ruleGrowingList("C01.grow"),
			ruleSplitRelabel("C01.split"),
			ruleDead("C01.live", nil, sweepLive, 60, "these calls are the sweep and its self-intersection/join repair; a constant-dead one silently disables that repair for every input"),
		},
	})
	register(&propDef{
		id:          "C09",
		explanation: "Decides structural clauses of C09: (table) isContributingOpen equals the property's coverage table (Intersection: inside clip; Union: outside both; Difference: outside clip) on every cell of (fillRule, clipType, windCount, windCount2); (guard) an open edge is cut at a closed edge exactly when that edge bounds its own set; (skip) winding scans neither count nor are changed by open edges; (route) open records reach only the open solution; (horz) an open path's terminal horizontal consults the range test before intersecting a further edge. Also: (skip/search) the search for the nearest closed edge of the same set passes over open edges; (prev-hot) getPrevHotEdge returns only an edge it found hot and not open; (scratch) each open piece is built in a new variable (typestate). (cut-at) Union cuts open paths at closed edges producing output, Intersection/Difference at clip edges only. Does NOT decide cut positions or that pieces are sub-polylines.",
		notDecided:  []string{"cut positions (intersection rounding)", "sub-polyline-ness of the pieces", "horizontal open edges in doHorizontal", "Xor for open paths (the property does not constrain it)"},
		rules: []func(*Ctx){
			ruleOpenCutCandidates("C09.cut-at"),
			rulePrevHotEdge("C09.prev-hot"),
			ruleScratchLocal("C09.scratch", []string{"(clipperBase).buildTree", "(clipperBase).buildPaths"}, 2, "every open piece is handed to the open solution by reference; filling the same variable for the next piece overwrites the earlier ones — visible only with two or more pieces"),
			ruleContribOpen("C09.table"),
			ruleOpenGuard("C09.guard"),
			ruleOpenSkipped("C09.skip"),
			ruleHorzOpenEnd("C09.horz"),
			ruleMonotoneFlag("C09.flag", "clipperBase", "hasOpenPaths"),
			ruleClosingDup("C09.closing-dup"),
			ruleAllResultsUsed("C09.results", []string{"resetHorzDirection"}, "resetHorzDirection returns the span AND the direction of the next horizontal segment; refreshing only the span leaves a stale direction when an open polyline doubles back along one scanline"),
			ruleEmit("C09.route"),
		},
	})
	register(&propDef{
		id:          "C19",
		explanation: "Decides structural clauses of C19: (ident) the edge-level forms of the four set identities hold inside the extracted contribution table for every fill rule and every cell, with no external oracle (Union xor Intersection on boundary edges; Xor = their union; Difference = Union on subject edges and Intersection on clip edges); (wrap) each named convenience wrapper passes the clip-type constant its name states and subject, clip, fill rule in that order, and the generic entry adds subject as Subject and clip as Clip. Does NOT decide the area bounds (rounding band times edge length).",
		notDecided:  []string{"area discrepancy bounds", "agreement of the sweep's output with the contribution decisions"},
		rules: []func(*Ctx){
			ruleContribIdent("C19.ident"),
			ruleIntersectTable("C19.table2"),
			ruleWrappers("C19.wrap"),
		},
	})
}

func init() {
	register(&propDef{
		id:          "C18",
		explanation: "Decides C18 by an effect argument over the whole package: (globals) no package-level variable is stored to or has its address taken outside init, and none carries pointers; (shared) no write effect (store, append, copy, sort, map update) can target memory reachable from a caller-supplied input slice, under an inclusion-based points-to analysis rooted at every exported function's parameters; (local) no goroutine, channel, sync, unsafe, reflect, runtime, time or rand use exists in the package or in the reachable part of govalues/decimal. Together: two calls on distinct objects share only read-only memory, so they cannot race or influence each other. Trusted: the Go standard library, and that caller-supplied callbacks/scale functions are the caller's responsibility.",
		notDecided:  []string{"behaviour of caller-supplied functions (DeltaCallbackFunc, *WithScaleFunc hooks, InflateOption)", "thread safety inside the standard library (fmt, sort, slices, math)"},
		assumptions: []string{"field-insensitive, context-insensitive points-to: may report spurious aliases, never misses one among modelled instructions; unmodelled instruction kinds abort the check"},
		rules: []func(*Ctx){
			ruleNoGlobalWrites("C18.globals"),
			ruleImmutable("C18.shared"),
			ruleForbidden("C18.local", true),
		},
	})
}

func init() {
	register(&propDef{
		id:          "C07",
		explanation: "Decides structural clauses of C07 for every D entry point (enumerated by type): (prec) the precision that reaches math.Pow(10,p) is the caller's value unmodified (a constant 2 only when the optional argument is absent) and a [-8,8] range check with the ErrPrecisionRange panic dominates it; (in) every PathD/PathsD/RectD input reaches 64-bit code only through ScalePath(s)DToPath(s)64/ScaleRectD with this call's scale, delta and arc tolerance are multiplied by it, the miter limit is not; (out) every PathD/PathsD result is ScalePath(s)64ToPath(s)D(x, 1/scale) with the same scale (or delegated to another D entry point); (round) the quantiser rounds coord*scale to an integer axis by axis and rectangles use the same quantiser; (same) after removing scaling and validation the wrapper calls exactly what its 64-bit sibling calls, with the same constants. Also: (descale) ScalePath64ToPathD produces every coordinate through the decimal library, with no float product or quotient of a converted coordinate. Does NOT decide bit-exact equality of the decimal round trip or float overflow at the domain edge. Also (after-options): where the caller's options are applied to the option struct, 10^p is computed from the struct's precision read after the last option call.",
		notDecided:  []string{"bit-exactness of ScalePath64ToPathD's decimal multiplication", "float overflow when |coord|*10^p leaves the integer domain", "behaviour of caller-supplied scale functions (*WithScaleFunc)"},
		rules: []func(*Ctx){
			ruleDescaleExact("C07.descale", []string{"ScalePath64ToPathD"}), ruleScale("C07"), ruleQuantiserReturns("C07.round.returns")},
	})
}

const whyWidth = "two squares scaled by 2^40 realise the operand widths: a wrapped product gives CrossProduct=0 for a left turn, a zero area for a huge polygon, or a wrong intersection point — a wrong region, silently"

func init() {
	register(&propDef{
		id:          "C13",
		explanation: "Decides the 'no intermediate exceeds 64 bits' clause of C13 and a translation clause (the orientation, collinearity, slope, normal and distance primitives read coordinates only through same-axis differences, so they are exactly translation invariant): with every coordinate bounded by 2^61 (MaxCoord) a magnitude-bits abstract interpretation of all int64 +,-,* in the package (interprocedural parameter/return widths) shows no result can need more than 63 bits (width), and no integer is taken through float64 and back when it may exceed 53 bits (roundtrip). Products are formed by the 128-bit helpers, whose limb arithmetic is decided by (limb): an abstract interpretation in the domain of exact polynomials shows, for every path and sign case, that mulInt64 returns a*b, int128.add/sub return x+y / x-y (modulo 2^128), toFloat64 returns lo + 2^64*hi, isZero tests both words, multiplyUInt64 returns a*b in two words and productsAreEqual compares both words of both products and nothing that may have wrapped. Does NOT decide the growth of float rounding error (the '2 units + 2^-40 extent' bound itself).",
		notDecided:  []string{"float rounding error growth in getDx/topX/getClosestPtOnSegment/offset constructors", "float64 rounding inside int128.toFloat64 (the real value is decided, the two roundings are not)", "translation invariance of float expressions"},
		assumptions: []string{"a float the library converts to int64 has coordinate-difference magnitude (w+1 bits)", "`int` quantities (indices, counts, winding numbers) stay below 2^31"},
		rules: []func(*Ctx){
			ruleWidth("C13.width", 61, nil, 40, whyWidth),
			ruleRoundTrip("C13.roundtrip", 61),
			ruleOnlyDifferences("C13.translate", []string{"CrossProduct", "dotProduct64", "isCollinear", "getDx", "getUnitNormal", "PerpendicDistFromLineSqr64"}, 4,
				"translating every input by the same vector must translate the result: a predicate that reads a coordinate other than through a same-axis difference gives different answers (and different rounding) far from the origin"),
			ruleLimb("C13.limb", "isCollinear", "mulInt64", "(int128).add", "(int128).sub", "(int128).toFloat64", "(int128).isZero", "multiplyUInt64", "productsAreEqual"),
		},
	})
}

var exactPredicates = []string{"CrossProduct", "isCollinear", "productsAreEqual", "PointInPolygon", "Path2ContainsPath1", "segsIntersect", "Area64", "dotProduct64", "getSegmentIntersection", "pointInOpPolygon"}

func init() {
	register(&propDef{
		id:          "C14",
		explanation: "Decides structural clauses of C14 at |coord| <= 2^29: (sign) triSign is the sign function on every cell {x<0, 0, 1, x>1}; (exact) no int64 +,-,* in the measure/predicate functions can exceed 63 bits and no float operation in them combines integer-derived operands beyond the 53-bit mantissa, so the sign/zero tests of the cross product are exact; (limb) the 128-bit helpers compute what they say on every path (polynomial identities over split words: mulInt64 = a*b, add/sub modulo 2^128, toFloat64 = lo + 2^64*hi with the negation carry, isZero, multiplyUInt64 = a*b, productsAreEqual compares both words of exact products); (bounds) the bounds accumulators start at the correct extreme, each bound is a min/max over its own axis and the four updates are independent; (pos) IsPositive64 is Area64 >= 0 and AreaPaths64 sums Area64. Also: (wrap) PointInPolygon's predecessor of vertex 0 is the last vertex (two sites); (area-sign) the shoelace convention of Area64/AreaD/areaOP/areaTriangle; (limb) isCollinear's shortcuts and word comparisons as polynomial facts. Does NOT decide the crossing-number walk of PointInPolygon or float64 rounding inside toFloat64.",
		notDecided:  []string{"PointInPolygon's crossing-number walk apart from the wrap-around predecessor (IsOn cases, the start index)", "the two float64 roundings inside int128.toFloat64", "Area64's final halving in float64"},
		rules: []func(*Ctx){
			ruleTriSign("C14.sign"),
			ruleWidth("C14.exact.int", 29, exactPredicates, 10, "at |coord| <= 2^29 every difference has 30 bits and every product 60: anything wider means a wrapped or truncated intermediate, i.e. a wrong sign for some triple"),
			ruleExactFloat("C14.exact.float", 29, exactPredicates, "the library treats three points as collinear / a point as on an edge exactly when this value is zero: a float detour beyond 53 bits rounds small non-zero cross products to zero (PointInPolygon answers IsOn for an inside point next to a long edge)"),
			ruleBounds("C14.bounds", []string{"GetBounds64", "getBounds"}),
			ruleBoundsEmpty("C14.bounds.empty"),
			ruleShoelaceConvention("C14.area-sign", []string{"areaTriangle", "areaOP", "Area64", "AreaD"}, 3),
			ruleCyclicPred("C14.wrap", []string{"PointInPolygon"}, 2, "the crossing test of vertex 0 is against the edge from the LAST vertex; reading another vertex tests a segment that is not an edge, and only polygons whose scan wraps past index 0 show it"),
			ruleLimb("C14.limb", "isCollinear", "mulInt64", "(int128).add", "(int128).sub", "(int128).toFloat64", "(int128).isZero", "multiplyUInt64", "productsAreEqual"),
			rulePositive("C14.pos"),
		},
	})
}

func init() {
	register(&propDef{
		id:          "C02",
		explanation: "Decides structural clauses of C02: (emit) every closed path reaches a solution only through cleanCollinear -> buildPath(pts, c.reverseSolution, false, &path) -> append guarded by buildPath()==true, in the flat and in the tree pipeline alike; (buildPath) buildPath refuses rings of fewer than 3 nodes before writing and never appends a point equal to the last appended one; (reverse) every buildPath call site passes the engine's reverseSolution option, and the offsetter derives it as ReverseSolution != pathsReversed. Also: (split.dedupe) doSplitOp creates a vertex for the intersection point only after comparing it with the two nodes it is linked between; (horz-roles) as in C01. Does NOT decide winding 0/1 of the whole solution, hole orientation or idempotence of re-union.",
		notDecided:  []string{"winding number 0/1 of the solution (geometry of the sweep)", "orientation of outer boundaries vs holes (addLocalMinPoly side choice)", "idempotence of re-uniting a solution"},
		rules:       []func(*Ctx){ruleEmit("C02"), ruleBuildPath("C02.buildPath"), ruleCleanCollinear("C02.clean"), ruleGrowingList("C02.grow"), ruleSplitRelabel("C02.split"), ruleSplitDedupe("C02.split.dedupe"), ruleHorzJoinRoles("C02.horz-roles")},
	})
	register(&propDef{
		id:          "C04",
		explanation: "Decides structural clauses of C04: (once) AddChild is called only from recursiveCheckOwners, under the polypath==nil guard, and its node is stored in outrec.polypath, so each output record is inserted at most once; (same-pipeline) tree polygons are produced by the same cleanCollinear -> buildPath(pts, c.reverseSolution, false, &outrec.path) pipeline as the flat result and outrec.path has no other writer; (hole) IsHole() is true exactly on even non-zero levels and Level() counts .parent links; (owner) a ring split off by a horizontal join gets its owner by containment (inside the old ring: child; beside it: sibling; around it: rings swapped) and is recorded in the old ring's splits; (bounds) lazily computed OutRec.bounds are read only after checkBounds(record) succeeded; (grow) buildTree/buildPaths re-read len(outrecList) every iteration because clean-up appends records. Also: (owner/relabel) after a swap of point lists fixOutRecPts is called for both records; (scratch) the path variable handed to buildPath is a new variable for every result path (typestate: no use after escape). Does NOT decide containment/nesting correctness (path1InsidePath2, owner heuristics) or innermost-parent choice.",
		notDecided:  []string{"containment and nesting (path1InsidePath2, checkSplitOwner, setOwner heuristics)", "innermost-parent choice", "equality of the polygon SET with the flat result when polygons split", "moveSplits appends loop indices instead of split values (deviation, not demonstrable: 120 000 random tree executions identical to a repaired copy)"},
		rules: []func(*Ctx){ruleEmit("C04"), ruleIsHole("C04.hole"), ruleHorzJoinOwner("C04.owner"), ruleLazyBounds("C04.bounds"), ruleGrowingList("C04.grow"), ruleLocalMaxOwner("C04.owner.max"),
			ruleScratchLocal("C04.scratch", []string{"(clipperBase).buildTree", "(clipperBase).buildPaths"}, 2, "each result path is handed to the caller by reference; filling the same variable again overwrites (or prefixes) the pieces already handed over — visible only when a solution has two or more open pieces / polygons")},
	})
	register(&propDef{
		id:          "C12",
		explanation: "Decides structural clauses of C12: (replaced) every *Paths64/*PathsD result parameter of the seven Execute* entry points is truncated or overwritten on every path to a return, through callees (must-analysis), so an empty answer does not let the previous one show through; (flag-const) isSortedMinimaList is only ever assigned a constant — false where the list may have grown (before, or on every path after, the growth site), true right after the sort; (clear) in every exported Execute*, on every path, the first effect on each solution argument is a truncation / tree Clear, followed through the callees that receive it; (reset) every engine field written during an execution (computed from the code for clipperBase, ClipperOffset, RectClip64) has a re-initialisation proof: assigned by reset/prologue on every path, emptied by the epilogue that precedes every return, or a mode field assigned by every caller; the sorted-minima flag is cleared whenever the retained list grows; rectangle-clipper edge buckets are all emptied per path; (frozen-input) nothing reachable from an execution writes the retained Vertex/LocalMinima graph; (immutable) no library write can reach memory of a caller-supplied input slice. Identical state then implies identical results because the code is deterministic (C17). Also: (minima-flag) every addition to minimaList is dominated by isSortedMinimaList = false, in every declared method including those nothing in the package calls; (step) the round-join step fields are never assigned under a condition that reads one of them; (scratch) typestate of the offsetter's and the engine's scratch slices.",
		notDecided:  []string{"independence of the order in which paths were added (geometric tie-breaking)", "conditionally assigned round-join step fields are argued by hand (stepSin/stepCos/stepsPerRad)", "callbacks and scale functions supplied by the caller"},
		rules: []func(*Ctx){
			ruleNoStaleGuard("C12.step", "ClipperOffset", []string{"stepSin", "stepCos", "stepsPerRad"}, 3, "the arc step depends on |delta|, the tolerance AND the sign of the group's delta; keeping it from the previous group or execution turns round joins the wrong way for an object used with deltas of both signs"),
			ruleSolutionReplaced("C12.solution-replaced", []string{"(clipper64).Execute", "(clipper64).ExecuteOC", "(clipper64).ExecutePolyTree64", "(clipperD).Execute", "(clipperD).ExecuteOC", "(clipperD).ExecuteWithScaleFunc", "(clipperD).ExecutePolyTreeD"}),
			ruleInvalidateFlag("C12.minima-flag", "clipperBase", "minimaList", "isSortedMinimaList", 2, "local minima are popped from the end of a list sorted by Y; a path added after an execution, through an entry that forgets the flag, is swept out of order: the second Execute differs from a fresh engine given the same paths"),
			ruleScratchField("C12.scratch", "ClipperOffset", "pathOut", 4, "a scratch slice written again after it was handed to the solution carries one path's points into the next"),
			ruleScratchLocal("C12.scratch.local", []string{"(clipperBase).buildTree", "(clipperBase).buildPaths"}, 2, "each result path is handed to the caller by reference; filling the same variable again overwrites the pieces already handed over"),
			ruleClearFirst("C12.clear"), ruleReset("C12.reset"), ruleFrozenInput("C12.frozen-input"), ruleImmutable("C12.immutable"), ruleMonotoneFlag("C12.flag", "clipperBase", "hasOpenPaths"), ruleFreshScratch("C12.fresh", "ClipperOffset", "pathOut")},
	})
}

func init() {
	register(&propDef{
		id:          "C17",
		explanation: "Decides structural clauses of C17: (det) sentence 1 completely, modulo the standard library: in the package and the reachable part of govalues/decimal there is no range over a map, goroutine, channel, select, time/rand/os/runtime/sync use, pointer-to-integer conversion or %p formatting, and no package-level variable is ever written, so equal inputs give bit-identical outputs; (cmp) the comparison closures handed to sort.Slice are strict weak orders on every ordering of their keys; (mirror) in every `switch fillRule` the Negative arm is the Positive arm with all winding operands negated, and the contribution tables are sign-mirrors — the structural form of 'all paths reversed with Positive and Negative exchanged'; (sym) the contribution table ignores the polytype for Union/Intersection/Xor (subject/clip exchange); (dup) while a path becomes the vertex ring an input point is skipped exactly when it equals the previously kept point, so repeating a vertex changes nothing and nothing else is dropped. The comparator rules read sort.Slice and slices.SortFunc closures alike. Does NOT decide permutation/rotation invariance of the region or lattice symmetries of the sweep.",
		notDecided:  []string{"invariance under path permutation, start-vertex rotation, vertex duplication (tie-breaking in isValidAelOrder)", "path reversal under EvenOdd", "the 8 lattice symmetries (the sweep is not symmetric in Y by construction)", "horzSegSort is not antisymmetric (deviation, only region-equivalent output differences could be produced)"},
		rules: []func(*Ctx){
			ruleForbidden("C17.det", true),
			ruleNoGlobalWrites("C17.det.globals"),
			ruleVertexFilter("C17.dup"),
			ruleLessStrict("C17.cmp", 2),
			ruleSweepOrder("C17.order"),
			ruleCmp3("C17.cmp3"),
			ruleFillRuleMirror("C17.mirror.switch", 4),
			ruleIntersectMirror("C17.mirror.intersect"),
			ruleContribSym("C17"),
		},
	})
}

func init() {
	register(&propDef{
		id:          "C05",
		explanation: "Decides structural clauses of C05: (join) offsetPoint's dispatch over JoinType builds exactly the constructor set of the property's table (Miter: miter or square by the limit test; Square: square; Bevel: bevel; Round: arc; the near-straight shortcut uses doMiter only for non-round joins; the concave arm emits perp(prev), vertex, perp(curr)); (sign) groupDelta is -delta / +delta / |delta| by (end type, pathsReversed), arcs turn with the sign of groupDelta, NewGroup strips duplicates with the right closed flag and takes the orientation from the path owning the lowest vertex; (union) the clean-up is Execute(Union, reversed ? Negative : Positive) with reverseSolution = ReverseSolution != reversed; (small) |delta| < 0.5 returns the stripped input before any constructor; (xy) every point constructed in offset.go pairs X with X and Y with Y (rotations exempted by name). Also: (arc-sign) every negation of stepSin is guarded by a test of groupDelta; (emit-all) each per-path offset routine hands a ring to the solution on every return path, or drops it only after examining its orientation; (ipt) intersectPoint's two vertical-line cases are mirror images. Does NOT decide any distance statement (band containment, k*delta bound, arc tolerance), over-shrinking or hole growth. Also: the running lowest point of the lowest-path scan starts at the sentinel {MaxInt64, MinInt64} or is compared only once a lowest point exists; the 'area already computed' memo is re-armed for every path.",
		notDecided:  []string{"containment of the (delta - tol) band and the k*delta outer bound", "arc tolerance of round joins", "over-shrinking to empty, hole growth", "the numeric thresholds of the dispatch (0.999, mitLimSqr)"},
		rules: []func(*Ctx){
			ruleArcSignFollowsGroup("C05.arc-sign"),
			ruleOffsetAlwaysEmits("C05.emit-all", []string{"(ClipperOffset).offsetPolygon", "(ClipperOffset).offsetOpenJoined", "(ClipperOffset).offsetOpenPath"}),
			ruleIntersectPointMirror("C05.ipt"),
			ruleJoinDispatch("C05.join"), ruleGroupDelta("C05.sign"), ruleOffsetUnion("C05.union"), ruleXY("C05.xy", []string{"offset.go"}, 15), ruleOffsetWiring("C05.wire"),
		},
	})
	register(&propDef{
		id:          "C08",
		explanation: "Decides structural clauses of C08: (sign) the sum adds and the difference subtracts the pattern point from the path point on both axes; (entry) the four exported functions pass isSum=true/false and the caller's isClosed and finish with UnionPaths64(quads, NonZero); (norm) every quad enters the result in positive orientation (as is under IsPositive64, reversed otherwise); (closed) closed paths use (delta, first predecessor) = (0, len-1), open paths (1, 0); (all) no loop iteration skips its vertex or segment; (xy) axis pairing of constructed points. Does NOT decide that the quads cover exactly the swept region, nor commutativity.",
		notDecided:  []string{"that the union of the quads equals the swept region", "sum(A,B) = sum(B,A)", "canonical-ness of the result (C02)"},
		rules:       []func(*Ctx){ruleMinkowski("C08"), ruleXY("C08.xy", []string{"minkowski.go"}, 2)},
	})
}

func init() {
	register(&propDef{
		id:          "C15",
		explanation: "Decides structural clauses of C15: (subseq) every vertex appended to the result is an element of the input path; (only) in the main scan a vertex is dropped exactly when isCollinear(last kept vertex, path[i], path[i+1]) holds; (wrap) each wrap-around scan of a closed path compares the moving vertex with a FIXED anchor on the other side of the start index; (open) an open path's last point is appended unconditionally; (pred) the collinearity predicate is exact: triSign is the sign function per cell and the products are 128-bit with no float detour; (limb) multiplyUInt64 returns a*b in two words (every partial product and carry used once at its weight, no intermediate overflow — a polynomial identity over split words) and productsAreEqual answers true only after comparing both words of both products, false only when one of those comparisons fails, and never compares a 64-bit product that may have wrapped. Does NOT decide 'no three consecutive collinear vertices remain', idempotence or the wrap-around bookkeeping as a whole. Also: the closing test of a closed path is (last KEPT vertex, final input vertex, first kept vertex); float64 equality is never relied on as exact equality of the 128-bit products.",
		notDecided:  []string{"no three cyclically consecutive result vertices are collinear", "idempotence of trimming", "area and winding preservation (follow from the clauses above only if the wrap-around bookkeeping is right)", "result empty when fewer than 3 vertices remain"},
		rules: []func(*Ctx){
			ruleTrimCollinear("C15"), ruleTriSign("C15.pred"), ruleLimb("C15.limb", "isCollinear", "multiplyUInt64", "productsAreEqual"),
			ruleExactFloat("C15.pred.float", 29, []string{"isCollinear", "productsAreEqual"}, "collinearity must be decided on the exact integer cross product"),
			ruleWidth("C15.pred.int", 29, []string{"isCollinear", "productsAreEqual", "TrimCollinear64"}, 4, "a wrapped difference or product makes non-collinear points look collinear"),
		},
	})
	register(&propDef{
		id:          "C16",
		explanation: "Decides structural clauses of C16: (subseq) the result is one in-order pass appending path[i] exactly when flags[i] is false, and paths with fewer than 4 points are returned unchanged; (ends) for open paths the two end cells start at MaxFloat64 and no later store refreshes a cell without idx != 0 && idx != high, for closed paths both neighbours are refreshed after every removal; (sibling) SimplifyPath64/SimplifyPaths64 equal SimplifyPathD/SimplifyPathsD modulo types and helper names; (diff) the distance reads coordinates only through same-axis differences, hence is translation invariant; (width) at |coord| <= 2^29 the integer distance has no wrapped int64 intermediate and its squared cross product is exact in sign and zero-ness (epsilon 0 removes only exactly collinear vertices). Also: (ring) getNext/getPrior return an index whose flag was the last one tested and found clear on every explored return path. (early) the input is returned untouched only on its length. Does NOT decide the greedy removal order, 'no retained vertex within epsilon' or scale-by-2^k invariance of float rounding.",
		notDecided:  []string{"the greedy order of removals (beyond: getNext/getPrior return a still-present index)", "on return no retained vertex is within epsilon of its neighbours' line", "invariance under scaling by a power of two (float rounding)"},
		rules: []func(*Ctx){
			ruleSimplify("C16"),
			ruleUnflaggedReturn("C16.ring", []string{"getNext", "getPrior"}),
			ruleSimplifyEarly("C16.early", []string{"SimplifyPath64", "SimplifyPathD"}),
			ruleSibling("C16.sibling", [][2]string{{"SimplifyPath64", "SimplifyPathD"}, {"SimplifyPaths64", "SimplifyPathsD"}},
				map[string]string{"Path64": "PathD", "Paths64": "PathsD", "PerpendicDistFromLineSqr64": "PerpendicDistFromLineSqrD", "SimplifyPath64": "SimplifyPathD"},
				"the two variants implement one algorithm; where they differ one of them is wrong (or both are and the property is judged on each)"),
			ruleWidth("C16.width", 29, []string{"PerpendicDistFromLineSqr64", "SimplifyPath64"}, 4, "a wrapped int64 intermediate in the distance makes SimplifyPath64 keep or drop the wrong vertices from coordinates around 5*10^4 on"),
			ruleExactNumerator("C16.exact", 29, []string{"PerpendicDistFromLineSqr64"}, "with epsilon 0 only exactly collinear vertices may disappear: the cross product must be exact in zero-ness at 2^29"),
		},
	})
}

func init() {
	register(&propDef{
		id:          "C03",
		explanation: "Decides structural clauses of C03: (panics) the inventory of explicit panics is exactly the reviewed one (the documented precision-range panic, plus four index-error panics whose structural premises — index shape and guards — are re-checked); (make) every make() length/capacity is provably non-negative by interval analysis with dominating-branch refinement; (div) every integer division/remainder has a non-zero constant divisor; (flag) c.succeeded is assigned on every path through executeInternal and read only afterwards; (index) constant indices into slice parameters are guarded by the function or by every caller, and in the scan functions the number of variable-index reads without a dominating `index < len` guard on the same index value does not grow beyond the reviewed baseline; (ring) every ring walk exits on cursor==start (no one-node walks, no walks that cannot terminate on a well-formed ring). Does NOT decide nil-dereference freedom of the linked structures, variable-index safety or termination of invariant-dependent scans. Also (horz.zero): with bot.X == top.X assumed, some return path of resetHorzDirection looks for vertexMax in the AEL — a zero-length horizontal given a constant heading never meets its maxima pair (non-termination); (div) an integer divisor is a non-zero constant or bounded away from zero by the dominating branches.",
		notDecided:  []string{"nil-dereference freedom of AEL/SEL/OutPt links", "variable-index safety in general (only reads that were guarded on the confirmed tree are held to stay guarded: C03.index.var; 132 of 201 variable-index reads of slice parameters have no such guard and are not judged)", "termination of fixSelfIntersects / doMaxima / processIntersectList scans", "reachability of succeeded=false in addLocalMaxPoly", "memory/time blow-up for absurd radii (Ellipse step count)"},
		rules: []func(*Ctx){
			ruleVarIndex("C03.index.var", map[string]int{
				// per (function, slice-parameter position): how many variable-index reads are NOT dominated by `index < len`
				// on the same index value on the confirmed tree (each reviewed: guarded through another variable, a
				// wrap-around test or a loop invariant). The number must not grow.
				"(RectClip64).executeInternalPath64:param#1": 2, "(RectClip64).tidyEdgePair:param#2": 0, "(RectClip64).tidyEdgePair:param#3": 13,
				"(ClipperOffset).buildNormals:param#1": 2, "PointInPolygon:param#1": 9, "SimplifyPath64:param#0": 11, "SimplifyPathD:param#0": 11,
				"StripDuplicates:param#0": 0, "TrimCollinear64:param#0": 12, "startLocsAreClockwise:param#0": 1,
			}),
			rulePanics("C03.panics"), ruleMakeSizes("C03.make"), ruleConstIndex("C03.index", map[string]string{
				"TrimCollinear64:param#0": "path[0] == path[1] is evaluated only after `l < 2` was false, and l never exceeds len(path) (it starts there and is only decremented), so len(path) >= 2",
			}), ruleDivisors("C03.div"), ruleSucceeded("C03.flag"), ruleZeroLengthHorz("C03.horz.zero"), ruleMonotoneFlag("C03.open-flag", "clipperBase", "hasOpenPaths"), ruleRing("C03.ring", 25, whyRing),
		},
	})
	register(&propDef{
		id:          "C06",
		explanation: "Decides structural clauses of C06: (mirror) in getNextLocation, getIntersection and getLocation the Right arm is the left/right mirror image of the Left arm, Bottom of Top, and Top the diagonal image of Left — the clipper is equivariant under the rectangle's symmetries; (corner-live) no addCorner/addCornerLocation call is constant-dead; (fast) pathBounds is the bounds of the current path, disjoint paths are skipped and contained paths are returned as the input path itself; (bounds) the bounds accumulators start at the right extremes with independent per-axis updates. Also: (wrap) the predecessor of vertex 0 is the last vertex; (retire) tidyEdgePair reads the index of the slot it empties before relabelling the ring; (lag) checkEdges seeds its lagging edge set with the cyclic predecessor. (skip-only) a path is skipped only on a length test or because its bounds miss the rectangle. Does NOT decide the crossing-history logic of executeInternal nor checkEdges/tidyEdgePair. Also (inside.strict): while copying interior vertices getNextLocation leaves the Inside state towards a side only on the STRICT comparison against that side's own edge (explored with helpers and getLocation read inline), so a vertex exactly on an edge stays inside. Also (sibling.args): the polygon clipper and the line clipper hand segments to getIntersection in the same direction pattern. Also (scan.zero): the backward scan for the path's start location can look at vertex 0; (untouched): whether an untouched path contains the rectangle is decided by winding, not parity — violated on the pinned tree and recorded as a known finding.",
		notDecided:  []string{"crossing-history logic of executeInternal (firstCross/startLocs bookkeeping)", "checkEdges / tidyEdgePair re-joining (tidyEdgePair tests horizontal overlap on vertical edges: only region-equivalent differences could be produced)", "1-unit rounding of intersection points"},
		rules: []func(*Ctx){
			ruleRectMirror("C06.mirror"),
			ruleSegIntersectMirrorSem("C06.mirror.seg"),
			ruleInsideArmMirror("C06.mirror.inside"),
			ruleInsideArmStrict("C06.inside.strict"),
			ruleUntouchedByWinding("C06.untouched"),
			ruleBackwardScanReachesZero("C06.scan.zero"),
			ruleIntersectionArgOrder("C06.sibling.args"),
			ruleRetireBeforeRelabel("C06.retire"),
			ruleRectSkipOnly("C06.skip-only", "(RectClip64).Execute", []string{"(RectClip64).executeInternal"}),
			ruleCyclicPred("C06.wrap", []string{"(RectClip64).executeInternal"}, 1, "the polygon is closed: the edge entering vertex 0 starts at the LAST vertex; any other choice clips a segment that is not an edge of the input"),
			ruleDead("C06.corner-live", []string{"(RectClip64).executeInternal"}, []string{"(RectClip64).addCorner", "(RectClip64).addCornerLocation"}, 5, "corners of the rectangle enter the result only through these calls; when they are dead a path that leaves through one edge and re-enters through another loses the corner between them"),
			ruleRectFast("C06.fast"),
			ruleBounds("C06.bounds", []string{"getBounds"}),
		},
	})
}

func init() {
	// LAG rules are appended to the properties they serve
	props["C06"].rules = append(props["C06"].rules, ruleLag("C06.lag", []string{"(RectClip64).checkEdges"}, 1,
		"checkEdges files a vertex under the rectangle edges it shares with its PREDECESSOR; seeded with the vertex's own edges, the first vertex of every result ring is filed under every edge it touches and tidyEdgePair splits or re-joins rings along the wrong edge (3.6% of random polygons came back with a wrong winding number)"))
	props["C14"].rules = append(props["C14"].rules, ruleLag("C14.lag", []string{"Area64", "AreaD"}, 2,
		"the shoelace sum pairs every vertex with its cyclic predecessor; seeded with any other vertex the closing edge is wrong and the area is not half the exact shoelace sum"))
}
