package main

import (
	"fmt"
	"go/token"
	"go/types"
	"math/big"
	"sort"
	"strings"

	"golang.org/x/tools/go/ssa"
)

// Specifications of the limb helpers, decided by the LIMB engine (limb.go).

type limbSpecKind int

const (
	limbProduct   limbSpecKind = iota // two-limb result denotes in0 * in1
	limbSum                           // two-limb result denotes in0 + in1 (128-bit values)
	limbDiff                          // in0 - in1
	limbToFloat                       // float result is the real number the 128-bit input denotes
	limbIsZero                        // result <=> the 128-bit input is zero (a conjunction of limb tests)
	limbProdEqual                     // result <=> |in0|*|in1| == |in2|*|in3| (conjunction of limb equalities; signs are C15.pred's)
	limbCollinear                     // result <=> |sx-p1x|*|p2y-sy| == |sy-p1y|*|p2x-sx| for three points (magnitudes; signs are C15.pred's)
)

type limbSpec struct {
	fn      string
	kind    limbSpecKind
	modular bool // the result is specified modulo 2^128 (two's complement words)
	what    string
	why     string
	through []string // helpers through which a boolean result is returned (their comparisons are the function's own)
}

// limbInput builds the abstract arguments of f. Signed scalar inputs are listed for sign enumeration.
type limbInput struct {
	args   []*lval
	denote []lpoly // per parameter: the integer it denotes (scalar: itself; two-limb struct: lo + 2^64*hi)
	signed []string
}

func (e *limbEngine) inputs(f *ssa.Function, st *lstate) (in limbInput) {
	defer func() {
		if e.atomise { // coordinates: |c| < 2^62 (MaxCoord is 2^61), no sign enumeration — the differences are named instead
			lim := new(big.Int).Sub(new(big.Int).Lsh(big.NewInt(1), 62), big.NewInt(1))
			for _, a := range in.signed {
				st.lo[a], st.hi[a] = new(big.Int).Neg(lim), lim
			}
			in.signed = nil
		}
	}()
	atom := func(name string, t types.Type) *lval {
		lo, hi, sg, ok := typeRange(t)
		v := &lval{p: patom(name), signed: sg}
		if ok {
			st.lo[name], st.hi[name] = lo, hi
			if sg {
				in.signed = append(in.signed, name)
			}
		}
		return v
	}
	for i, p := range f.Params {
		name := fmt.Sprintf("in%d", i)
		if stt, ok := p.Type().Underlying().(*types.Struct); ok {
			v := &lval{}
			den := lpoly{}
			for j := 0; j < stt.NumFields(); j++ {
				fv := atom(fmt.Sprintf("%s.%s", name, fieldAliasName(stt.Field(j))), stt.Field(j).Type())
				v.fields = append(v.fields, fv)
			}
			if w, ok := limbWeights(stt); ok {
				for j, fv := range v.fields {
					den = padd(den, pscale(fv.p, w[j]))
				}
			}
			in.args = append(in.args, v)
			in.denote = append(in.denote, den)
			continue
		}
		v := atom(name, p.Type())
		in.args = append(in.args, v)
		in.denote = append(in.denote, v.p)
	}
	return in
}

// limbWeights: a two-word struct {signed high word, unsigned low word} (any order, any names): weights per field.
// For two unsigned words the field whose name contains "hi"/"Hi" is the high one.
func limbWeights(stt *types.Struct) ([]*big.Int, bool) {
	if stt.NumFields() != 2 {
		return nil, false
	}
	hi := -1
	for j := 0; j < 2; j++ {
		if _, _, sg, ok := typeRange(stt.Field(j).Type()); !ok {
			return nil, false
		} else if sg {
			hi = j
		}
	}
	if hi < 0 {
		for j := 0; j < 2; j++ {
			if strings.Contains(strings.ToLower(fieldAliasName(stt.Field(j))), "hi") {
				hi = j
			}
		}
	}
	if hi < 0 {
		return nil, false
	}
	w := []*big.Int{big.NewInt(1), big.NewInt(1)}
	w[hi] = two64
	return w, true
}

// forEachSign runs body once per sign assignment of the signed inputs.
func forEachSign(st *lstate, signed []string, body func(st *lstate, desc string)) {
	n := len(signed)
	for mask := 0; mask < 1<<n; mask++ {
		s := st.clone()
		var d []string
		for i, a := range signed {
			if mask>>i&1 == 1 {
				s.hi[a] = big.NewInt(-1)
				d = append(d, a+"<0")
			} else {
				s.lo[a] = big.NewInt(0)
				d = append(d, a+">=0")
			}
		}
		body(s, strings.Join(d, " "))
	}
}

// forkBool resolves a returned boolean into the two outcomes it can take on the path.
func (e *limbEngine) forkBool(f *ssa.Function, st *lstate, ret *lval, k func(*lstate, bool, bool)) {
	fr := &lframe{f: f, vals: map[ssa.Value]*lval{}, st: st, top: true}
	if ret == nil || (ret.cbool == nil && ret.cmp == nil && ret.conj == nil) {
		k(st, false, false)
		return
	}
	if known, val := e.decide(fr, ret); known {
		e.note(fr, ret, val)
		k(st, val, true)
		return
	}
	for _, val := range []bool{true, false} {
		if ret.conj != nil && val == ret.conjNeg {
			// `return x == y` on structs answering false: field i is the first that differs
			for ci, cj := range ret.conj {
				f3 := fr.fork()
				ok := true
				for _, before := range ret.conj[:ci] {
					ok = ok && e.assume(f3, &lval{cmp: before}, true)
				}
				if ok && e.assume(f3, &lval{cmp: cj}, false) {
					k(f3.st, val, true)
				}
			}
			continue
		}
		f2 := fr.fork()
		if e.assume(f2, ret, val) {
			k(f2.st, val, true)
		}
	}
}

type limbResult struct {
	paths   int
	splits  int
	bad     string
	example string
}

func checkLimbSpec(c *Ctx, sp limbSpec) limbResult {
	f := c.fn(sp.fn)
	e := newLimbEngine(c)
	e.noTopSubst = sp.kind == limbIsZero || sp.kind == limbProdEqual || sp.kind == limbCollinear
	if sp.kind == limbCollinear {
		e.atomise = true
		e.topFns = map[*ssa.Function]bool{f: true}
		for _, n := range sp.through {
			if g := c.fnOpt(n); g != nil {
				e.topFns[g] = true
			}
		}
	}
	st0 := &lstate{sub: map[string]lpoly{}, lo: map[string]*big.Int{}, hi: map[string]*big.Int{}, exact: map[*lval]bool{}, wrap1: map[*lval]bool{}, mem: map[lmemKey]*lval{}}
	in := e.inputs(f, st0)
	res := limbResult{}
	fail := func(desc, msg string) {
		if res.bad == "" {
			res.bad = msg
			if desc != "" {
				res.bad += " [inputs: " + desc + "]"
			}
		}
	}
	var modulus *big.Int
	if sp.modular {
		modulus = two128
	}
	signKnown := true
	abs := func(st *lstate, p lpoly) lpoly {
		lo, hi := st.interval(p)
		if hi != nil && hi.Sign() <= 0 {
			return pneg(p)
		}
		if lo == nil || lo.Sign() < 0 {
			signKnown = false // the magnitude is not a polynomial on this path
		}
		return p
	}
	type pathOut struct {
		st   *lstate
		val  bool
		desc string
	}
	var bools []pathOut
	forEachSign(st0, in.signed, func(st *lstate, desc string) {
		e.run(f, in.args, st, true, 0, func(st *lstate, ret *lval) {
			res.paths++
			if len(st.bad) > 0 {
				fail(desc, st.bad[0])
				return
			}
			var target lpoly
			switch sp.kind {
			case limbProduct:
				target = pmul(in.denote[0], in.denote[1])
			case limbSum:
				target = padd(in.denote[0], in.denote[1])
			case limbDiff:
				target = psub(in.denote[0], in.denote[1])
			case limbToFloat:
				target = in.denote[0]
			}
			switch sp.kind {
			case limbProduct, limbSum, limbDiff:
				if ret == nil || len(ret.fields) != 2 {
					fail(desc, "the result is not a two-word value")
					return
				}
				stt := f.Signature.Results().At(0).Type().Underlying().(*types.Struct)
				w, ok := limbWeights(stt)
				if !ok {
					fail(desc, "the result type is not a (high, low) word pair")
					return
				}
				total := lpoly{}
				for j, fv := range ret.fields {
					if fv.p == nil {
						fail(desc, "result word "+stt.Field(j).Name()+" is not an integer value")
						return
					}
					p, t := e.eff(st, fv)
					if strings.Contains(p.String(), "?") {
						fail(desc, fmt.Sprintf("result word %s is not a function of the inputs alone (%s)", stt.Field(j).Name(), describeOpaque(e, fv, p)))
						return
					}
					if t && !(sp.modular && w[j].Cmp(two64) == 0) {
						fail(desc, fmt.Sprintf("result word %s = %s may have wrapped: it is exact only modulo 2^64, which is not enough at weight %s", stt.Field(j).Name(), p, w[j]))
						return
					}
					total = padd(total, pscale(p, w[j]))
				}
				t, msg := e.recombine(st, psub(total, target), modulus)
				if msg != "" {
					fail(desc, msg)
					return
				}
				if !t.isZero() {
					fail(desc, fmt.Sprintf("result - specification = %s, not 0", t))
				}
			case limbToFloat:
				if ret == nil || !ret.real || ret.p == nil {
					fail(desc, "the result is not a float built from the words")
					return
				}
				p := st.norm(ret.p)
				if strings.Contains(p.String(), "?") {
					fail(desc, "the result is not a function of the words alone: "+describeOpaque(e, ret, p))
					return
				}
				t, msg := e.recombine(st, psub(p, target), nil)
				if msg != "" {
					fail(desc, msg)
					return
				}
				if !t.isZero() {
					fail(desc, fmt.Sprintf("returned value - denoted value = %s, not 0", t))
				}
			case limbIsZero, limbProdEqual, limbCollinear:
				e.forkBool(f, st, ret, func(st2 *lstate, val, ok bool) {
					if !ok {
						fail(desc, "the result is not a boolean combination of limb comparisons")
						return
					}
					if len(st2.bad) > 0 {
						fail(desc, st2.bad[0])
						return
					}
					bools = append(bools, pathOut{st2, val, desc})
				})
			}
		})
	})
	if sp.kind == limbIsZero || sp.kind == limbProdEqual || sp.kind == limbCollinear {
		conj := map[*ssa.BinOp]bool{}
		nTrue := 0
		// the quantity whose vanishing the function decides, per path (magnitudes take the sign known on the path)
		targetOf := func(st *lstate) lpoly {
			switch sp.kind {
			case limbIsZero:
				return in.denote[0]
			case limbProdEqual:
				return psub(pmul(abs(st, in.denote[0]), abs(st, in.denote[1])), pmul(abs(st, in.denote[2]), abs(st, in.denote[3])))
			}
			// limbCollinear: points in0, in1 (shared), in2 with fields X, Y
			co := func(i int, fld string) lpoly { return patom(fmt.Sprintf("in%d.%s", i, fld)) }
			named := func(x lpoly) lpoly { // the difference as the function itself named it, if it did
				for a, d := range e.diffDefs {
					if psub(d, x).isZero() {
						return patom(a)
					}
					if padd(d, x).isZero() {
						return pneg(patom(a))
					}
				}
				return x
			}
			A := named(psub(co(1, "X"), co(0, "X")))
			B := named(psub(co(2, "Y"), co(1, "Y")))
			C := named(psub(co(1, "Y"), co(0, "Y")))
			D := named(psub(co(2, "X"), co(1, "X")))
			return psub(pmul(abs(st, A), abs(st, B)), pmul(abs(st, C), abs(st, D)))
		}
		// the signed quantity (shortcuts in front of the word comparison reason about it directly); its vanishing
		// implies that of the magnitude form, and the magnitude form plus the sign comparison imply it
		signedTarget := func(st *lstate) (lpoly, bool) {
			if sp.kind != limbCollinear {
				return nil, false
			}
			co := func(i int, fld string) lpoly { return patom(fmt.Sprintf("in%d.%s", i, fld)) }
			A := psub(co(1, "X"), co(0, "X"))
			B := psub(co(2, "Y"), co(1, "Y"))
			C := psub(co(1, "Y"), co(0, "Y"))
			D := psub(co(2, "X"), co(1, "X"))
			return psub(pmul(A, B), pmul(C, D)), true
		}
		// express in coordinates (named differences expanded) under the path's equalities
		inCoords := func(st *lstate, p lpoly) lpoly {
			s2 := st.clone()
			// the equalities as statements about coordinates
			for _, ft := range st.facts {
				if ft.top && ft.holdsEq() {
					if a, q, ok := unitAtom(e.expandDiffs(s2.norm(ft.d))); ok && strings.HasPrefix(a, "in") {
						s2.sub[a] = q
					}
				}
			}
			return s2.norm(e.expandDiffs(p))
		}
		// what the path's own equalities say, as substitutions
		withFacts := func(st *lstate) *lstate {
			s2 := st.clone()
			for _, ft := range st.facts {
				if ft.top && ft.holdsEq() {
					if a, q, ok := unitAtom(s2.norm(ft.d)); ok {
						s2.sub[a] = q
					}
				}
			}
			return s2
		}
		isZeroUnder := func(st *lstate, p lpoly) bool {
			r, m := e.recombine(st, p, nil)
			return m == "" && e.expandDiffs(r).isZero()
		}
		for _, po := range bools {
			if !po.val {
				continue
			}
			nTrue++
			signKnown = true
			target := targetOf(po.st)
			var eqs []lfact
			for _, ft := range po.st.facts {
				if ft.top && ft.site != nil {
					if ft.holdsEq() {
						conj[ft.site] = true
						if !ft.d.isZero() {
							eqs = append(eqs, ft)
						}
					} else if ft.op != token.ILLEGAL && !ft.failsEq() {
						// an ordering test on the way to `true`
						fail(po.desc, fmt.Sprintf("the answer `true` depends on an ordering test at %s; equality of multi-word values is a conjunction of word equalities", c.pos(ft.site.Pos())))
					}
				}
			}
			// target must be a combination of the path's equalities using every one of them, at word weights
			if ts, ok := signedTarget(po.st); ok && inCoords(po.st, ts).isZero() {
				continue // the equalities met on the path make the signed quantity vanish identically
			}
			if isZeroUnder(withFacts(po.st), target) && signKnown {
				continue // the equalities met on the path make the quantity vanish term by term
			}
			if !signKnown {
				fail(po.desc, "returns true on a path where the equalities met do not make the quantity vanish and the operands' signs are not known (the word comparison is reached without taking magnitudes?)")
				continue
			}
			if len(eqs) == 0 || len(eqs) > 5 {
				fail(po.desc, fmt.Sprintf("returns true after %d word equalities; they cannot establish %s == 0", len(eqs), target))
				continue
			}
			// weight 0: an equality met on the way that the argument does not need (a failed shortcut test's
			// complement, a guard); an equality that is WRONGLY required shows on the `false` side, below
			ws := []*big.Int{big.NewInt(1), big.NewInt(-1), two64, new(big.Int).Neg(two64), big.NewInt(0)}
			found := false
			idx := make([]int, len(eqs))
			for !found {
				comb := lpoly{}
				for i, ft := range eqs {
					comb = padd(comb, pscale(ft.d, ws[idx[i]]))
				}
				if isZeroUnder(po.st, psub(comb, target)) {
					found = true
					break
				}
				j := 0
				for ; j < len(idx); j++ {
					idx[j]++
					if idx[j] < len(ws) {
						break
					}
					idx[j] = 0
				}
				if j == len(idx) {
					break
				}
			}
			if !found {
				var ds []string
				for _, ft := range eqs {
					ds = append(ds, "("+ft.d.String()+" = 0)")
				}
				fail(po.desc, fmt.Sprintf("returns true knowing only %s; these do not add up, word by word, to %s = 0 (a word is not compared, or something else is)", strings.Join(ds, ", "), target))
			}
		}
		if nTrue == 0 {
			fail("", "no path returns true")
		}
		for _, po := range bools {
			if po.val {
				continue
			}
			var last *lfact
			for i := range po.st.facts {
				ft := &po.st.facts[i]
				if ft.top && ft.site != nil && ft.failsEq() {
					last = ft
				}
			}
			if last != nil {
				// (signs) a comparison of constants decided by the path's sign case: the sign logic is C14.sign / C15.pred's
				if k, ok := po.st.norm(last.d).isConst(); ok && k.Sign() != 0 {
					continue
				}
				// (words) the failed equality f is one word of a radix representation of the quantity T: for a weight w
				// in {1, 2^64} either T - w*f is identically a multiple of the next weight and |f| is below it, or the rest
				// T - w*f is smaller than w in magnitude; in both cases T = 0 forces f = 0
				okWord := false
				signKnown = true
				T := targetOf(po.st)
				var known []lpoly // equalities established on this path
				for _, ft := range po.st.facts {
					if ft.top && ft.holdsEq() && !ft.d.isZero() {
						known = append(known, ft.d)
					}
				}
				wts := []*big.Int{big.NewInt(1), big.NewInt(-1), two64, new(big.Int).Neg(two64)}
				try := func(base lpoly) {
					for _, w := range wts {
						R := psub(base, pscale(last.d, w))
						next := new(big.Int).Mul(new(big.Int).Abs(w), two64)
						if r, m := e.recombine(po.st, R, next); m == "" && e.expandDiffs(r).mod(next).isZero() {
							lo, hi := po.st.interval(last.d)
							if lo != nil && lo.CmpAbs(two64) < 0 && hi.CmpAbs(two64) < 0 {
								okWord = true
							}
						}
						if r, m := e.recombine(po.st, R, nil); m == "" {
							lo, hi := po.st.interval(e.expandDiffs(r))
							if lo != nil && lo.CmpAbs(w) < 0 && hi.CmpAbs(w) < 0 {
								okWord = true
							}
						} else {
							// the rest does not recombine into the inputs (only the low words of the two products
							// are left when the HIGH words are compared first): its interval, taken word by word,
							// is enough
							Rw := lpoly{}
							for m, cf := range po.st.norm(R) {
								Rw[m] = new(big.Int).Set(cf)
							}
							// write every split quantity as its two words — the splits whose words the path
							// actually compared first (the engine's split table is shared by all sign cases)
							mentioned := func(sp *lsplit) bool {
								for _, q := range append([]lpoly{last.d}, known...) {
									for m := range q {
										if strings.Contains(m, sp.lo) || strings.Contains(m, sp.hi) {
											return true
										}
									}
								}
								return false
							}
							var ordered []*lsplit
							for _, sp := range e.splits {
								if mentioned(sp) {
									ordered = append(ordered, sp)
								}
							}
							for _, sp := range e.splits {
								if !mentioned(sp) {
									ordered = append(ordered, sp)
								}
							}
							for _, sp := range ordered {
								if len(sp.def) != 1 {
									continue
								}
								for m, one := range sp.def {
									if cf, ok := Rw[m]; ok && one.CmpAbs(big.NewInt(1)) == 0 && m != "" {
										delete(Rw, m)
										words := padd(patom(sp.lo), pscale(patom(sp.hi), sp.hiCoef))
										Rw = padd(Rw, pscale(words, new(big.Int).Mul(cf, one))) // def = one*m with one = +-1, so m = one*def
									}
								}
							}
							lo, hi := po.st.interval(Rw)
							if lo != nil && lo.CmpAbs(w) < 0 && hi.CmpAbs(w) < 0 {
								okWord = true
							}
						}
					}
				}
				if signKnown {
					try(T)
				}
				if signKnown && !okWord && len(known) > 0 && len(known) <= 3 {
					idx := make([]int, len(known))
					for !okWord {
						base := T
						for i, g := range known {
							base = psub(base, pscale(g, wts[idx[i]]))
						}
						try(base)
						k := 0
						for ; k < len(idx); k++ {
							idx[k]++
							if idx[k] < len(wts) {
								break
							}
							idx[k] = 0
						}
						if k == len(idx) {
							break
						}
					}
				}
				if okWord {
					continue
				}
			}
			// otherwise the quantity must be visibly non-zero: under the path's equalities it is (up to sign) a
			// product of values the path found to be non-zero
			s2 := withFacts(po.st)
			tp, m := e.recombine(s2, targetOf(po.st), nil)
			okNZ := false
			if ts, ok := signedTarget(po.st); ok {
				tp, m = inCoords(po.st, ts), ""
			}
			if m == "" {
				tp = e.expandDiffs(tp)
				var nz []lpoly
				for _, ft := range po.st.facts {
					if ft.top && ft.failsEq() {
						if sp.kind == limbCollinear {
							nz = append(nz, inCoords(po.st, ft.d))
						} else {
							nz = append(nz, e.expandDiffs(s2.norm(ft.d)))
						}
					}
				}
				same := func(a, b lpoly) bool { return psub(a, b).isZero() || padd(a, b).isZero() }
				for i := range nz {
					if same(tp, nz[i]) {
						okNZ = true
					}
					for j := i; j < len(nz); j++ {
						if same(tp, pmul(nz[i], nz[j])) {
							okNZ = true
						}
					}
				}
			}
			switch {
			case okNZ:
			case last == nil:
				fail(po.desc, "returns false on a path where no equality failed")
			default:
				fail(po.desc, fmt.Sprintf("returns false because of the test at %s, which is not one of the equalities a `true` answer rests on, and the path does not show that %s is non-zero (it reduces to %s)", c.pos(last.site.Pos()), targetOf(po.st), tp))
			}
		}
		res.paths = len(bools)
	}
	res.splits = len(e.splits)
	for i := len(f.Params) - 1; i >= 0; i-- {
		res.bad = strings.ReplaceAll(res.bad, fmt.Sprintf("in%d", i), f.Params[i].Name())
	}
	return res
}

func describeOpaque(e *limbEngine, v *lval, p lpoly) string {
	if v.why != "" {
		return v.why
	}
	return p.String()
}

var limbSpecs = []limbSpec{
	{fn: "multiplyUInt64", kind: limbProduct, modular: false, what: "Lo64 + 2^64*Hi64 == a*b for all uint64 a, b (every partial product and every carry used once, at its weight, with no intermediate overflow)",
		why: "productsAreEqual decides collinearity by comparing these two words: a dropped or misplaced carry makes distinct products compare equal (or equal ones differ) only for large operands, which no fixed test set reaches"},
	{fn: "mulInt64", kind: limbProduct, modular: true, what: "lo + 2^64*hi == a*b (two's complement, modulo 2^128) for all int64 a, b, in each of the four sign cases",
		why: "CrossProduct, dotProduct64, Area64 and the intersection point take their exactness from this product: a wrong sign correction appears only when an operand is negative and the product exceeds 64 bits"},
	{fn: "(int128).add", kind: limbSum, modular: true, what: "(lo, hi) of the result denote x + y modulo 2^128: the carry of the low words enters the high words",
		why: "a lost carry changes a cross product by 2^64 only when the low words overflow"},
	{fn: "(int128).sub", kind: limbDiff, modular: true, what: "(lo, hi) of the result denote x - y modulo 2^128: the borrow of the low words leaves the high words",
		why: "a lost borrow changes a cross product by 2^64 only when the low word of x is below that of y"},
	{fn: "(int128).toFloat64", kind: limbToFloat, modular: false, what: "the float returned is lo + 2^64*hi (as a real number, before rounding) in both sign cases, including the carry of the two-word negation; no word that may have wrapped is converted",
		why: "the sign of a cross product decides orientation, hole-ness and point-in-polygon: a wrong negation carry or a signed reading of the low word flips it only for products beyond 64 bits"},
	{fn: "(int128).isZero", kind: limbIsZero, modular: false, what: "true exactly when both words are zero",
		why: "collinearity and 'on the edge' are zero tests of a 128-bit value; testing one word only confuses multiples of 2^64 with zero"},
	{fn: "isCollinear", kind: limbCollinear, through: []string{"productsAreEqual"}, what: "true only when |a|*|b| == |c|*|d| for the coordinate differences a, b, c, d of the three points (both words of both products compared, or a factor of each product found zero); false only when one of those comparisons fails or the difference is a product of values found non-zero",
		why: "every shortcut in front of the 128-bit comparison must agree with it for degenerate inputs too (coincident points, axis-parallel edges): a wrong shortcut changes which vertices TrimCollinear, cleanCollinear and the offsetter treat as redundant"},
	{fn: "productsAreEqual", kind: limbProdEqual, modular: false, what: "true only when both words of |a|*|b| and |c|*|d| are equal, false only when one of these comparisons (or the sign comparison) fails; no shortcut compares a 64-bit product that may have wrapped",
		why: "isCollinear is exact for all int64 coordinates only if the 128-bit products are compared in full"},
}

// ruleLimb emits one obligation per limb specification whose function is in `fns`.
func ruleLimb(rule string, fns ...string) func(*Ctx) {
	return func(c *Ctx) {
		want := map[string]bool{}
		for _, f := range fns {
			want[f] = true
		}
		n := 0
		var names []string
		for _, sp := range limbSpecs {
			if !want[sp.fn] {
				continue
			}
			names = append(names, sp.fn)
			if sp.fn == "multiplyUInt64" && c.fnOpt(sp.fn) == nil {
				// the hand-written 64x64 multiplication is an internal helper: when it is gone (replaced, say, by
				// math/bits.Mul64, which LIMB knows) what it was for is still decided on its consumers
				// productsAreEqual and isCollinear, which read through whatever replaced it
				n++
				c.pass(rule, fmt.Sprintf("%s:%s:value", rule, sp.fn), token.NoPos, sp.fn, "no longer declared; the 128-bit product is decided where it is used (productsAreEqual, isCollinear)")
				continue
			}
			f := c.fn(sp.fn)
			r := checkLimbSpec(c, sp)
			n++
			c.check(r.bad == "", rule, fmt.Sprintf("%s:%s:value", rule, sp.fn), f.Pos(), sp.fn,
				fmt.Sprintf("%s — polynomial identity established on %d paths, %d split pairs recombined", sp.what, r.paths, r.splits), r.bad, sp.why)
		}
		sort.Strings(names)
		c.floor(rule, n, len(fns))
	}
}
