package main

import (
	"fmt"
	"go/constant"
	"go/token"
	"go/types"
	"math/big"
	"sort"
	"strings"

	"golang.org/x/tools/go/ssa"
)

// LIMB — abstract interpretation of multi-word integer arithmetic in the domain of exact polynomials.
//
// Every 64-bit value of a limb helper (multiplyUInt64, mulInt64, int128.add/sub/toFloat64/isZero,
// productsAreEqual) is abstracted by the polynomial it denotes over the function's inputs, with integer
// coefficients of arbitrary size. Machine operations that lose information are modelled by *split atoms*:
// `v & (2^k-1)` and `v >> k` become lo_k(v) and hi_k(v) with the identity v = lo_k(v) + 2^k*hi_k(v);
// bits.Mul64 / Add64 / Sub64 return the two halves of the exact product / sum / difference. An operation
// whose result interval (interval arithmetic over the atoms' ranges, refined by the branch conditions of the
// path) does not fit the machine type makes the value *wrapped*: it is then only known modulo 2^64. A wrapped
// value may be stored into a limb of weight 2^64 of a 128-bit result (the error is a multiple of 2^128) but
// may not be split, compared, or converted to float.
//
// The function's specification is a polynomial identity: the weighted sum of the result limbs minus the
// specified value must normalise to zero after every split pair (lo, hi) has been recombined — which is
// possible only when both halves occur with the same cofactor and weights in the ratio 2^k, i.e. when every
// half of every intermediate is used exactly once and at the right weight. No solver is involved and nothing
// is executed: the decision is a rewriting of polynomials computed from the SSA form, per path of the
// (loop-free) helper.

var (
	two64  = new(big.Int).Lsh(big.NewInt(1), 64)
	two63  = new(big.Int).Lsh(big.NewInt(1), 63)
	two128 = new(big.Int).Lsh(big.NewInt(1), 128)
)

// ---------- polynomials ----------

type lpoly map[string]*big.Int // monomial ("a*b", "" = 1) -> coefficient

func pconst(v *big.Int) lpoly {
	p := lpoly{}
	if v.Sign() != 0 {
		p[""] = new(big.Int).Set(v)
	}
	return p
}
func pint(v int64) lpoly     { return pconst(big.NewInt(v)) }
func patom(a string) lpoly   { return lpoly{a: big.NewInt(1)} }
func (p lpoly) clone() lpoly { return pscale(p, big.NewInt(1)) }

func padd(a, b lpoly) lpoly {
	r := a.clone()
	for m, c := range b {
		if x, ok := r[m]; ok {
			x.Add(x, c)
			if x.Sign() == 0 {
				delete(r, m)
			}
		} else {
			r[m] = new(big.Int).Set(c)
		}
	}
	return r
}
func pscale(a lpoly, k *big.Int) lpoly {
	r := lpoly{}
	if k.Sign() == 0 {
		return r
	}
	for m, c := range a {
		r[m] = new(big.Int).Mul(c, k)
	}
	return r
}
func pneg(a lpoly) lpoly    { return pscale(a, big.NewInt(-1)) }
func psub(a, b lpoly) lpoly { return padd(a, pneg(b)) }

func monoMul(a, b string) string {
	if a == "" {
		return b
	}
	if b == "" {
		return a
	}
	x := append(strings.Split(a, "*"), strings.Split(b, "*")...)
	sort.Strings(x)
	return strings.Join(x, "*")
}
func monoAtoms(m string) []string {
	if m == "" {
		return nil
	}
	return strings.Split(m, "*")
}
func pmul(a, b lpoly) lpoly {
	r := lpoly{}
	for m1, c1 := range a {
		for m2, c2 := range b {
			m := monoMul(m1, m2)
			v := new(big.Int).Mul(c1, c2)
			if x, ok := r[m]; ok {
				x.Add(x, v)
				if x.Sign() == 0 {
					delete(r, m)
				}
			} else if v.Sign() != 0 {
				r[m] = v
			}
		}
	}
	return r
}
func (p lpoly) isConst() (*big.Int, bool) {
	switch len(p) {
	case 0:
		return big.NewInt(0), true
	case 1:
		if c, ok := p[""]; ok {
			return c, true
		}
	}
	return nil, false
}
func (p lpoly) isZero() bool { return len(p) == 0 }
func (p lpoly) String() string {
	if len(p) == 0 {
		return "0"
	}
	var ms []string
	for m := range p {
		ms = append(ms, m)
	}
	sort.Strings(ms)
	var sb strings.Builder
	for i, m := range ms {
		c := p[m]
		cs := c.String()
		if c.BitLen() > 20 && new(big.Int).Abs(c).TrailingZeroBits() == uint(c.BitLen()-1) {
			cs = fmt.Sprintf("2^%d", c.BitLen()-1)
			if c.Sign() < 0 {
				cs = "-" + cs
			}
		}
		if i > 0 && c.Sign() >= 0 {
			sb.WriteString(" + ")
		} else if i > 0 {
			sb.WriteString(" ")
		}
		switch {
		case m == "":
			sb.WriteString(cs)
		case cs == "1":
			sb.WriteString(m)
		case cs == "-1":
			sb.WriteString("-" + m)
		default:
			sb.WriteString(cs + "*" + m)
		}
	}
	return sb.String()
}
func (p lpoly) mod(m *big.Int) lpoly {
	r := lpoly{}
	for k, c := range p {
		v := new(big.Int).Mod(c, m)
		if v.Sign() != 0 {
			r[k] = v
		}
	}
	return r
}
func (p lpoly) mentions(atom string) bool {
	for m := range p {
		for _, a := range monoAtoms(m) {
			if a == atom {
				return true
			}
		}
	}
	return false
}

// substitute atom := q
func (p lpoly) subst(atom string, q lpoly) lpoly {
	if !p.mentions(atom) {
		return p
	}
	r := lpoly{}
	for m, c := range p {
		term := pconst(c)
		for _, a := range monoAtoms(m) {
			if a == atom {
				term = pmul(term, q)
			} else {
				term = pmul(term, patom(a))
			}
		}
		r = padd(r, term)
	}
	return r
}

// ---------- values ----------

type lcmp struct {
	op   token.Token
	l, r *lval
	site *ssa.BinOp
}

type lmemKey struct {
	base  ssa.Value
	field int
}

type lval struct {
	p       lpoly
	taint   bool // the machine value is only known to be congruent to p modulo 2^64
	real    bool // float64 holding the real number p (rounding not modelled)
	signed  bool
	fields  []*lval
	tuple   []*lval
	cmp     *lcmp
	conj    []*lcmp // struct equality: all field comparisons hold (negated: conjNeg)
	conjNeg bool
	cbool   *bool
	addr    *lmemKey
	orParts []*lval // x | y | ... of exact non-negative values that could not be added
	shrOr   []*lval // (x | y | ...) >> k
	shrK    uint
	why     string // for opaque values: where the knowledge was lost
}

type lsplit struct {
	id     int
	k      uint
	def    lpoly
	lo, hi string
	hiCoef *big.Int // def = lo + hiCoef*hi   (2^k, or -2^k for a borrow)
}

type lfact struct {
	op   token.Token // the comparison as written
	val  bool        // its outcome on this path
	d    lpoly       // l - r
	site *ssa.BinOp
	top  bool // comparison evaluated in the analysed function itself (not in an inlined callee)
}

// holdsEq: the path knows d == 0; failsEq: the path knows d != 0.
func (f lfact) holdsEq() bool { return (f.op == token.EQL && f.val) || (f.op == token.NEQ && !f.val) }
func (f lfact) failsEq() bool { return (f.op == token.EQL && !f.val) || (f.op == token.NEQ && f.val) }

type lstate struct {
	sub   map[string]lpoly
	lo    map[string]*big.Int
	hi    map[string]*big.Int
	exact map[*lval]bool
	wrap1 map[*lval]bool // the value is known to have wrapped exactly once: it is p - 2^64
	mem   map[lmemKey]*lval
	facts []lfact
	bad   []string
}

func (s *lstate) clone() *lstate {
	n := &lstate{sub: map[string]lpoly{}, lo: map[string]*big.Int{}, hi: map[string]*big.Int{}, exact: map[*lval]bool{}, wrap1: map[*lval]bool{}, mem: map[lmemKey]*lval{}}
	for k, v := range s.wrap1 {
		n.wrap1[k] = v
	}
	for k, v := range s.sub {
		n.sub[k] = v
	}
	for k, v := range s.lo {
		n.lo[k] = v
	}
	for k, v := range s.hi {
		n.hi[k] = v
	}
	for k, v := range s.exact {
		n.exact[k] = v
	}
	for k, v := range s.mem {
		n.mem[k] = v
	}
	n.facts = append([]lfact(nil), s.facts...)
	n.bad = append([]string(nil), s.bad...)
	return n
}

func (s *lstate) norm(p lpoly) lpoly {
	for i := 0; i < 8; i++ {
		changed := false
		for a, q := range s.sub {
			if p.mentions(a) {
				p = p.subst(a, q)
				changed = true
			}
		}
		if !changed {
			break
		}
	}
	return p
}

// interval of p under the atoms' ranges (nil = unbounded on that side)
func (s *lstate) interval(p lpoly) (lo, hi *big.Int) {
	p = s.norm(p)
	lo, hi = big.NewInt(0), big.NewInt(0)
	for m, c := range p {
		mlo, mhi := big.NewInt(1), big.NewInt(1)
		for _, a := range monoAtoms(m) {
			alo, ahi := s.lo[a], s.hi[a]
			if alo == nil || ahi == nil {
				return nil, nil
			}
			c1, c2, c3, c4 := new(big.Int).Mul(mlo, alo), new(big.Int).Mul(mlo, ahi), new(big.Int).Mul(mhi, alo), new(big.Int).Mul(mhi, ahi)
			mlo, mhi = bigMin(c1, c2, c3, c4), bigMax(c1, c2, c3, c4)
		}
		t1, t2 := new(big.Int).Mul(mlo, c), new(big.Int).Mul(mhi, c)
		lo = new(big.Int).Add(lo, bigMin(t1, t2))
		hi = new(big.Int).Add(hi, bigMax(t1, t2))
	}
	return lo, hi
}

func bigMin(xs ...*big.Int) *big.Int {
	m := xs[0]
	for _, x := range xs[1:] {
		if x.Cmp(m) < 0 {
			m = x
		}
	}
	return m
}
func bigMax(xs ...*big.Int) *big.Int {
	m := xs[0]
	for _, x := range xs[1:] {
		if x.Cmp(m) > 0 {
			m = x
		}
	}
	return m
}

// ---------- the interpreter ----------

type limbEngine struct {
	c       *Ctx
	splits  []*lsplit
	byKey   map[string]*lsplit
	nOpaque int
	inline  func(*ssa.Function) bool
	// conjunction specifications read the top-level equalities as facts; they are then not substituted away
	noTopSubst bool
	topFns     map[*ssa.Function]bool // functions whose comparisons count as the analysed function's own (a boolean returned through a chain of helpers)
	atomise    bool                   // name every difference/sum of two input coordinates (isCollinear's a, b, c, d)
	diffDefs   map[string]lpoly
	paths      int
	instrs     int
}

func newLimbEngine(c *Ctx) *limbEngine {
	e := &limbEngine{c: c, byKey: map[string]*lsplit{}}
	e.inline = func(f *ssa.Function) bool {
		if f == nil || len(f.Blocks) == 0 || !c.inRepo(f) {
			return false
		}
		n := 0
		for _, b := range f.Blocks {
			n += len(b.Instrs)
			for _, s := range b.Succs {
				if s.Dominates(b) {
					return false // loops are not interpreted
				}
			}
		}
		return n <= 80
	}
	return e
}

type lframe struct {
	f    *ssa.Function
	vals map[ssa.Value]*lval
	st   *lstate
	top  bool
}

func (fr *lframe) fork() *lframe {
	n := &lframe{f: fr.f, vals: map[ssa.Value]*lval{}, st: fr.st.clone(), top: fr.top}
	for k, v := range fr.vals {
		n.vals[k] = v
	}
	return n
}

func typeRange(t types.Type) (lo, hi *big.Int, signed, ok bool) {
	b, isB := t.Underlying().(*types.Basic)
	if !isB {
		return nil, nil, false, false
	}
	switch b.Kind() {
	case types.Int64, types.Int:
		return new(big.Int).Neg(two63), new(big.Int).Sub(two63, big.NewInt(1)), true, true
	case types.Uint64, types.Uint, types.Uintptr:
		return big.NewInt(0), new(big.Int).Sub(two64, big.NewInt(1)), false, true
	}
	return nil, nil, false, false
}

func (e *limbEngine) opaque(st *lstate, t types.Type, why string) *lval {
	e.nOpaque++
	a := fmt.Sprintf("?%d", e.nOpaque)
	v := &lval{p: patom(a), why: why}
	if lo, hi, sg, ok := typeRange(t); ok {
		st.lo[a], st.hi[a] = lo, hi
		v.signed = sg
	}
	if isFloat(t) {
		v.real = true
	}
	return v
}

func (e *limbEngine) isTop(fr *lframe, site *ssa.BinOp) bool {
	if site == nil {
		return false
	}
	if e.topFns != nil {
		return e.topFns[site.Parent()]
	}
	return fr.top && site.Parent() == fr.f
}

// singleAtom: p is exactly one atom with coefficient 1.
func singleAtom(p lpoly) (string, bool) {
	if len(p) != 1 {
		return "", false
	}
	for m, c := range p {
		if m != "" && !strings.Contains(m, "*") && c.Cmp(big.NewInt(1)) == 0 {
			return m, true
		}
	}
	return "", false
}

// expandDiffs replaces the named differences by their definitions.
func (e *limbEngine) expandDiffs(p lpoly) lpoly {
	for a, d := range e.diffDefs {
		p = p.subst(a, d)
	}
	return p
}

// eff returns the polynomial and wrap status of v on this path.
func (e *limbEngine) eff(st *lstate, v *lval) (lpoly, bool) {
	p := st.norm(v.p)
	if v.taint && st.wrap1[v] {
		return psub(p, pconst(two64)), false
	}
	t := v.taint && !st.exact[v]
	if t {
		if c, ok := p.isConst(); ok {
			return pconst(new(big.Int).Mod(c, two64)), false
		}
	}
	return p, t
}

// mk builds the value of an integer operation of type t with mathematical result p.
func (e *limbEngine) mk(st *lstate, p lpoly, t types.Type, taintIn bool) *lval {
	tlo, thi, sg, ok := typeRange(t)
	v := &lval{p: p, signed: sg, taint: taintIn}
	if !ok {
		return v
	}
	lo, hi := st.interval(p)
	if lo == nil {
		v.taint = true
		return v
	}
	if lo.Cmp(tlo) < 0 || hi.Cmp(thi) > 0 {
		// the result wraps; when the whole interval lies in one window of width 2^64 the wrapped value is still
		// known exactly: p - k*2^64
		if q, ok := window(p, lo, hi, tlo, thi); ok {
			v.p = q
			v.taint = false
			return v
		}
		v.taint = true
	} else if taintIn {
		// congruent to p modulo 2^64 and p lies in the type's range: equal
		v.taint = false
	}
	return v
}

// window: [lo, hi] lies inside [tlo + k*2^64, thi + k*2^64] for one k: returns p - k*2^64.
func window(p lpoly, lo, hi, tlo, thi *big.Int) (lpoly, bool) {
	k := new(big.Int).Sub(lo, tlo)
	k.Div(k, two64) // floor division (Euclidean; two64 > 0)
	shift := new(big.Int).Mul(k, two64)
	if new(big.Int).Sub(hi, shift).Cmp(thi) <= 0 && new(big.Int).Sub(lo, shift).Cmp(tlo) >= 0 {
		return psub(p, pconst(shift)), true
	}
	return nil, false
}

func (e *limbEngine) split(st *lstate, p lpoly, k uint, borrow bool) *lsplit {
	key := fmt.Sprintf("%s|%d|%v", p.String(), k, borrow)
	if s, ok := e.byKey[key]; ok {
		e.boundSplit(st, s)
		return s
	}
	id := len(e.splits) + 1
	s := &lsplit{id: id, k: k, def: p, lo: fmt.Sprintf("lo%d#%d", k, id), hi: fmt.Sprintf("hi%d#%d", k, id), hiCoef: new(big.Int).Lsh(big.NewInt(1), k)}
	if borrow {
		s.hi = fmt.Sprintf("bo%d#%d", k, id)
		s.hiCoef.Neg(s.hiCoef)
	}
	e.splits = append(e.splits, s)
	e.byKey[key] = s
	e.boundSplit(st, s)
	return s
}

func (e *limbEngine) boundSplit(st *lstate, s *lsplit) {
	if st.lo[s.lo] != nil {
		return
	}
	pow := new(big.Int).Lsh(big.NewInt(1), s.k)
	st.lo[s.lo], st.hi[s.lo] = big.NewInt(0), new(big.Int).Sub(pow, big.NewInt(1))
	lo, hi := st.interval(s.def)
	if s.hiCoef.Sign() < 0 {
		st.lo[s.hi], st.hi[s.hi] = big.NewInt(0), big.NewInt(1)
		if lo != nil && lo.Sign() >= 0 {
			st.hi[s.hi] = big.NewInt(0)
		}
		return
	}
	st.lo[s.hi] = big.NewInt(0)
	if hi != nil {
		st.hi[s.hi] = new(big.Int).Rsh(hi, s.k)
		if lo != nil && lo.Sign() >= 0 {
			st.lo[s.hi] = new(big.Int).Rsh(lo, s.k)
		}
	} else {
		st.hi[s.hi] = new(big.Int).Sub(two64, big.NewInt(1))
	}
}

func constInt(v ssa.Value) (*big.Int, bool) {
	k, ok := v.(*ssa.Const)
	if !ok || k.Value == nil {
		return nil, false
	}
	switch k.Value.Kind() {
	case constant.Int:
		if b, ok := constant.Val(k.Value).(*big.Int); ok {
			return new(big.Int).Set(b), true
		}
		if i, ok := constant.Int64Val(k.Value); ok {
			return big.NewInt(i), true
		}
		if u, ok := constant.Uint64Val(k.Value); ok {
			return new(big.Int).SetUint64(u), true
		}
	case constant.Float:
		f, _ := constant.Float64Val(k.Value)
		bf := new(big.Float).SetFloat64(f)
		if bf.IsInt() {
			i, _ := bf.Int(nil)
			return i, true
		}
	}
	return nil, false
}

func (e *limbEngine) get(fr *lframe, v ssa.Value) *lval {
	if x, ok := fr.vals[v]; ok {
		return x
	}
	switch v := v.(type) {
	case *ssa.Const:
		if v.Value != nil && v.Value.Kind() == constant.Bool {
			b := constant.BoolVal(v.Value)
			return &lval{cbool: &b}
		}
		if i, ok := constInt(v); ok {
			_, _, sg, _ := typeRange(v.Type())
			return &lval{p: pconst(i), signed: sg, real: isFloat(v.Type())}
		}
	}
	x := e.opaque(fr.st, v.Type(), "value "+v.Name()+" is outside the interpreted fragment")
	fr.vals[v] = x
	return x
}

type loutcome struct {
	st  *lstate
	ret *lval
}

// run interprets f on args along every path; k receives each path's final state and result.
func (e *limbEngine) run(f *ssa.Function, args []*lval, st *lstate, top bool, depth int, k func(*lstate, *lval)) {
	fr := &lframe{f: f, vals: map[ssa.Value]*lval{}, st: st, top: top}
	for i, p := range f.Params {
		fr.vals[p] = args[i]
	}
	e.block(fr, f.Blocks[0], nil, 0, depth, k)
}

func (e *limbEngine) block(fr *lframe, b, pred *ssa.BasicBlock, from int, depth int, k func(*lstate, *lval)) {
	st := fr.st
	for i := from; i < len(b.Instrs); i++ {
		e.instrs++
		switch in := b.Instrs[i].(type) {
		case *ssa.Phi:
			for j, p := range b.Preds {
				if p == pred {
					fr.vals[in] = e.get(fr, in.Edges[j])
				}
			}
		case *ssa.Alloc:
			fr.vals[in] = &lval{addr: &lmemKey{in, -1}}
		case *ssa.FieldAddr:
			base := e.get(fr, in.X)
			if base.addr != nil && base.addr.field == -1 {
				fr.vals[in] = &lval{addr: &lmemKey{base.addr.base, in.Field}}
			} else {
				fr.vals[in] = e.opaque(st, in.Type(), "address of a field outside a local")
			}
		case *ssa.Field:
			x := e.get(fr, in.X)
			if in.Field < len(x.fields) {
				fr.vals[in] = x.fields[in.Field]
			} else {
				fr.vals[in] = e.opaque(st, in.Type(), "field of an unknown struct value")
			}
		case *ssa.Store:
			a := e.get(fr, in.Addr)
			v := e.get(fr, in.Val)
			if a.addr == nil {
				st.bad = append(st.bad, "store through an unknown address at "+e.c.pos(in.Pos()))
				continue
			}
			if a.addr.field == -1 && v.fields != nil {
				for j, fv := range v.fields {
					st.mem[lmemKey{a.addr.base, j}] = fv
				}
			} else {
				st.mem[*a.addr] = v
			}
		case *ssa.UnOp:
			fr.vals[in] = e.unop(fr, in)
		case *ssa.BinOp:
			fr.vals[in] = e.binop(fr, in)
		case *ssa.Convert:
			fr.vals[in] = e.convert(fr, in.X, in.Type(), in.Pos())
		case *ssa.ChangeType:
			fr.vals[in] = e.get(fr, in.X)
		case *ssa.Extract:
			t := e.get(fr, in.Tuple)
			if in.Index < len(t.tuple) {
				fr.vals[in] = t.tuple[in.Index]
			} else {
				fr.vals[in] = e.opaque(st, in.Type(), "component of an unknown tuple")
			}
		case *ssa.Call:
			callee := in.Call.StaticCallee()
			var args []*lval
			for _, a := range in.Call.Args {
				args = append(args, e.get(fr, a))
			}
			if r, ok := e.builtinCall(fr, in, callee, args); ok {
				fr.vals[in] = r
				continue
			}
			if depth < 4 && e.inline(callee) {
				i0 := i
				e.run(callee, args, st, false, depth+1, func(st2 *lstate, ret *lval) {
					fr2 := &lframe{f: fr.f, vals: map[ssa.Value]*lval{}, st: st2, top: fr.top}
					for kk, vv := range fr.vals {
						fr2.vals[kk] = vv
					}
					fr2.vals[in] = ret
					e.block(fr2, b, pred, i0+1, depth, k)
				})
				return
			}
			name := "?"
			if callee != nil {
				name = e.c.fname(callee)
			}
			fr.vals[in] = e.opaque(st, in.Type(), "result of "+name+" (not interpreted)")
		case *ssa.DebugRef:
		case *ssa.Jump:
			e.block(fr, b.Succs[0], b, 0, depth, k)
			return
		case *ssa.If:
			cv := e.get(fr, in.Cond)
			known, val := e.decide(fr, cv)
			if known {
				e.note(fr, cv, val)
				s := b.Succs[1]
				if val {
					s = b.Succs[0]
				}
				e.block(fr, s, b, 0, depth, k)
				return
			}
			for _, val := range []bool{true, false} {
				if cv.conj != nil && val == cv.conjNeg {
					// "the structs differ" = some field differs: one sub-path per field that may be the one, each
					// judged like a failed word comparison
					s := b.Succs[1]
					if val {
						s = b.Succs[0]
					}
					for ci, cj := range cv.conj {
						// the FIRST field that differs is field ci: the ones before it are equal
						f3 := fr.fork()
						feasible := true
						for _, before := range cv.conj[:ci] {
							if !e.assume(f3, &lval{cmp: before}, true) {
								feasible = false
							}
						}
						if !feasible || !e.assume(f3, &lval{cmp: cj}, false) {
							continue
						}
						e.block(f3, s, b, 0, depth, k)
					}
					continue
				}
				f2 := fr.fork()
				if !e.assume(f2, cv, val) {
					continue // infeasible
				}
				s := b.Succs[1]
				if val {
					s = b.Succs[0]
				}
				e.block(f2, s, b, 0, depth, k)
			}
			return
		case *ssa.Return:
			var ret *lval
			switch len(in.Results) {
			case 0:
			case 1:
				ret = e.get(fr, in.Results[0])
			default:
				ret = &lval{}
				for _, r := range in.Results {
					ret.tuple = append(ret.tuple, e.get(fr, r))
				}
			}
			k(st, ret)
			return
		case *ssa.Panic:
			return // not a normal return; nothing to specify
		default:
			if v, ok := in.(ssa.Value); ok {
				fr.vals[v] = e.opaque(st, v.Type(), fmt.Sprintf("instruction %T is not interpreted", in))
			}
		}
	}
}

func (e *limbEngine) load(fr *lframe, a *lval, t types.Type) *lval {
	if a.addr == nil {
		return e.opaque(fr.st, t, "load through an unknown address")
	}
	if a.addr.field == -1 {
		if stt, ok := t.Underlying().(*types.Struct); ok {
			v := &lval{}
			for j := 0; j < stt.NumFields(); j++ {
				fv, ok := fr.st.mem[lmemKey{a.addr.base, j}]
				if !ok {
					fv = &lval{p: lpoly{}} // zero value of a fresh local
					_, _, fv.signed, _ = typeRange(stt.Field(j).Type())
				}
				v.fields = append(v.fields, fv)
			}
			return v
		}
	}
	if v, ok := fr.st.mem[*a.addr]; ok {
		return v
	}
	z := &lval{p: lpoly{}}
	_, _, z.signed, _ = typeRange(t)
	return z
}

func (e *limbEngine) unop(fr *lframe, in *ssa.UnOp) *lval {
	st := fr.st
	x := e.get(fr, in.X)
	switch in.Op {
	case token.MUL:
		return e.load(fr, x, in.Type())
	case token.SUB:
		p, t := e.eff(st, x)
		if x.real {
			return &lval{p: pneg(p), real: true}
		}
		return e.mk(st, pneg(p), in.Type(), t)
	case token.XOR: // ^x
		p, t := e.eff(st, x)
		_, thi, sg, ok := typeRange(in.Type())
		if !ok {
			break
		}
		if sg {
			return e.mk(st, psub(pint(-1), p), in.Type(), t)
		}
		return e.mk(st, psub(pconst(thi), p), in.Type(), t)
	case token.NOT:
		if x.cbool != nil {
			b := !*x.cbool
			return &lval{cbool: &b}
		}
		if x.conj != nil {
			return &lval{conj: x.conj, conjNeg: !x.conjNeg}
		}
		if x.cmp != nil {
			neg := map[token.Token]token.Token{token.EQL: token.NEQ, token.NEQ: token.EQL, token.LSS: token.GEQ, token.GEQ: token.LSS, token.GTR: token.LEQ, token.LEQ: token.GTR}
			return &lval{cmp: &lcmp{op: neg[x.cmp.op], l: x.cmp.l, r: x.cmp.r, site: x.cmp.site}}
		}
	}
	return e.opaque(st, in.Type(), "unary "+in.Op.String())
}

func (e *limbEngine) convert(fr *lframe, xv ssa.Value, to types.Type, pos token.Pos) *lval {
	st := fr.st
	x := e.get(fr, xv)
	p, t := e.eff(st, x)
	if isFloat(to) {
		if x.real {
			return x
		}
		if t {
			st.bad = append(st.bad, fmt.Sprintf("a possibly wrapped integer (%s, known only modulo 2^64) is converted to float64 at %s", p, e.c.pos(pos)))
			return e.opaque(st, to, "float of a wrapped value")
		}
		if x.p == nil {
			return e.opaque(st, to, "float of an unknown value")
		}
		return &lval{p: p, real: true}
	}
	_, _, _, fromInt := typeRange(xv.Type())
	tlo, thi, sg, toInt := typeRange(to)
	if !fromInt || !toInt || x.p == nil {
		return e.opaque(st, to, "conversion "+xv.Type().String()+" -> "+to.String())
	}
	// same-width reinterpretation: exact when the sign is known, otherwise congruent modulo 2^64
	lo, hi := st.interval(p)
	if lo != nil && lo.Cmp(tlo) >= 0 && hi.Cmp(thi) <= 0 {
		// the machine value is congruent to p modulo 2^64 and p lies in the target type's range: they are equal
		return &lval{p: p, signed: sg}
	}
	if lo != nil {
		if q, ok := window(p, lo, hi, tlo, thi); ok {
			return &lval{p: q, signed: sg}
		}
	}
	return &lval{p: p, signed: sg, taint: true}
}

func (e *limbEngine) binop(fr *lframe, in *ssa.BinOp) *lval {
	st := fr.st
	x, y := e.get(fr, in.X), e.get(fr, in.Y)
	switch in.Op {
	case token.EQL, token.NEQ, token.LSS, token.LEQ, token.GTR, token.GEQ:
		if x.fields != nil && y.fields != nil && len(x.fields) == len(y.fields) && (in.Op == token.EQL || in.Op == token.NEQ) {
			v := &lval{conjNeg: in.Op == token.NEQ}
			for i := range x.fields {
				if x.fields[i].p == nil || y.fields[i].p == nil {
					return e.opaque(st, in.Type(), "comparison of nested structs")
				}
				v.conj = append(v.conj, &lcmp{op: token.EQL, l: x.fields[i], r: y.fields[i], site: in})
			}
			return v
		}
		if x.p == nil || y.p == nil {
			if (x.cbool != nil || x.cmp != nil) && (y.cbool != nil || y.cmp != nil) && (in.Op == token.EQL || in.Op == token.NEQ) {
				kx, vx := e.decide(fr, x)
				ky, vy := e.decide(fr, y)
				if kx && ky {
					b := (vx == vy) == (in.Op == token.EQL)
					return &lval{cbool: &b}
				}
			}
			if x.cbool != nil || y.cbool != nil || x.cmp != nil || y.cmp != nil {
				return e.opaque(st, in.Type(), "comparison of booleans")
			}
			return e.opaque(st, in.Type(), "comparison of unknown values")
		}
		return &lval{cmp: &lcmp{op: in.Op, l: x, r: y, site: in}}
	}
	if x.p == nil || y.p == nil {
		return e.opaque(st, in.Type(), "operand unknown")
	}
	px, tx := e.eff(st, x)
	py, ty := e.eff(st, y)
	if x.real || y.real || isFloat(in.Type()) {
		switch in.Op {
		case token.ADD:
			return &lval{p: padd(px, py), real: true}
		case token.SUB:
			return &lval{p: psub(px, py), real: true}
		case token.MUL:
			return &lval{p: pmul(px, py), real: true}
		}
		return e.opaque(st, in.Type(), "float "+in.Op.String())
	}
	if e.atomise && (in.Op == token.ADD || in.Op == token.SUB) && !tx && !ty {
		ax, okx := singleAtom(px)
		ay, oky := singleAtom(py)
		if okx && oky && strings.HasPrefix(ax, "in") && strings.HasPrefix(ay, "in") {
			def := padd(px, py)
			if in.Op == token.SUB {
				def = psub(px, py)
			}
			name := fmt.Sprintf("d#%s", def.String())
			name = strings.NewReplacer(" ", "", "*", "x").Replace(name)
			if e.diffDefs == nil {
				e.diffDefs = map[string]lpoly{}
			}
			e.diffDefs[name] = def
			if st.lo[name] == nil {
				lo, hi := st.interval(def)
				st.lo[name], st.hi[name] = lo, hi
			}
			return e.mk(st, patom(name), in.Type(), false)
		}
	}
	switch in.Op {
	case token.ADD:
		return e.mk(st, padd(px, py), in.Type(), tx || ty)
	case token.SUB:
		return e.mk(st, psub(px, py), in.Type(), tx || ty)
	case token.MUL:
		return e.mk(st, pmul(px, py), in.Type(), tx || ty)
	case token.AND:
		// x & (2^k - 1)
		mask, val := y, x
		mp, vp, vt := py, px, tx
		if _, ok := mp.isConst(); !ok {
			mask, val, mp, vp, vt = x, y, px, py, ty
		}
		_ = mask
		_ = val
		if c, ok := mp.isConst(); ok && c.Sign() > 0 {
			c1 := new(big.Int).Add(c, big.NewInt(1))
			if c1.TrailingZeroBits() == uint(c1.BitLen()-1) { // c = 2^k - 1
				k := uint(c1.BitLen() - 1)
				if vt {
					st.bad = append(st.bad, fmt.Sprintf("the low %d bits of a possibly wrapped value (%s) are taken at %s", k, vp, e.c.pos(in.Pos())))
					return e.opaque(st, in.Type(), "mask of a wrapped value")
				}
				lo, hi := st.interval(vp)
				if lo != nil && lo.Sign() >= 0 && hi.Cmp(c) <= 0 {
					return &lval{p: vp}
				}
				if lo == nil || lo.Sign() < 0 {
					return e.opaque(st, in.Type(), "mask of a value of unknown sign")
				}
				s := e.split(st, vp, k, false)
				return &lval{p: patom(s.lo)}
			}
		}
		return e.opaque(st, in.Type(), "bitwise and with a non-mask")
	case token.SHR:
		if c, ok := py.isConst(); ok && c.IsInt64() && c.Int64() >= 0 && c.Int64() < 64 {
			k := uint(c.Int64())
			if len(x.orParts) > 0 {
				v := e.opaque(st, in.Type(), "shift of a bitwise or")
				v.shrOr, v.shrK = x.orParts, k
				return v
			}
			if tx {
				st.bad = append(st.bad, fmt.Sprintf("a possibly wrapped value (%s) is shifted right at %s", px, e.c.pos(in.Pos())))
				return e.opaque(st, in.Type(), "shift of a wrapped value")
			}
			lo, hi := st.interval(px)
			if lo == nil || lo.Sign() < 0 {
				return e.opaque(st, in.Type(), "right shift of a value of unknown sign")
			}
			if hi.BitLen() <= int(k) {
				return &lval{p: lpoly{}}
			}
			if k == 0 {
				return x
			}
			s := e.split(st, px, k, false)
			return &lval{p: patom(s.hi)}
		}
		return e.opaque(st, in.Type(), "variable shift")
	case token.SHL:
		if c, ok := py.isConst(); ok && c.IsInt64() && c.Int64() >= 0 && c.Int64() < 64 {
			k := uint(c.Int64())
			// x << k on a 64-bit unsigned word keeps exactly the low 64-k bits of x: when x may be wider than
			// that, the result is (x mod 2^(64-k)) * 2^k — the same as masking first (`(x & 0xFFFFFFFF) << 32`)
			if bt, isB := in.Type().Underlying().(*types.Basic); isB && (bt.Kind() == types.Uint64 || bt.Kind() == types.Uint) && !tx && k > 0 {
				lo, hi := st.interval(px)
				if lo != nil && lo.Sign() >= 0 && hi.BitLen() > int(64-k) && hi.BitLen() <= 64 {
					sp := e.split(st, px, 64-k, false)
					return e.mk(st, pscale(patom(sp.lo), new(big.Int).Lsh(big.NewInt(1), k)), in.Type(), false)
				}
			}
			return e.mk(st, pscale(px, new(big.Int).Lsh(big.NewInt(1), k)), in.Type(), tx)
		}
		return e.opaque(st, in.Type(), "variable shift")
	case token.OR:
		if !tx && !ty {
			// disjoint bit ranges: every coefficient of one operand is a multiple of 2^z and the other is below 2^z
			for _, pr := range [][2]lpoly{{px, py}, {py, px}} {
				z := trailingZeros(pr[0])
				lo, hi := st.interval(pr[1])
				lo0, _ := st.interval(pr[0])
				if lo != nil && lo0 != nil && lo.Sign() >= 0 && lo0.Sign() >= 0 && z > 0 && hi.BitLen() <= int(z) {
					return e.mk(st, padd(px, py), in.Type(), false)
				}
			}
			v := e.opaque(st, in.Type(), "bitwise or of overlapping values")
			for _, o := range []*lval{x, y} {
				if len(o.orParts) > 0 {
					v.orParts = append(v.orParts, o.orParts...)
				} else {
					v.orParts = append(v.orParts, o)
				}
			}
			return v
		}
		return e.opaque(st, in.Type(), "bitwise or of a wrapped value")
	}
	return e.opaque(st, in.Type(), "operator "+in.Op.String())
}

// pdivExact divides every coefficient of p by c (after reduction modulo m when given).
func pdivExact(p lpoly, c, m *big.Int) (lpoly, bool) {
	r := lpoly{}
	for k, v := range p {
		q, rem := new(big.Int).QuoRem(v, c, new(big.Int))
		if rem.Sign() != 0 && m != nil {
			q, rem = new(big.Int).QuoRem(new(big.Int).Mod(v, m), c, new(big.Int))
		}
		if rem.Sign() != 0 {
			return nil, false
		}
		if q.Sign() != 0 {
			r[k] = q
		}
	}
	return r, true
}

func trailingZeros(p lpoly) uint {
	z := uint(1 << 30)
	for _, c := range p {
		t := new(big.Int).Abs(c).TrailingZeroBits()
		if t < z {
			z = t
		}
	}
	if len(p) == 0 {
		return 0
	}
	return z
}

// builtinCall models math/bits.Mul64, Add64, Sub64.
func (e *limbEngine) builtinCall(fr *lframe, in *ssa.Call, callee *ssa.Function, args []*lval) (*lval, bool) {
	if callee == nil || callee.Pkg == nil || callee.Pkg.Pkg.Path() != "math/bits" {
		return nil, false
	}
	st := fr.st
	used := func(idx int) bool {
		for _, r := range *in.Referrers() {
			if ex, ok := r.(*ssa.Extract); ok && ex.Index == idx && len(*ex.Referrers()) > 0 {
				return true
			}
		}
		return false
	}
	u64 := types.Typ[types.Uint64]
	var ps []lpoly
	anyT := false
	for _, a := range args {
		if a.p == nil {
			return e.opaque(st, in.Type(), "math/bits call on an unknown operand"), true
		}
		p, t := e.eff(st, a)
		ps = append(ps, p)
		anyT = anyT || t
	}
	switch callee.Name() {
	case "Mul64":
		if anyT {
			st.bad = append(st.bad, "bits.Mul64 on a possibly wrapped operand at "+e.c.pos(in.Pos()))
			return e.opaque(st, in.Type(), "Mul64 of wrapped"), true
		}
		P := pmul(ps[0], ps[1])
		s := e.split(st, P, 64, false)
		return &lval{tuple: []*lval{{p: patom(s.hi)}, {p: patom(s.lo)}}}, true
	case "Add64":
		S := padd(padd(ps[0], ps[1]), ps[2])
		if !used(1) { // carry dropped: the sum is known modulo 2^64
			return &lval{tuple: []*lval{e.mk(st, S, u64, anyT), e.opaque(st, u64, "unused carry")}}, true
		}
		if anyT {
			st.bad = append(st.bad, "the carry of bits.Add64 on a possibly wrapped operand is used at "+e.c.pos(in.Pos()))
			return e.opaque(st, in.Type(), "Add64 of wrapped"), true
		}
		_, hi := st.interval(S)
		if hi != nil && hi.Cmp(two64) < 0 {
			return &lval{tuple: []*lval{{p: S}, {p: lpoly{}}}}, true
		}
		s := e.split(st, S, 64, false)
		return &lval{tuple: []*lval{{p: patom(s.lo)}, {p: patom(s.hi)}}}, true
	case "Sub64":
		D := psub(psub(ps[0], ps[1]), ps[2])
		if !used(1) {
			return &lval{tuple: []*lval{e.mk(st, D, u64, anyT), e.opaque(st, u64, "unused borrow")}}, true
		}
		if anyT {
			st.bad = append(st.bad, "the borrow of bits.Sub64 on a possibly wrapped operand is used at "+e.c.pos(in.Pos()))
			return e.opaque(st, in.Type(), "Sub64 of wrapped"), true
		}
		lo, _ := st.interval(D)
		if lo != nil && lo.Sign() >= 0 {
			return &lval{tuple: []*lval{{p: D}, {p: lpoly{}}}}, true
		}
		s := e.split(st, D, 64, true)
		return &lval{tuple: []*lval{{p: patom(s.lo)}, {p: patom(s.hi)}}}, true
	}
	return nil, false
}

// ---------- branches ----------

// carryIdiom: l is a wrapped sum whose mathematical value lies in [0, 2^64]: it wraps exactly when it is 2^64,
// i.e. exactly when the machine value is 0 (`lo = ^lo + 1; if lo == 0 { hi++ }`).
func (e *limbEngine) carryIdiom(st *lstate, c *lcmp) (lpoly, bool) {
	if c.op != token.EQL && c.op != token.NEQ {
		return nil, false
	}
	pl, tl := e.eff(st, c.l)
	pr, tr := e.eff(st, c.r)
	if !tl || tr || !pr.isZero() {
		return nil, false
	}
	lo, hi := st.interval(pl)
	if lo == nil || lo.Sign() < 0 || hi.Cmp(two64) > 0 {
		return nil, false
	}
	return pl, true
}

// cmpCarryIdiom: `s < x` (or mirrored / negated forms) where s = x + y has wrapped at most once and 0 <= y < 2^64:
// the comparison is true exactly when the sum wrapped. Returns the wrapped value and whether `true` means wrapped.
func (e *limbEngine) cmpCarryIdiom(st *lstate, c *lcmp) (*lval, bool, bool) {
	pl, tl := e.eff(st, c.l)
	pr, tr := e.eff(st, c.r)
	if tl == tr {
		return nil, false, false
	}
	s, sp, xp := c.l, pl, pr
	op := c.op
	if tr {
		s, sp, xp = c.r, pr, pl
		op = map[token.Token]token.Token{token.LSS: token.GTR, token.GTR: token.LSS, token.LEQ: token.GEQ, token.GEQ: token.LEQ}[op]
	}
	if op != token.LSS && op != token.GEQ {
		return nil, false, false
	}
	lo, hi := st.interval(sp)
	ylo, yhi := st.interval(psub(sp, xp))
	xlo, xhi := st.interval(xp)
	if lo == nil || ylo == nil || xlo == nil || lo.Sign() < 0 || hi.Cmp(new(big.Int).Lsh(two64, 1)) >= 0 ||
		ylo.Sign() < 0 || yhi.Cmp(two64) >= 0 || xlo.Sign() < 0 || xhi.Cmp(two64) >= 0 {
		return nil, false, false
	}
	return s, op == token.LSS, true
}

func (e *limbEngine) decide(fr *lframe, v *lval) (known, val bool) {
	st := fr.st
	if v.cbool != nil {
		return true, *v.cbool
	}
	if v.conj != nil {
		all := true
		for _, c := range v.conj {
			k, val := e.decide(fr, &lval{cmp: c})
			if k && !val {
				return true, v.conjNeg // one field differs
			}
			if !k {
				all = false
			}
		}
		if all {
			return true, !v.conjNeg
		}
		return false, false
	}
	c := v.cmp
	if c == nil {
		return false, false
	}
	if _, ok := e.carryIdiom(st, c); ok {
		return false, false
	}
	pl, tl := e.eff(st, c.l)
	pr, tr := e.eff(st, c.r)
	if tl || tr {
		return false, false
	}
	d := psub(pl, pr)
	lo, hi := st.interval(d)
	if lo == nil {
		return false, false
	}
	switch c.op {
	case token.EQL, token.NEQ:
		eq := token.EQL == c.op
		if lo.Sign() == 0 && hi.Sign() == 0 {
			return true, eq
		}
		if lo.Sign() > 0 || hi.Sign() < 0 {
			return true, !eq
		}
	case token.LSS:
		if hi.Sign() < 0 {
			return true, true
		}
		if lo.Sign() >= 0 {
			return true, false
		}
	case token.GEQ:
		if hi.Sign() < 0 {
			return true, false
		}
		if lo.Sign() >= 0 {
			return true, true
		}
	case token.GTR:
		if lo.Sign() > 0 {
			return true, true
		}
		if hi.Sign() <= 0 {
			return true, false
		}
	case token.LEQ:
		if lo.Sign() > 0 {
			return true, false
		}
		if hi.Sign() <= 0 {
			return true, true
		}
	}
	return false, false
}

// note records a decided top-level comparison.
func (e *limbEngine) note(fr *lframe, v *lval, val bool) {
	if v.cmp != nil && v.cmp.site != nil {
		pl, _ := e.eff(fr.st, v.cmp.l)
		pr, _ := e.eff(fr.st, v.cmp.r)
		fr.st.facts = append(fr.st.facts, lfact{op: v.cmp.op, d: psub(pl, pr), site: v.cmp.site, top: e.isTop(fr, v.cmp.site), val: val})
	}
}

// unitAtom: d = s*atom + rest with s = +-1 and atom not in rest: returns atom and the polynomial it equals when d = 0.
func unitAtom(d lpoly) (string, lpoly, bool) {
	var ms []string
	for m := range d {
		ms = append(ms, m)
	}
	sort.Strings(ms)
	for i := len(ms) - 1; i >= 0; i-- { // prefer the most recently created (highest-numbered) atoms
		m := ms[i]
		if m == "" || strings.Contains(m, "*") {
			continue
		}
		c := d[m]
		if c.CmpAbs(big.NewInt(1)) != 0 {
			continue
		}
		rest := lpoly{}
		for m2, c2 := range d {
			if m2 != m {
				rest[m2] = c2
			}
		}
		if rest.mentions(m) {
			continue
		}
		if c.Sign() > 0 {
			return m, pneg(rest), true
		}
		return m, rest, true
	}
	return "", nil, false
}

// tighten the range of the single atom in d = s*atom + k under `d op 0`.
func (e *limbEngine) tighten(st *lstate, d lpoly, op token.Token) bool {
	var atom string
	s := 0
	k := big.NewInt(0)
	for m, c := range d {
		switch {
		case m == "":
			k = c
		case !strings.Contains(m, "*") && atom == "" && c.CmpAbs(big.NewInt(1)) == 0:
			atom, s = m, c.Sign()
		default:
			return true
		}
	}
	if atom == "" || st.lo[atom] == nil {
		return true
	}
	// s*atom + k op 0  <=>  atom op' (-k*s)
	v := new(big.Int).Neg(k)
	if s < 0 {
		v.Neg(v)
		op = map[token.Token]token.Token{token.LSS: token.GTR, token.GTR: token.LSS, token.LEQ: token.GEQ, token.GEQ: token.LEQ, token.EQL: token.EQL, token.NEQ: token.NEQ}[op]
	}
	lo, hi := new(big.Int).Set(st.lo[atom]), new(big.Int).Set(st.hi[atom])
	one := big.NewInt(1)
	switch op {
	case token.LSS:
		hi = bigMin(hi, new(big.Int).Sub(v, one))
	case token.LEQ:
		hi = bigMin(hi, v)
	case token.GTR:
		lo = bigMax(lo, new(big.Int).Add(v, one))
	case token.GEQ:
		lo = bigMax(lo, v)
	case token.EQL:
		lo, hi = bigMax(lo, v), bigMin(hi, v)
	case token.NEQ:
		if lo.Cmp(v) == 0 {
			lo = new(big.Int).Add(lo, one)
		}
		if hi.Cmp(v) == 0 {
			hi = new(big.Int).Sub(hi, one)
		}
	}
	if lo.Cmp(hi) > 0 {
		return false
	}
	st.lo[atom], st.hi[atom] = lo, hi
	return true
}

// assume refines the state with `v == val`; false = the branch is infeasible.
func (e *limbEngine) assume(fr *lframe, v *lval, val bool) bool {
	st := fr.st
	if v.conj != nil {
		if val != v.conjNeg { // all fields equal
			for _, c := range v.conj {
				if !e.assume(fr, &lval{cmp: c}, true) {
					return false
				}
			}
		}
		return true // "some field differs" refines nothing
	}
	c := v.cmp
	if c == nil {
		return true
	}
	op := c.op
	if !val {
		op = map[token.Token]token.Token{token.EQL: token.NEQ, token.NEQ: token.EQL, token.LSS: token.GEQ, token.GEQ: token.LSS, token.GTR: token.LEQ, token.LEQ: token.GTR}[op]
	}
	if pl, ok := e.carryIdiom(st, c); ok {
		top := e.isTop(fr, c.site)
		if op == token.EQL { // wrapped to zero: the mathematical value is 2^64 (or 0)
			lo, _ := st.interval(pl)
			if lo.Sign() > 0 {
				d := psub(pl, pconst(two64))
				if a, q, ok := unitAtom(d); ok {
					st.sub[a] = q
				} else {
					st.bad = append(st.bad, "carry test on "+pl.String()+" could not be resolved")
				}
			} else {
				st.bad = append(st.bad, "carry test on a sum that may also be zero without wrapping: "+pl.String())
			}
		} else { // no wrap: the sum is exact and below 2^64
			st.exact[c.l] = true
			if !e.tighten(st, psub(pl, pconst(two64)), token.NEQ) {
				return false
			}
		}
		st.facts = append(st.facts, lfact{op: c.op, d: pl, site: c.site, top: top, val: val})
		return true
	}
	if op == token.EQL && (c.l.real || c.r.real) {
		// float64 values are roundings: their equality does not make the exact quantities equal
		st.bad = append(st.bad, fmt.Sprintf("an equality of float64 values (roundings of %s and %s) is relied on at %s as if the exact values were equal", c.l.p, c.r.p, e.c.pos(c.site.Pos())))
		return true
	}
	pl, tl := e.eff(st, c.l)
	pr, tr := e.eff(st, c.r)
	top := e.isTop(fr, c.site)
	if s, trueMeansWrapped, ok := e.cmpCarryIdiom(st, c); ok {
		if val == trueMeansWrapped {
			st.wrap1[s] = true
		} else {
			st.exact[s] = true
		}
		st.facts = append(st.facts, lfact{op: token.ILLEGAL, d: psub(pl, pr), site: c.site, top: top, val: val})
		return true
	}
	if tl || tr {
		st.bad = append(st.bad, fmt.Sprintf("a possibly wrapped value is compared at %s: %s %s %s (known only modulo 2^64)", e.c.pos(c.site.Pos()), pl, c.op, pr))
		return true
	}
	// (x | y | ...) >> k == 0  =>  every part is below 2^k
	if len(c.l.shrOr) > 0 && pr.isZero() && op == token.EQL {
		for _, part := range c.l.shrOr {
			pp, pt := e.eff(st, part)
			if pt {
				continue
			}
			lim := new(big.Int).Lsh(big.NewInt(1), c.l.shrK)
			if !e.tighten(st, psub(pp, pconst(lim)), token.LSS) {
				return false
			}
		}
		st.facts = append(st.facts, lfact{op: token.ILLEGAL, d: psub(pl, pr), site: c.site, top: top, val: val})
		return true
	}
	d := psub(pl, pr)
	st.facts = append(st.facts, lfact{op: c.op, d: d, site: c.site, top: top, val: val})
	if op == token.EQL {
		if top && e.noTopSubst {
			return true
		}
		if a, q, ok := unitAtom(d); ok {
			// the substitution must respect the atom's range
			lo, hi := st.interval(q)
			if lo != nil && st.lo[a] != nil && (hi.Cmp(st.lo[a]) < 0 || lo.Cmp(st.hi[a]) > 0) {
				return false
			}
			st.sub[a] = q
			return true
		}
		return true
	}
	return e.tighten(st, d, op)
}

// ---------- normalisation: recombine split pairs ----------

// recombine eliminates every split atom from t: t = lo*A + hi*B + R must have B = hiCoef*A; then t := def*A + R.
func (e *limbEngine) recombine(st *lstate, t lpoly, modulus *big.Int) (lpoly, string) {
	t = st.norm(t)
	for i := len(e.splits) - 1; i >= 0; i-- {
		s := e.splits[i]
		if !t.mentions(s.lo) && !t.mentions(s.hi) {
			continue
		}
		A, B, R := lpoly{}, lpoly{}, lpoly{}
		for m, c := range t {
			nl, nh := 0, 0
			var rest []string
			for _, a := range monoAtoms(m) {
				switch a {
				case s.lo:
					nl++
				case s.hi:
					nh++
				default:
					rest = append(rest, a)
				}
			}
			rm := strings.Join(rest, "*")
			switch {
			case nl == 0 && nh == 0:
				R[m] = c
			case nl == 1 && nh == 0:
				A = padd(A, lpoly{rm: c})
			case nl == 0 && nh == 1:
				B = padd(B, lpoly{rm: c})
			default:
				return t, fmt.Sprintf("the halves of %s are multiplied with each other", s.def)
			}
		}
		_, loSub := st.sub[s.lo]
		_, hiSub := st.sub[s.hi]
		if loSub != hiSub {
			// a branch fixed one half (e.g. `lo == 0` after a negation): eliminate the other through
			// hi = (def - lo)/c, or lo = def - c*hi; the fixed half is then replaced by its value
			if hiSub {
				t = st.norm(padd(pmul(A, psub(s.def, pscale(patom(s.hi), s.hiCoef))), R))
			} else {
				q, ok := pdivExact(B, s.hiCoef, modulus)
				if !ok {
					return t, fmt.Sprintf("the high half of (%s) is used at a weight that is not a multiple of 2^%d", st.norm(s.def), s.k)
				}
				t = st.norm(padd(pmul(q, psub(s.def, patom(s.lo))), R))
			}
			if modulus != nil {
				t = t.mod(modulus)
			}
			continue
		}
		diff := psub(B, pscale(A, s.hiCoef))
		if modulus != nil {
			diff = diff.mod(modulus)
		}
		if !diff.isZero() {
			w := "2^" + fmt.Sprint(s.k)
			return t, fmt.Sprintf("the two halves of (%s) are not used once each at weights 1 : %s — low half has cofactor (%s), high half (%s)", st.norm(s.def), w, A, B)
		}
		t = st.norm(padd(pmul(s.def, A), R))
		if modulus != nil {
			t = t.mod(modulus)
		}
	}
	if modulus != nil {
		t = t.mod(modulus)
	}
	return t, ""
}
