package main

import (
	"fmt"
	"go/token"
	"go/types"
	"sort"

	"golang.org/x/tools/go/ssa"
)

// TYPESTATE — "no use after escape" for scratch slices.
//
// A scratch slice (ClipperOffset.pathOut; the `path` local handed to buildPath) is filled, then handed over to the
// caller's solution by reference. From that moment its backing array belongs to the solution: the scratch must be
// given a FRESH slice before it is written again, otherwise the next path starts with the previous one's points or
// overwrites them. States: Fresh, Escaped, Unknown (whatever the caller left). Events:
//   fresh   store to the location of a value not derived from the location itself (literal, make, nil, call result);
//           executing the `local` instruction of an address-taken local (a new variable per iteration)
//   use     store to the location of a value derived from its own current value (append(x, ..), x[:0], ..), or
//           a call whose summary says so (field: callee uses before it refreshes; local: callee writes through the
//           pointer it is given)
//   escape  the current value is appended as an ELEMENT to another slice or stored somewhere else
// A use in state Escaped is the violation. Field locations are analysed interprocedurally with per-function
// summaries (needs-fresh-on-entry, states on exit) iterated to a fixed point over static calls.

const (
	tsF = 1 << iota // fresh
	tsE             // escaped
	tsU             // as on entry
)

type tsLocKind int

const (
	tsField tsLocKind = iota
	tsLocal
)

type tsLoc struct {
	kind  tsLocKind
	typ   string // field: struct type name
	field string
	alloc *ssa.Alloc // local
}

func (l tsLoc) isAddr(v ssa.Value) bool {
	switch l.kind {
	case tsField:
		fa, ok := v.(*ssa.FieldAddr)
		return ok && typeName(fa.X.Type()) == "*"+l.typ && fieldName(fa.X.Type(), fa.Field) == l.field
	case tsLocal:
		return v == ssa.Value(l.alloc)
	}
	return false
}

// derived: v is computed from the location's current value and shares its backing array.
func (l tsLoc) derived(v ssa.Value, depth int) bool {
	if depth > 6 {
		return false
	}
	switch x := v.(type) {
	case *ssa.UnOp:
		return x.Op == token.MUL && l.isAddr(x.X)
	case *ssa.Slice:
		return l.derived(x.X, depth+1)
	case *ssa.Call:
		if bi, ok := x.Call.Value.(*ssa.Builtin); ok && bi.Name() == "append" {
			return l.derived(x.Call.Args[0], depth+1)
		}
	case *ssa.Phi:
		for _, e := range x.Edges {
			if l.derived(e, depth+1) {
				return true
			}
		}
	case *ssa.ChangeType:
		return l.derived(x.X, depth+1)
	}
	return false
}

type tsSummary struct {
	needsFresh bool
	exit       int // states possible at return when entered in state U
}

type tsViolation struct {
	pos  token.Pos
	fn   *ssa.Function
	what string
}

type tsEngine struct {
	c    *Ctx
	loc  tsLoc
	sums map[*ssa.Function]*tsSummary
	// ptrWriter[g][i]: g stores through its i-th pointer parameter a value derived from what it points to
	ptrWriter                map[*ssa.Function]map[int]bool
	useSet, escSet, freshSet map[ssa.Instruction]bool
}

func (e *tsEngine) counts() (int, int, int) { return len(e.useSet), len(e.escSet), len(e.freshSet) }
func (e *tsEngine) mark(m *map[ssa.Instruction]bool, in ssa.Instruction) {
	if *m == nil {
		*m = map[ssa.Instruction]bool{}
	}
	(*m)[in] = true
}

func (e *tsEngine) callee(in ssa.Instruction) (*ssa.Function, *ssa.CallCommon) {
	ci, ok := in.(ssa.CallInstruction)
	if !ok {
		return nil, nil
	}
	cc := ci.Common()
	g := cc.StaticCallee()
	if g == nil || !e.c.inRepo(g) || len(g.Blocks) == 0 {
		return nil, cc
	}
	return g, cc
}

// writesThroughParam: g re-slices / appends to *param i.
func (e *tsEngine) writesThroughParam(g *ssa.Function, i int) bool {
	if m, ok := e.ptrWriter[g]; ok {
		if v, ok := m[i]; ok {
			return v
		}
	} else {
		e.ptrWriter[g] = map[int]bool{}
	}
	e.ptrWriter[g][i] = false
	if i >= len(g.Params) {
		return false
	}
	p := g.Params[i]
	pl := tsLoc{kind: tsLocal}
	isP := func(v ssa.Value) bool { return v == ssa.Value(p) }
	res := false
	for _, b := range g.Blocks {
		for _, in := range b.Instrs {
			switch x := in.(type) {
			case *ssa.Store:
				if isP(x.Addr) && derivedFrom(x.Val, isP, 0) {
					res = true
				}
			case ssa.CallInstruction:
				h := x.Common().StaticCallee()
				if h != nil && e.c.inRepo(h) {
					for j, a := range x.Common().Args {
						if isP(a) && e.writesThroughParam(h, j+recvOffset(h, x.Common())) {
							res = true
						}
					}
				}
			}
		}
	}
	_ = pl
	e.ptrWriter[g][i] = res
	return res
}

func recvOffset(h *ssa.Function, cc *ssa.CallCommon) int { return 0 } // static calls list the receiver in Args

func derivedFrom(v ssa.Value, isAddr func(ssa.Value) bool, depth int) bool {
	if depth > 6 {
		return false
	}
	switch x := v.(type) {
	case *ssa.UnOp:
		return x.Op == token.MUL && isAddr(x.X)
	case *ssa.Slice:
		return derivedFrom(x.X, isAddr, depth+1)
	case *ssa.Call:
		if bi, ok := x.Call.Value.(*ssa.Builtin); ok && bi.Name() == "append" {
			return derivedFrom(x.Call.Args[0], isAddr, depth+1)
		}
	case *ssa.Phi:
		for _, e := range x.Edges {
			if derivedFrom(e, isAddr, depth+1) {
				return true
			}
		}
	case *ssa.ChangeType:
		return derivedFrom(x.X, isAddr, depth+1)
	}
	return false
}

// transfer applies one instruction to the state set; report is called for a use in state Escaped.
func (e *tsEngine) transfer(in ssa.Instruction, st int, f *ssa.Function, sum *tsSummary, report func(tsViolation)) int {
	l := e.loc
	use := func(what string) {
		if st&tsE != 0 && report != nil {
			report(tsViolation{in.Pos(), f, what})
		}
		if st&tsU != 0 {
			sum.needsFresh = true
		}
	}
	switch x := in.(type) {
	case *ssa.Alloc:
		if l.kind == tsLocal && x == l.alloc {
			e.mark(&e.freshSet, in)
			return tsF
		}
	case *ssa.Store:
		if l.isAddr(x.Addr) {
			if l.derived(x.Val, 0) {
				e.mark(&e.useSet, in)
				use("it is written again (" + l.name() + " = " + shortVal(x.Val) + ")")
				return st
			}
			e.mark(&e.freshSet, in)
			return tsF
		}
		// the current value stored somewhere else
		if l.derived(x.Val, 0) {
			e.mark(&e.escSet, in)
			return tsE
		}
	case *ssa.Call:
		if bi, ok := x.Call.Value.(*ssa.Builtin); ok && bi.Name() == "append" {
			for _, a := range x.Call.Args[1:] {
				if l.derived(a, 0) {
					// appended as an element (append(paths, path)); a variadic spread append(x, path...) copies
					if _, isSlice := x.Call.Args[0].Type().Underlying().(*types.Slice); isSlice && !sameElem(x.Call.Args[0].Type(), a.Type()) {
						e.mark(&e.escSet, in)
						return tsE
					}
				}
			}
			return st
		}
	}
	if g, cc := e.callee(in); cc != nil {
		switch l.kind {
		case tsField:
			if g == nil {
				return st
			}
			s := e.sums[g]
			if s == nil {
				return st
			}
			if s.needsFresh {
				use("it is written by " + e.c.fname(g) + ", which does not refresh it first")
			}
			out := s.exit &^ tsU
			if s.exit&tsU != 0 {
				out |= st
			}
			return out
		case tsLocal:
			for j, a := range cc.Args {
				if a == ssa.Value(l.alloc) {
					if g != nil && e.writesThroughParam(g, j) {
						e.mark(&e.useSet, in)
						use("its address is passed to " + e.c.fname(g) + ", which re-slices and appends to it")
					} else if g == nil {
						return tsE // handed to unknown code
					}
				}
			}
		}
	}
	return st
}

func sameElem(sliceT, argT types.Type) bool {
	// append(x, y...) passes y with the same slice type as x
	return types.Identical(sliceT.Underlying(), argT.Underlying())
}

func (l tsLoc) name() string {
	if l.kind == tsField {
		return l.typ + "." + l.field
	}
	if l.alloc.Comment != "" {
		return l.alloc.Comment
	}
	return l.alloc.Name()
}

func shortVal(v ssa.Value) string {
	s := v.String()
	if len(s) > 60 {
		s = s[:60] + "..."
	}
	return s
}

// flow runs the forward may-analysis over f from entry state `entry`.
func (e *tsEngine) flow(f *ssa.Function, entry int, sum *tsSummary, report func(tsViolation)) {
	in := map[*ssa.BasicBlock]int{f.Blocks[0]: entry}
	work := []*ssa.BasicBlock{f.Blocks[0]}
	out := map[*ssa.BasicBlock]int{}
	for len(work) > 0 {
		b := work[0]
		work = work[1:]
		st := in[b]
		for _, instr := range b.Instrs {
			st = e.transfer(instr, st, f, sum, nil)
		}
		if o, ok := out[b]; ok && o == st {
			continue
		}
		out[b] = st
		for _, s := range b.Succs {
			if in[s]|st != in[s] || !has(in, s) {
				in[s] |= st
				work = append(work, s)
			}
		}
	}
	// final pass with reporting and exit states
	for _, b := range f.Blocks {
		st, ok := in[b]
		if !ok {
			continue
		}
		for _, instr := range b.Instrs {
			st = e.transfer(instr, st, f, sum, report)
			if _, isRet := instr.(*ssa.Return); isRet {
				sum.exit |= st
			}
		}
	}
}

func has(m map[*ssa.BasicBlock]int, b *ssa.BasicBlock) bool { _, ok := m[b]; return ok }

// ruleScratchField: interprocedural typestate of a scratch field.
func ruleScratchField(rule, typ, field string, minUses int, why string) func(*Ctx) {
	return func(c *Ctx) {
		e := &tsEngine{c: c, loc: tsLoc{kind: tsField, typ: typ, field: field}, sums: map[*ssa.Function]*tsSummary{}, ptrWriter: map[*ssa.Function]map[int]bool{}}
		fns := c.srcFuncs()
		for _, f := range fns {
			e.sums[f] = &tsSummary{exit: tsU}
		}
		// fixed point of the summaries
		for iter := 0; iter < 20; iter++ {
			changed := false
			for _, f := range fns {
				if len(f.Blocks) == 0 {
					continue
				}
				s := &tsSummary{}
				e.flow(f, tsU, s, nil)
				if s.exit == 0 {
					s.exit = tsU
				}
				old := e.sums[f]
				if old.needsFresh != s.needsFresh || old.exit != s.exit {
					e.sums[f] = s
					changed = true
				}
			}
			if !changed {
				break
			}
		}
		var vs []tsViolation
		seen := map[string]bool{}
		for _, f := range fns {
			if len(f.Blocks) == 0 {
				continue
			}
			e.flow(f, tsU, &tsSummary{}, func(v tsViolation) {
				k := c.pos(v.pos)
				if !seen[k] {
					seen[k] = true
					vs = append(vs, v)
				}
			})
		}
		sort.Slice(vs, func(i, j int) bool { return c.pos(vs[i].pos) < c.pos(vs[j].pos) })
		nu, ne, nf := e.counts()
		if nu < minUses || ne == 0 || nf == 0 {
			fatalf("rule %s: %d uses, %d escapes, %d refreshes of %s.%s found — the rule no longer sees the scratch slice", rule, nu, ne, nf, typ, field)
		}
		if len(vs) == 0 {
			c.pass(rule, fmt.Sprintf("%s:%s.%s:no-use-after-escape", rule, typ, field), token.NoPos, "("+typ+")",
				fmt.Sprintf("%s.%s: %d writes, %d hand-overs to the solution, %d refreshes; on no path (across calls) is it written after a hand-over without a refresh in between", typ, field, nu, ne, nf))
			return
		}
		for i, v := range vs {
			c.fail(rule, fmt.Sprintf("%s:%s:use-after-escape#%d", rule, c.fname(v.fn), i+1), v.pos, c.fname(v.fn),
				fmt.Sprintf("%s.%s has been handed to the solution and not refreshed when %s", typ, field, v.what), why)
		}
	}
}

// ruleScratchLocal: the same typestate for address-taken local slices handed to a callee that fills them.
func ruleScratchLocal(rule string, fns []string, min int, why string) func(*Ctx) {
	return func(c *Ctx) {
		n := 0
		seenFn := map[*ssa.Function]bool{}
		var region []*ssa.Function
		for _, fn := range fns {
			for _, g := range freshRegion(c, c.fn(fn)) { // the fill-and-hand-over may sit in an extracted helper
				if !seenFn[g] {
					seenFn[g] = true
					region = append(region, g)
				}
			}
		}
		for _, f := range region {
			fn := c.fname(f)
			for _, b := range f.Blocks {
				for _, in := range b.Instrs {
					al, ok := in.(*ssa.Alloc)
					if !ok {
						continue
					}
					if _, isSlice := al.Type().(*types.Pointer).Elem().Underlying().(*types.Slice); !isSlice {
						continue
					}
					e := &tsEngine{c: c, loc: tsLoc{kind: tsLocal, alloc: al}, sums: map[*ssa.Function]*tsSummary{}, ptrWriter: map[*ssa.Function]map[int]bool{}}
					var vs []tsViolation
					e.flow(f, tsF, &tsSummary{}, func(v tsViolation) { vs = append(vs, v) })
					if nu, ne, _ := e.counts(); nu == 0 || ne == 0 {
						continue // not a fill-and-hand-over scratch
					}
					n++
					bad := ""
					pos := al.Pos()
					if len(vs) > 0 {
						bad = fmt.Sprintf("%s has been handed to the solution and is still the same variable when %s (declared outside the loop?)", e.loc.name(), vs[0].what)
						pos = vs[0].pos
					}
					c.check(bad == "", rule, fmt.Sprintf("%s:%s:%s", rule, fn, e.loc.name()), pos, fn,
						fmt.Sprintf("%s: a new variable (or a fresh slice) for every path handed over", e.loc.name()), bad, why)
				}
			}
		}
		c.floor(rule, n, min)
	}
}
