NOTE = "trusts go/types+go/ssa (x/tools v0.50.0), the VTA call graph for dynamic calls, and the rule tables in DESIGN.md §4; decides the structural clause only, not the runtime behaviour"
claimed = {
 "C10": ("SCCP constant-dead call sites + call-graph reachability + decision-table extraction over SSA",
         "Decides that the end-cap constructors are reachable and live at both ends of offsetOpenPath and that the end-type dispatch equals the property's table; a necessary condition for any stroke to have caps. Stroke geometry is not decided.", "DESIGN.md §4 C10", NOTE),
 "C11": ("call-graph must-reach / must-not-reach (VTA) + guard extraction",
         "Decides that every line entry point reaches the open-polyline machine and extractor and cannot reach the polygon machine that closes paths; necessary for 'lines are never closed up / two-point segments are not dropped'. Crossing logic is not decided.", "DESIGN.md §4 C11", NOTE),
}
not_applicable = {}
