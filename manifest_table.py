NOTE = "trusts go/types+go/ssa (x/tools v0.50.0), the VTA call graph for dynamic calls, and the rule tables in DESIGN.md §4; decides the structural clause only, not the runtime behaviour"
claimed = {
 "C10": ("SCCP constant-dead call sites + call-graph reachability + decision-table extraction over SSA",
         "Decides that the end-cap constructors are reachable and live at both ends of offsetOpenPath and that the end-type dispatch equals the property's table; a necessary condition for any stroke to have caps. Stroke geometry is not decided.", "DESIGN.md §4 C10", NOTE),
 "C11": ("call-graph must-reach / must-not-reach (VTA) + guard extraction",
         "Decides that every line entry point reaches the open-polyline machine and extractor and cannot reach the polygon machine that closes paths; necessary for 'lines are never closed up / two-point segments are not dropped'. Crossing logic is not decided.", "DESIGN.md §4 C11", NOTE),
}
claimed.update({
 "C01": ("decision-table extraction (abstract exploration of SSA) + ring-walk polarity + SCCP dead-mechanism",
         "Decides that the edge-contribution predicate equals the property's set-theoretic table on every cell of the code-derived partition (4 clip types x 4 fill rules x polytype x windCount x windCount2), that the open-path boundary test agrees with it, that every ring walk visits the whole ring and that no sweep/repair call is constant-dead. Necessary conditions of C01; the sweep geometry is not decided.", "DESIGN.md §4 C01", NOTE),
 "C07": ("SSA dataflow over every D entry point (precision provenance, scale-in/scale-out pairing, rounding, sibling call skeleton)",
         "Decides for all D entry points (enumerated by type) that the caller's precision is range-checked and unmodified, that inputs are quantised by the scale-in helpers with this call's 10^p, results are divided by the same 10^p, rectangles use the path quantiser and the wrapper calls exactly its 64-bit sibling's routines. Bit-exactness of the decimal round trip is not decided.", "DESIGN.md §4 C07", NOTE),
 "C09": ("decision-table extraction over SSA",
         "Decides that the open-edge contribution predicate equals the property's coverage table for every fill rule, clip type and winding cell and that open paths are cut only at own-set boundary edges. Cut positions are not decided.", "DESIGN.md §4 C09", NOTE),
 "C18": ("inclusion-based points-to + write-effect classification, global-variable discipline, forbidden-construct scan",
         "An effect argument for the whole property: no package-level mutable state, no write through caller-supplied input memory, no goroutines/sync/unsafe in the package or the reachable dependency code, so concurrent calls on distinct objects share only read-only memory. Trusts the standard library and caller-supplied callbacks.", "DESIGN.md §4 C18", NOTE),
 "C19": ("decision-table identities (no external oracle) + wrapper wiring extraction",
         "Decides the edge-level forms of the four set identities inside the extracted contribution table for every fill rule and cell, and that each named wrapper passes the clip type its name states with subject/clip/fill rule in order. Area bounds are not decided.", "DESIGN.md §4 C19", NOTE),
})
claimed.update({
 "C02": ("must-precede / guard analysis on the CFG + abstract exploration of buildPath",
         "Decides that every closed path is emitted only through cleanCollinear -> buildPath(c.reverseSolution,false) -> guarded append in both pipelines, that buildPath refuses rings of fewer than 3 nodes and filters equal consecutive points, and that every site honours the reverse-solution option. The winding-number/orientation clauses are geometric and not decided.", "DESIGN.md §4 C02", NOTE),
 "C04": ("must-precede / guard analysis + decision table for IsHole/Level",
         "Decides once-only insertion (single AddChild caller under the polypath==nil guard), that tree polygons come from the same cleaning/building pipeline as the flat result, and the IsHole/Level parity table. Containment and nesting correctness are not decided.", "DESIGN.md §4 C04", NOTE),
 "C12": ("clear-before-append tracking through callees, field write inventory with re-initialisation proofs (must-store dataflow), frozen-input store scan, points-to write effects",
         "Decides that solution arguments are cleared before the first append on every path, that every engine field written during execution is re-initialised (reset / prologue / epilogue / mode field), that executions never write the retained input graph and that no library write reaches caller input slices. With determinism (C17) identical state gives identical answers. Order-of-AddPaths independence is not decided.", "DESIGN.md §4 C12", NOTE),
 "C13": ("magnitude-bits abstract interpretation of all int64 arithmetic (interprocedural) + int/float round-trip scan",
         "Decides the 'no intermediate exceeds 64 bits' clause: with |coord| <= 2^61 no int64 +,-,* can need more than 63 bits and no >53-bit integer is taken through float64 and back. Float rounding-error growth and the 128-bit limb identities are not decided.", "DESIGN.md §4 C13", NOTE),
 "C14": ("decision table for triSign, magnitude-bits analysis at 2^29 (int64 and float mantissa), bounds-accumulator exploration",
         "Decides that triSign is the sign function per cell, that the predicate/measure functions have no wrapped int64 intermediate and no float detour beyond 53 bits at |coord| <= 2^29, that the bounds accumulators start at the right extremes with independent per-axis updates, and IsPositive64/AreaPaths64's definitions. PointInPolygon's crossing walk is not decided.", "DESIGN.md §4 C14", NOTE),
})
claimed.update({
 "C05": ("decision-table extraction for the join/sign/union dispatch + axis-pairing lint + dominance checks",
         "Decides the join-constructor table, the group-delta sign table and arc direction, the closed-flag and orientation source of NewGroup, the clean-up union's fill rule/reverse table, the sub-unit-delta fast path and X/Y pairing of constructed points. All distance statements are geometric and not decided.", "DESIGN.md §4 C05", NOTE),
 "C08": ("AST/SSA pattern rules (sign, orientation normaliser, wrap-around constants, no-skip) + entry wiring table",
         "Decides plus/minus on both axes, the entry flags and NonZero final union, positive-orientation normalisation of every quad, the closed/open wrap constants and that no vertex or segment is skipped. That the quads cover exactly the swept region is not decided.", "DESIGN.md §4 C08", NOTE),
 "C17": ("forbidden-construct and global-write scan over package and reachable dependency, strict-weak-order tables of comparison closures, sign-mirror of fill-rule arms (AST) and tables, path-explored duplicate-vertex filter",
         "Decides sentence 1 (bit-identical repeatability) completely modulo the standard library, that sort comparators are strict weak orders, that Negative arms are sign mirrors of Positive arms that the contribution table ignores polytype for the symmetric clip types and that the vertex-ring builder drops exactly the consecutive duplicates. Permutation/rotation/lattice invariance of the region is not decided.", "DESIGN.md §4 C17", NOTE),
})
claimed.update({
 "C03": ("explicit-panic inventory with premise checks, interval analysis of make sizes, divisor scan, constant-index preconditions pushed to call sites, must-store dataflow for the success flag, ring-walk polarity",
         "Decides that the only explicit panics are the reviewed ones, that no make() size can be negative, no integer divisor can be zero, constant indices into path parameters are guarded (by the function or every caller), the success flag is assigned on every path and ring walks exit on cursor==start. Nil-safety of the linked structures and termination of invariant-dependent scans are not decided.", "DESIGN.md §4 C03", NOTE),
 "C06": ("AST mirror rewriting of sibling case arms, SCCP dead-mechanism, abstract exploration of the fast paths, bounds-accumulator exploration",
         "Decides that the location state machine's Right/Bottom/Top arms are mirror images of their siblings, that the corner-adding calls are live, that the inside/outside fast paths use the current path's bounds and return the input path itself, and that bounds start at the right extremes. The crossing-history logic is not decided.", "DESIGN.md §4 C06", NOTE),
 "C15": ("provenance of appended values, abstract exploration of the scan loops, loop-invariance of scan anchors, predicate exactness (decision table + width)",
         "Decides that results are built from input vertices only, that the main scan drops a vertex exactly under isCollinear(last kept, path[i], path[i+1]), that wrap-around scans use fixed anchors, that open ends are kept, and that the collinearity predicate is exact (modulo the recorded triSign finding). Global clauses (no three collinear remain, idempotence) are not decided.", "DESIGN.md §4 C15", NOTE),
 "C16": ("abstract exploration of the result pass and refresh guards, sibling agreement by alpha-normalised AST comparison, same-axis-difference provenance, width analysis",
         "Decides the sub-sequence construction, the open-end/closed-wrap refresh guards, 64/D sibling agreement, exact translation invariance of the distance and exactness of the integer distance's cross product at 2^29. The greedy order and the 'none within epsilon remains' clause are not decided.", "DESIGN.md §4 C16", NOTE),
})
not_applicable = {}
