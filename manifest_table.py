NOTE = "trusts go/types+go/ssa (x/tools v0.50.0), the VTA call graph for dynamic calls, and the rule tables in DESIGN.md §4; decides the structural clause only, not the runtime behaviour"
claimed = {
 "C10": ("SCCP constant-dead call sites + call-graph reachability + decision-table extraction over SSA",
         "Decides that the end-cap constructors are reachable and live at both ends of offsetOpenPath and that the end-type dispatch equals the property's table; a necessary condition for any stroke to have caps. Stroke geometry is not decided.", "DESIGN.md §4 C10", NOTE),
 "C11": ("call-graph must-reach / must-not-reach (VTA) + guard extraction",
         "Decides that every line entry point reaches the open-polyline machine and extractor and cannot reach the polygon machine that closes paths; necessary for 'lines are never closed up / two-point segments are not dropped'. Crossing logic is not decided.", "DESIGN.md §4 C11", NOTE),
}
claimed.update({
 "C01": ("decision-table extraction (abstract exploration of SSA) + ring-walk polarity + SCCP dead-mechanism",
         "Decides that the edge-contribution predicate equals the property's set-theoretic table on every cell of the code-derived partition (4 clip types x 4 fill rules x polytype x windCount x windCount2), that the open-path boundary test agrees with it, that every ring walk visits the whole ring and that no sweep/repair call is constant-dead. Necessary conditions of C01; the sweep geometry is not decided.", "DESIGN.md §4 C01", NOTE),
 "C07": ("SSA dataflow over every D entry point (precision provenance, scale-in/scale-out pairing, rounding, sibling call skeleton)",
         "Decides for all D entry points (enumerated by type) that the caller's precision is range-checked and unmodified, that inputs are quantised by the scale-in helpers with this call's 10^p, results are divided by the same 10^p, rectangles use the path quantiser and the wrapper calls exactly its 64-bit sibling's routines. Bit-exactness of the decimal round trip is not decided.", "DESIGN.md §4 C07", NOTE),
 "C09": ("decision-table extraction over SSA",
         "Decides that the open-edge contribution predicate equals the property's coverage table for every fill rule, clip type and winding cell and that open paths are cut only at own-set boundary edges. Cut positions are not decided.", "DESIGN.md §4 C09", NOTE),
 "C18": ("inclusion-based points-to + write-effect classification, global-variable discipline, forbidden-construct scan",
         "An effect argument for the whole property: no package-level mutable state, no write through caller-supplied input memory, no goroutines/sync/unsafe in the package or the reachable dependency code, so concurrent calls on distinct objects share only read-only memory. Trusts the standard library and caller-supplied callbacks.", "DESIGN.md §4 C18", NOTE),
 "C19": ("decision-table identities (no external oracle) + wrapper wiring extraction",
         "Decides the edge-level forms of the four set identities inside the extracted contribution table for every fill rule and cell, and that each named wrapper passes the clip type its name states with subject/clip/fill rule in order. Area bounds are not decided.", "DESIGN.md §4 C19", NOTE),
})
not_applicable = {}
