#!/usr/bin/env python3
"""Regenerates MANIFEST.json from the table below (kept in one place so it is always schema-valid)."""
import json, sys
ENV = ". /verif/env.sh && "
claimed = {}   # id -> (technique, level text, design_ref, note)
exec(open('/verif/manifest_table.py').read())
props = [json.loads(l) for l in open('/verif/properties.jsonl')]
checks, na = [], []
for p in props:
    i = p['id']
    if i in claimed:
        t = claimed[i]
        checks.append({
            "property_id": i,
            "quick_cmd": f"bin/vcheck -p {i} -tier quick",
            "thorough_cmd": f"bin/vcheck -p {i} -tier thorough",
            "evidence_file": f"/verif/evidence/{i}.json",
            "replay_cmd_template": f"bin/vcheck -p {i} -explain {{path}}",
            "engine": "vcheck",
            "level_claimed": {"category": "other", "text": t[1], "design_ref": t[2]},
            "level_note": t[3],
            "technique": t[0],
        })
    else:
        na.append({"property_id": i, "reason": not_applicable.get(i, "static rule not built yet in this round; see DESIGN.md §4 for the planned structural clause")})
m = {
    "version": 1,
    "setup_cmd": "cd /verif/checker && . /verif/env.sh && go build -o ../bin/vcheck .",
    "hooks": {"guard": "verif", "enable": "none needed: static analysis reads /repo's source; no hooks are compiled in",
              "baseline_off_cmd": "cd /repo && GOFLAGS=-mod=mod GOPROXY=off go test -json -vet=off -count=1 -timeout 25m ./...",
              "source_commits": [], "add_only": True},
    "engines": [{"name": "vcheck", "path": "/verif/checker", "serves_properties": sorted(claimed),
                 "kind_free_text": "repository-specific static analyser on go/packages + go/ssa + call graph (x/tools v0.50.0): decision-table extraction, SCCP dead-mechanism, ring-walk polarity, reachability, ownership/effects, scaling dataflow, width analysis, sibling mirrors"}],
    "checks": checks,
    "notes": "All claims are level 'other': each check decides a structural necessary condition of its property from /repo's current source (nothing in /repo is executed). KNOWN_FINDINGS lists genuine defects that are recorded rather than repaired, and the fix: commits made.",
    "not_applicable": na,
}
json.dump(m, open('/verif/MANIFEST.json','w'), indent=1)
print("checks", len(checks), "not_applicable", len(na))
