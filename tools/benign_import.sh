#!/bin/bash
# benign_import.sh <outdir e.g. /tmp/benout1> — for each <outdir>/<ID>/<V>/patch.diff: check that it applies to /repo,
# builds and passes the suite on a scratch copy; if so copy it to /verif/equiv/<ID>-<V>.patch (the behaviour-preserving
# corpus that tools/equiv_check.sh runs every check against).
out=$1
for pf in $out/*/*/patch.diff; do
  v=$(basename $(dirname $pf)); id=$(basename $(dirname $(dirname $pf)))
  d=$(mktemp -d /tmp/bi.XXXXXX)
  cp /repo/*.go /repo/go.mod /repo/go.sum $d/
  if ! (cd $d && patch -p1 -s --no-backup-if-mismatch < $pf >/dev/null 2>&1); then echo "$id-$v PATCH-FAILED"; rm -rf $d; continue; fi
  t=$(cd $d && GOFLAGS=-mod=mod GOPROXY=off go test -count=1 . 2>&1 | tail -1)
  case "$t" in ok*) cp $pf /verif/equiv/$id-$v.patch; echo "$id-$v imported";; *) echo "$id-$v TESTS-FAIL: $t";; esac
  rm -rf $d
done
