#!/bin/bash
# equiv_check.sh — every behaviour-preserving edit in /verif/equiv must (a) build and pass the existing suite,
# (b) leave every check silent (exit 0). Run on scratch copies; /repo is not touched.
cd /verif
props=$(python3 -c "import json;print(' '.join(c['property_id'] for c in json.load(open('MANIFEST.json'))['checks']))")
run_one() {
  pf=$1; shift
  name=$(basename $pf .patch)
  d=$(mktemp -d /tmp/eq.XXXXXX)
  cp /repo/*.go /repo/go.mod /repo/go.sum $d/
  if ! (cd $d && patch -p1 -s --no-backup-if-mismatch < $pf >/dev/null 2>&1); then echo "$name PATCH-FAILED"; rm -rf $d; return; fi
  t=$(cd $d && GOFLAGS=-mod=mod GOPROXY=off go test -count=1 . 2>&1 | tail -1)
  case "$t" in ok*) t=tests-ok;; *) t="TESTS-FAIL";; esac
  line="$name $t"
  for p in "$@"; do
    out=$(/verif/bin/vcheck -p $p -no-evidence -repo $d 2>&1); rc=$?
    if [ $rc != 0 ]; then line="$line $p=ALARM($rc)"; echo "$out" | grep -E "^  (rule|[a-zA-Z(])|CHECKER" | grep -v why: | head -6 | sed "s/^/      /" > /tmp/eq_detail_$name.$p; fi
  done
  echo "$line"
  cat /tmp/eq_detail_$name.* 2>/dev/null; rm -f /tmp/eq_detail_$name.*
  rm -rf $d
}
export -f run_one
ls /verif/equiv/*.patch | xargs -P 10 -I{} bash -c "run_one {} $props" 
