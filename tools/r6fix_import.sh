#!/bin/bash
# r6fix_import.sh <dir e.g. /tmp/r6fix> [id ...] — for each <dir>/<id>/out/fixed.diff (the round-6 refactoring with its one
# non-equivalent step repaired by a sub-agent): on a scratch copy of /repo check that it applies, builds, passes the
# suite AND the seed's demo test (which fails on the seeded variant), then import it as /verif/equiv/F6-<id>.patch.
dir=$1; shift
ids="$@"; [ -z "$ids" ] && ids=$(ls $dir | grep -E '^C[0-9]+-[AB]$')
export GOFLAGS=-mod=mod GOPROXY=off
for id in $ids; do
  pf=$dir/$id/out/fixed.diff
  [ -s $pf ] || { echo "$id NO-DIFF"; continue; }
  d=$(mktemp -d /tmp/r6i.XXXXXX)
  cp /repo/*.go /repo/go.mod /repo/go.sum $d/
  if ! (cd $d && patch -p1 -s --no-backup-if-mismatch < $pf >/dev/null 2>&1); then echo "$id PATCH-FAILED"; rm -rf $d; continue; fi
  t=$(cd $d && go test -count=1 . 2>&1 | tail -1)
  cp /verif/seeded/R6-$id/demo_test.go $d/zz_demo_test.go
  tn=$(python3 -c "import json;print(json.load(open('/verif/seeded/R6-$id/meta.json'))['demo_test_name'])")
  dm=$(cd $d && go test -count=1 -run "^${tn}\$" . 2>&1 | tail -1)
  case "$t" in ok*) ;; *) echo "$id TESTS-FAIL: $t"; rm -rf $d; continue;; esac
  case "$dm" in ok*) cp $pf /verif/equiv/F6-$id.patch; echo "$id imported (suite ok, demo ok)";; *) echo "$id DEMO-FAIL: $dm";; esac
  rm -rf $d
done
