#!/bin/bash
# revert_check.sh — for every fix: commit in /repo, analyse a scratch worktree with that commit reverted and report
# which checks flag it. Writes /verif/seeded/REVERTS.md. /repo itself is not touched.
cd /verif
props=$(python3 -c "import json;print(' '.join(c['property_id'] for c in json.load(open('MANIFEST.json'))['checks']))")
out=/verif/seeded/REVERTS.md
echo "# fix: commits reverted one at a time on a scratch worktree — which checks report the defect" > $out
echo >> $out
echo '```' >> $out
for h in $(git -C /repo log --format=%h --grep='^fix:' --reverse); do
  subj=$(git -C /repo log -1 --format=%s $h | cut -c1-90)
  wt=$(mktemp -d /tmp/rv.XXXXXX); rmdir $wt
  git -C /repo worktree add -q --detach $wt HEAD
  if ! git -C $wt revert -n $h >/dev/null 2>&1; then
    echo "$h CONFLICT-ON-REVERT  $subj" | tee -a $out
    git -C /repo worktree remove --force $wt; continue
  fi
  if ! (cd $wt && GOFLAGS=-mod=mod GOPROXY=off go build ./... >/dev/null 2>&1); then
    echo "$h DOES-NOT-BUILD-REVERTED  $subj" | tee -a $out
    git -C /repo worktree remove --force $wt; continue
  fi
  hits=""
  for p in $props; do
    o=$(./bin/vcheck -p $p -no-evidence -repo $wt 2>&1); rc=$?
    if [ $rc = 1 ]; then hits="$hits $p[$(echo "$o" | grep -oE 'rule=[A-Za-z0-9.]+' | sort -u | sed 's/rule=//' | tr '\n' ',' | sed 's/,$//')]"; fi
    if [ $rc = 2 ]; then hits="$hits $p[CHECKER-ERROR]"; fi
  done
  [ -z "$hits" ] && hits=" NOT-DETECTED"
  echo "$h$hits  <- $subj" | tee -a $out
  git -C /repo worktree remove --force $wt
done
echo '```' >> $out
