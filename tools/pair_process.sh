#!/bin/bash
# pair_process.sh <outdir> [vcheck-bin] [seed-prefix R7] [clean-prefix F7] — round 7 delivers every refactoring twice: with the regression
# (patch.diff + demo) and without (clean.diff). Confirms both halves on scratch copies, imports the seed as
# seeded/${RP}-<id>-<X> and the clean half as equiv-candidate <outdir>/clean/${FP}-<id>-<X>.patch, then runs all checks with
# the given (frozen) binary on both and prints, per pair: seed verdict, clean verdict.
out=$1; bin=${2:-/verif/bin/vcheck}; RP=${3:-R7}; FP=${4:-F7}
export GOFLAGS=-mod=mod GOPROXY=off
mkdir -p $out/clean
props=$(python3 -c "import json;print(' '.join(c['property_id'] for c in json.load(open('/verif/MANIFEST.json'))['checks']))")
for d in $out/C*/[AB]; do
  [ -s $d/patch.diff ] || continue
  x=$(basename $d); id=$(basename $(dirname $d))
  [ -d /verif/seeded/${RP}-$id-$x ] || /verif/tools/verify_seed.sh $d ${RP}-$id-$x
  if [ -s $d/clean.diff ] && [ ! -s $out/clean/${FP}-$id-$x.patch ]; then
    t=$(mktemp -d /tmp/r7c.XXXXXX); cp /repo/*.go /repo/go.mod /repo/go.sum $t/
    if (cd $t && patch -p1 -s --no-backup-if-mismatch < $d/clean.diff >/dev/null 2>&1); then
      s=$(cd $t && go test -count=1 . 2>&1 | tail -1)
      cp $d/demo_test.go $t/zz_demo_test.go
      tn=$(python3 -c "import json;print(json.load(open('$d/meta.json')).get('demo_test_name',''))")
      dm=$(cd $t && go test -count=1 -run "^${tn}\$" . 2>&1 | tail -1)
      case "$s$dm" in ok*ok*) cp $d/clean.diff $out/clean/${FP}-$id-$x.patch; echo "${FP}-$id-$x clean half confirmed (suite ok, demo ok)";; *) echo "${FP}-$id-$x CLEAN-REJECTED suite=[$s] demo=[$dm]";; esac
    else echo "${FP}-$id-$x CLEAN-PATCH-FAILED"; fi
    rm -rf $t
  fi
done
run_one() {
  pf=$1; name=$2; bin=$3; shift 3
  d=$(mktemp -d /tmp/r7r.XXXXXX); cp /repo/*.go /repo/go.mod /repo/go.sum $d/
  (cd $d && patch -p1 -s --no-backup-if-mismatch < $pf >/dev/null 2>&1) || { echo "$name PATCH-FAILED"; rm -rf $d; return; }
  line="$name"
  for p in "$@"; do
    o=$($bin -p $p -no-evidence -repo $d 2>&1); rc=$?
    if [ $rc != 0 ]; then line="$line $p=$rc"; echo "$o" | grep -E "^  rule=" | head -3 | sed "s/^/      [$name $p]/" >> /tmp/r7_detail_$name.txt; fi
  done
  echo "$line"; cat /tmp/r7_detail_$name.txt 2>/dev/null; rm -f /tmp/r7_detail_$name.txt; rm -rf $d
}
export -f run_one
{ for s in $(ls /verif/seeded | grep "^${RP}-"); do echo "/verif/seeded/$s/patch.diff SEED-$s"; done
  for f in $out/clean/${FP}-*.patch; do [ -s $f ] && echo "$f CLEAN-$(basename $f .patch)"; done; } | xargs -P 12 -L 1 bash -c 'run_one $0 $1 '"$bin $props"
