#!/bin/bash
# verify_seed.sh <src-dir with patch.diff demo_test.go meta.json> <id e.g. C12-B>
# Confirms in a scratch worktree of /repo: patch applies, builds, existing suite passes with patch,
# demo fails with patch and passes without. On success copies into /verif/seeded/<id>/ with a verified meta.json.
set -u
src=$1; id=$2
export GOFLAGS=-mod=mod GOPROXY=off
wt=$(mktemp -d /tmp/seedverify.XXXXXX)
rmdir $wt
git -C /repo worktree add -q --detach $wt HEAD || exit 2
cleanup() { git -C /repo worktree remove --force $wt 2>/dev/null; rm -rf $wt; }
trap cleanup EXIT
cd $wt
if ! git apply --check $src/patch.diff 2>/dev/null; then echo "$id: PATCH DOES NOT APPLY"; exit 1; fi
cp $src/demo_test.go zz_demo_test.go
tn=$(python3 -c "import json;print(json.load(open('$src/meta.json')).get('demo_test_name',''))")
[ -z "$tn" ] && tn=$(grep -oE 'func (Test[A-Za-z0-9_]+)' zz_demo_test.go | head -1 | awk '{print $2}')
base=$(timeout 300 go test -count=1 -run "^${tn}\$" . 2>&1 | tail -1)
git apply $src/patch.diff
build=$(go build ./... 2>&1 | tail -1)
mv zz_demo_test.go /tmp/zz_demo_$$.go
suite=$(timeout 600 go test -count=1 . 2>&1 | tail -1)
mv /tmp/zz_demo_$$.go zz_demo_test.go
demo=$(timeout 300 go test -count=1 -run "^${tn}\$" . 2>&1 | tail -1)
ok=1
case "$base" in ok*) ;; *) ok=0;; esac
case "$suite" in ok*) ;; *) ok=0;; esac
case "$demo" in ok*) ok=0;; esac
echo "$id: test=$tn base=[$base] suite_with_patch=[$suite] demo_with_patch=[$demo] build=[$build] => $([ $ok = 1 ] && echo CONFIRMED || echo REJECTED)"
if [ $ok = 1 ]; then
  mkdir -p /verif/seeded/$id
  cp $src/patch.diff /verif/seeded/$id/patch.diff
  cp $src/demo_test.go /verif/seeded/$id/demo_test.go
  python3 - <<PY
import json
m=json.load(open('$src/meta.json'))
out={"id":"$id","property":m.get("property"),"summary":m.get("summary"),"needs":m.get("needs"),"demo_test_name":"$tn",
 "verified_by_me":{"scratch_worktree":"git worktree of /repo HEAD under /tmp (removed)","commands":[
   "git apply patch.diff; go build ./...","go test -count=1 . (existing suite with patch): $suite".strip(),
   "go test -run ^$tn\$ . with patch: FAIL","go test -run ^$tn\$ . without patch: ok"],
   "base_repo_commit":"$(git -C /repo rev-parse --short HEAD)"}}
json.dump(out,open('/verif/seeded/$id/meta.json','w'),indent=1)
PY
fi
