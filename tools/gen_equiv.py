#!/usr/bin/env python3
"""Generates /verif/equiv/E*.patch: behaviour-preserving edits of /repo on which every check must stay silent.
Each edit is (file, old, new); patches are regenerated from the current /repo so they keep applying."""
import os, re, subprocess, tempfile, shutil, sys
EDITS = {
 "E01-rename-local-TrimCollinear": [("clipper.go", "	last := path[i]\n	result = append(result, last)\n	for i++; i < l-1; i++ {\n		if isCollinear(last, path[i], path[i+1]) {\n			continue\n		}\n		last = path[i]\n		result = append(result, last)\n	}",
   "	prevKept := path[i]\n	result = append(result, prevKept)\n	for i++; i < l-1; i++ {\n		if isCollinear(prevKept, path[i], path[i+1]) {\n			continue\n		}\n		prevKept = path[i]\n		result = append(result, prevKept)\n	}"),
   ("clipper.go", "} else if !isCollinear(last, path[l-1], result[0]) {", "} else if !isCollinear(prevKept, path[l-1], result[0]) {")],
 "E02-switch-to-if-isContributingClosed": [("clipper_base.go", "	switch c.fillRule {\n	case Positive:\n		if ae.windCount != 1 {\n			return false\n		}\n	case Negative:\n		if ae.windCount != -1 {\n			return false\n		}\n	case NonZero:\n		if math.Abs(float64(ae.windCount)) != 1 {\n			return false\n		}\n	}\n",
   "	if c.fillRule == Positive {\n		if ae.windCount != 1 {\n			return false\n		}\n	} else if c.fillRule == Negative {\n		if ae.windCount != -1 {\n			return false\n		}\n	} else if c.fillRule == NonZero {\n		if absInt(ae.windCount) != 1 {\n			return false\n		}\n	}\n")],
 "E03-reorder-cases-isContributingOpen": [("clipper_base.go", "	case Positive:\n		isInSubj = ae.windCount > 0\n		isInClip = ae.windCount2 > 0\n	case Negative:\n		isInSubj = ae.windCount < 0\n		isInClip = ae.windCount2 < 0\n",
   "	case Negative:\n		isInSubj = ae.windCount < 0\n		isInClip = ae.windCount2 < 0\n	case Positive:\n		isInSubj = ae.windCount > 0\n		isInClip = ae.windCount2 > 0\n")],
 "E04-triSign-as-switch": [("internal_clipper.go", "	if x < 0 {\n		return -1\n	}\n	if x > 1 {\n		return 1\n	}\n	return 0\n", "	switch {\n	case x < 0:\n		return -1\n	case x > 1:\n		return 1\n	}\n	return 0\n")],
 "E05-extract-bool-offsetPoint": [("offset.go", "		case Miter:\n			if cosA > co.mitLimSqr-1 {", "		case Miter:\n			withinLimit := cosA > co.mitLimSqr-1\n			if withinLimit {")],
 "E06-rename-local-ScaleRectD": [("clipper.go", "corners := ScalePathDToPath64(", "q := ScalePathDToPath64("), ("clipper.go", "		left:   corners[0].X,\n		top:    corners[0].Y,\n		right:  corners[1].X,\n		bottom: corners[1].Y,", "		left:   q[0].X,\n		top:    q[0].Y,\n		right:  q[1].X,\n		bottom: q[1].Y,")],
 "E07-reorder-independent-clipperD-ExecuteOC": [("clipperd.go", "func (c *clipperD) ExecuteOC(clipType ClipType, fillRule FillRule, solutionClosed, solutionOpen *PathsD) bool {\n	*solutionClosed = (*solutionClosed)[:0]\n	*solutionOpen = (*solutionOpen)[:0]\n\n	solClosed64 := make(Paths64, 0)\n	solOpen64 := make(Paths64, 0)\n",
   "func (c *clipperD) ExecuteOC(clipType ClipType, fillRule FillRule, solutionClosed, solutionOpen *PathsD) bool {\n	solClosed64 := make(Paths64, 0)\n	solOpen64 := make(Paths64, 0)\n	*solutionOpen = (*solutionOpen)[:0]\n	*solutionClosed = (*solutionClosed)[:0]\n")],
 "E08-reorder-bounds-updates": [("clipper.go", "		if pt.X < result.left {\n			result.left = pt.X\n		}\n		if pt.X > result.right {\n			result.right = pt.X\n		}\n		if pt.Y < result.top {\n			result.top = pt.Y\n\n		}\n		if pt.Y > result.bottom {\n			result.bottom = pt.Y\n		}\n",
   "		if pt.Y > result.bottom {\n			result.bottom = pt.Y\n		}\n		if pt.Y < result.top {\n			result.top = pt.Y\n		}\n		if pt.X > result.right {\n			result.right = pt.X\n		}\n		if pt.X < result.left {\n			result.left = pt.X\n		}\n")],
 "E09-rename-local-BooleanOpPaths64": [("clipper64.go", "	solution := make(Paths64, 0)\n	c := NewClipper64()\n	c.AddPaths(subject, Subject, false)\n	if clip != nil {\n		c.AddPaths(clip, Clip, false)\n	}\n\n	c.Execute(clipType, fillRule, &solution)\n	return solution",
   "	out := make(Paths64, 0)\n	engine := NewClipper64()\n	engine.AddPaths(subject, Subject, false)\n	if clip != nil {\n		engine.AddPaths(clip, Clip, false)\n	}\n\n	engine.Execute(clipType, fillRule, &out)\n	return out")],
 "E10-invert-delta-init-minkowski": [("minkowski.go", "	delta := 1\n	if isClosed {\n		delta = 0\n	}\n", "	delta := 0\n	if !isClosed {\n		delta = 1\n	}\n")],
 "E11-local-inverse-NewClipperD": [("clipperd.go", "	scale := math.Pow(10, float64(decimalPrecision))\n\n	return &clipperD{\n		clipperBase: newClipperBase(),\n		scale:       scale,\n		invScale:    1 / scale,\n	}",
   "	scale := math.Pow(10, float64(decimalPrecision))\n	inv := 1 / scale\n\n	return &clipperD{\n		clipperBase: newClipperBase(),\n		scale:       scale,\n		invScale:    inv,\n	}")],
 "E12-reorder-reset-assignments": [("clipper_base.go", "	c.currentBotY = 0\n	c.currentLocMin = 0\n	c.actives = nil\n	c.sel = nil\n	c.succeeded = true\n", "	c.succeeded = true\n	c.sel = nil\n	c.actives = nil\n	c.currentLocMin = 0\n	c.currentBotY = 0\n")],
 "E13-rename-local-SimplifyPathD-only": [("clipper.go", "	length := len(path)\n	high := length - 1\n	epsSq := sqr(epsilon)\n\n	if length < 4 {\n		return path\n	}\n\n	flags := make([]bool, length)\n	dsq := make([]float64, length)",
   "	n := len(path)\n	high := n - 1\n	epsSq := sqr(epsilon)\n\n	if n < 4 {\n		return path\n	}\n\n	flags := make([]bool, n)\n	dsq := make([]float64, n)"), ("clipper.go", "	result := make(PathD, 0, length)", "	result := make(PathD, 0, n)")],
 "E14-groupDelta-assign-then-negate": [("offset.go", "		if group.pathsReversed {\n			co.groupDelta = -co.delta\n		} else {\n			co.groupDelta = co.delta\n		}", "		co.groupDelta = co.delta\n		if group.pathsReversed {\n			co.groupDelta = -co.groupDelta\n		}")],
 "E15-areaOP-loop-form": [("engine.go", "	op2 := op\n	for {\n		area += float64(op2.prev.pt.Y+op2.pt.Y) * float64(op2.prev.pt.X-op2.pt.X)\n		op2 = op2.next\n\n		if op2 == op {\n			break\n		}\n	}",
   "	op2 := op\n	for done := false; !done; done = op2 == op {\n		area += float64(op2.prev.pt.Y+op2.pt.Y) * float64(op2.prev.pt.X-op2.pt.X)\n		op2 = op2.next\n	}")],
 "E16-extract-helper-RectClipPathsD": [("rect_clip.go", "	scale := math.Pow(10, float64(precision))\n	r := ScaleRectD(rect, scale)\n	tmpPaths := ScalePathsDToPaths64(paths, scale)\n\n	rc := NewRectClip64(r)\n	result := rc.Execute(tmpPaths)\n	return ScalePaths64ToPathsD(result, 1/scale)",
   "	scale := math.Pow(10, float64(precision))\n	invScale := 1 / scale\n	tmpPaths := ScalePathsDToPaths64(paths, scale)\n	r := ScaleRectD(rect, scale)\n\n	rc := NewRectClip64(r)\n	return ScalePaths64ToPathsD(rc.Execute(tmpPaths), invScale)")],
 "E17-if-else-swap-buildPaths": [("clipper_base.go", "		if outrec.isOpen {\n			if c.buildPath(outrec.pts, c.reverseSolution, true, &path) {\n				*solutionOpen = append(*solutionOpen, path)\n			}\n		} else {\n			c.cleanCollinear(outrec)\n			if c.buildPath(outrec.pts, c.reverseSolution, false, &path) {\n				*solutionClosed = append(*solutionClosed, path)\n			}\n		}",
   "		if !outrec.isOpen {\n			c.cleanCollinear(outrec)\n			if c.buildPath(outrec.pts, c.reverseSolution, false, &path) {\n				*solutionClosed = append(*solutionClosed, path)\n			}\n		} else {\n			if c.buildPath(outrec.pts, c.reverseSolution, true, &path) {\n				*solutionOpen = append(*solutionOpen, path)\n			}\n		}")],
 "E19-rename-index-executeInternalPath64": [("rect_clip.go", "	prev := Inside\n	i := 1\n	highI := len(path) - 1\n\n	var loc Location\n	var ok bool\n	if loc, ok = getLocation(r.rect, path[0]); !ok {\n		prev, ok2 := getLocation(r.rect, path[i])\n		for !ok2 {\n			i++\n			if i > highI {\n				break\n			}\n			prev, ok2 = getLocation(r.rect, path[i])\n		}\n		if i > highI {",
   "	prev := Inside\n	idx := 1\n	highI := len(path) - 1\n\n	var loc Location\n	var ok bool\n	if loc, ok = getLocation(r.rect, path[0]); !ok {\n		prev, ok2 := getLocation(r.rect, path[idx])\n		for !ok2 {\n			idx++\n			if idx > highI {\n				break\n			}\n			prev, ok2 = getLocation(r.rect, path[idx])\n		}\n		if idx > highI {"),
   ("rect_clip.go", "		if prev == Inside {\n			loc = Inside\n		}\n		i = 1\n	}\n\n	if loc == Inside {\n		r.add(path[0], false)\n	}\n\n	for i <= highI {\n		prev = loc\n		r.getNextLocation(path, &loc, &i, highI)\n\n		if i > highI {\n			break\n		}\n\n		prevPt := path[i-1]\n		crossingLoc := loc\n\n		ip, ok := getIntersection(r.rectPath, path[i], prevPt, &crossingLoc)\n		if !ok {\n			i++\n			continue\n		}",
   "		if prev == Inside {\n			loc = Inside\n		}\n		idx = 1\n	}\n\n	if loc == Inside {\n		r.add(path[0], false)\n	}\n\n	for idx <= highI {\n		prev = loc\n		r.getNextLocation(path, &loc, &idx, highI)\n\n		if idx > highI {\n			break\n		}\n\n		prevPt := path[idx-1]\n		crossingLoc := loc\n\n		ip, ok := getIntersection(r.rectPath, path[idx], prevPt, &crossingLoc)\n		if !ok {\n			idx++\n			continue\n		}"),
   ("rect_clip.go", "			if ip2, ok2 := getIntersection(r.rectPath, prevPt, path[i], &crossingLoc); ok2 {", "			if ip2, ok2 := getIntersection(r.rectPath, prevPt, path[idx], &crossingLoc); ok2 {")],
 "E20-owner-branches-reordered-processHorzJoins": [("clipper_base.go", "				if path1InsidePath2(or1.pts, or2.pts) {\n					or2.pts, or1.pts = or1.pts, or2.pts\n					fixOutRecPts(or1)\n					fixOutRecPts(or2)\n					or2.owner = or1\n				} else if path1InsidePath2(or2.pts, or1.pts) {\n					or2.owner = or1\n				} else {\n					or2.owner = or1.owner\n				}",
   "				oldInNew := path1InsidePath2(or1.pts, or2.pts)\n				if oldInNew {\n					or2.pts, or1.pts = or1.pts, or2.pts\n					fixOutRecPts(or1)\n					fixOutRecPts(or2)\n				}\n				if oldInNew || path1InsidePath2(or2.pts, or1.pts) {\n					or2.owner = or1\n				} else {\n					or2.owner = or1.owner\n				}")],
 "E21-fresh-pathOut-make": [("offset.go", "	for _, p := range group.inPaths {\n		co.pathOut = Path64{}", "	for _, p := range group.inPaths {\n		co.pathOut = make(Path64, 0, 8)")],
 "E22-named-args-InflatePaths64": [("offset.go", "	co := NewClipperOffset(cfg.miterLimit, cfg.arcTolerance, false, false)\n	co.AddPaths(paths, joinType, endType)\n	solution := make(Paths64, 0)", "	ml, at := cfg.miterLimit, cfg.arcTolerance\n	co := NewClipperOffset(ml, at, false, false)\n	co.AddPaths(paths, joinType, endType)\n	solution := make(Paths64, 0)")],
 "E23-hasOpenPaths-or-assign": [("clipper_base.go", "	if isOpen {\n		c.hasOpenPaths = true\n	}\n\n	c.isSortedMinimaList = false", "	c.isSortedMinimaList = false\n	if isOpen {\n		c.hasOpenPaths = true\n	}\n")],
 "E24-GetBounds64-len-guard": [("clipper.go", "func GetBounds64(path Path64) Rect64 {\n	result := NewRect64Invalid(false)", "func GetBounds64(path Path64) Rect64 {\n	if len(path) == 0 {\n		return Rect64{}\n	}\n	result := NewRect64Invalid(false)")],
 "E25-vertex-filter-continue-form": [("engine.go", "			if v0 == nil {\n				v0 = vertexList.Add(pt, None, nil)\n				prevV = v0\n			} else if prevV.pt != pt {\n				currV := vertexList.Add(pt, None, prevV)\n				prevV.next = currV\n				prevV = currV\n			}",
   "			if v0 == nil {\n				v0 = vertexList.Add(pt, None, nil)\n				prevV = v0\n				continue\n			}\n			if prevV.pt != pt {\n				currV := vertexList.Add(pt, None, prevV)\n				prevV.next = currV\n				prevV = currV\n			}")],
 "E26-Inside-arm-case-order": [("rect_clip.go", "			case path[*i].X < r.rect.left:\n				*loc = Left\n			case path[*i].X > r.rect.right:\n				*loc = Right\n			case path[*i].Y > r.rect.bottom:\n				*loc = Bottom\n			case path[*i].Y < r.rect.top:\n				*loc = Top",
   "			case path[*i].X > r.rect.right:\n				*loc = Right\n			case path[*i].X < r.rect.left:\n				*loc = Left\n			case path[*i].Y < r.rect.top:\n				*loc = Top\n			case path[*i].Y > r.rect.bottom:\n				*loc = Bottom")],
 "E27-buildTree-range-free-while": [("clipper_base.go", "	i := 0\n	for i < len(c.outrecList) {\n		outrec := c.outrecList[i]\n		i++\n		if outrec.pts == nil {\n			continue\n		}\n\n		if outrec.isOpen {\n			openPath := make(Path64, 0)",
   "	for i := 0; i < len(c.outrecList); i++ {\n		outrec := c.outrecList[i]\n		if outrec.pts == nil {\n			continue\n		}\n\n		if outrec.isOpen {\n			openPath := make(Path64, 0)")],
 "E28-resetHorzDirection-named-results": [("clipper_base.go", "		leftX, rightX, isLeftToRight = resetHorzDirection(horz, vertexMax)\n	}", "		l2, r2, ltr := resetHorzDirection(horz, vertexMax)\n		leftX, rightX, isLeftToRight = l2, r2, ltr\n	}")],
 "E29-quantiser-preallocated-result-name": [("clipper.go", "func ScalePathDToPath64(path PathD, scale float64) Path64 {\n	result := make(Path64, len(path))", "func ScalePathDToPath64(path PathD, scale float64) Path64 {\n	n := len(path)\n	result := make(Path64, n)")],
 "E30-intersectEdges-difference-demorgan": [("clipper_base.go", "			if (getPolyType(ae1) == Clip && e1Wc2 > 0 && e2Wc2 > 0) ||\n				(getPolyType(ae1) == Subject && e1Wc2 <= 0 && e2Wc2 <= 0) {\n				c.addLocalMinPoly(ae1, ae2, pt, false)\n			}",
   "			isClipEdge := getPolyType(ae1) == Clip\n			if (isClipEdge && e1Wc2 > 0 && e2Wc2 > 0) ||\n				(!isClipEdge && !(e1Wc2 > 0) && !(e2Wc2 > 0)) {\n				c.addLocalMinPoly(ae1, ae2, pt, false)\n			}")],
 # parameter / local renames inside one function: ("@rename", file, function header prefix, {old: new})
 "E31-rename-params-intersectEdges": [("@rename", "clipper_base.go", "func (c *clipperBase) intersectEdges(", {"ae1": "eA", "ae2": "eB", "pt": "where"})],
 "E32-rename-param-doHorizontal": [("@rename", "clipper_base.go", "func (c *clipperBase) doHorizontal(", {"horz": "hz", "ae": "cursor"})],
 "E33-rename-params-buildPath": [("@rename", "clipper_base.go", "func (c *clipperBase) buildPath(", {"op": "start", "isOpen": "open", "path": "dst", "reverse": "rev"})],
 "E34-rename-params-wrappers": [("@rename", "clipper64.go", "func DifferenceWithClipPaths64(", {"subject": "a", "clip": "b", "fillRule": "fr"}),
   ("@rename", "clipper64.go", "func BooleanOpPaths64(", {"subject": "a", "clip": "b", "fillRule": "fr", "clipType": "ct"}),
   ("@rename", "clipperd.go", "func XorWithClipPathsD(", {"subject": "a", "clip": "b", "fillRule": "fr"})],
 "E35-rename-minkowski-names": [("@rename", "minkowski.go", "func minkowskiInternal(", {"pattern": "shape", "path": "track", "isSum": "add", "isClosed": "closed", "pathPt": "tp", "basePt": "sp", "delta": "step", "g": "prevIdx"}),
   ("@rename", "minkowski.go", "func MinkowskiSum64(", {"pattern": "shape", "path": "track", "isClosed": "closed"})],
 "E36-rename-sort-closure-params": [("@rename", "clipper_base.go", "func (c *clipperBase) processIntersectList(", {"i": "p", "j": "q"}), ("@rename", "clipper_base.go", "func (c *clipperBase) reset(", {"i": "p", "j": "q"})],
 "E37-rename-setWindCount-locals": [("@rename", "clipper_base.go", "func (c *clipperBase) setWindCountForClosedPathEdge(", {"ae2": "scan", "ae": "edge"}),
   ("@rename", "clipper_base.go", "func (c *clipperBase) setWindCountForOpenPathEdge(", {"ae2": "scan", "ae": "edge", "cnt1": "nSubj", "cnt2": "nClip"})],
 "E38-rename-params-TrimCollinear-Simplify": [("@rename", "clipper.go", "func TrimCollinear64(", {"path": "in", "isOpen": "open"}),
   ("@rename", "clipper.go", "func SimplifyPath64(", {"path": "in", "epsilon": "eps", "isClosedPath": "closed"})],
 "E39-rename-params-offsetPoint": [("@rename", "offset.go", "func (co *ClipperOffset) offsetPoint(", {"group": "grp", "path": "in", "j": "cur", "k": "prev"}),
   ("@rename", "offset.go", "func (co *ClipperOffset) offsetOpenPath(", {"group": "grp", "path": "in"})],
 "E40-rename-params-localMaxPoly-InflatePathsD": [("@rename", "clipper_base.go", "func (c *clipperBase) addLocalMaxPoly(", {"ae1": "eA", "ae2": "eB", "pt": "where"}),
   ("@rename", "offset.go", "func InflatePathsD(", {"delta": "dist", "paths": "in"})],
 # limb helpers rewritten with other correct idioms
 "E41-multiplyUInt64-via-bits": [("internal_clipper.go", "	x1 := (a & 0xFFFFFFFF) * (b & 0xFFFFFFFF)\n	x2 := (a>>32)*(b&0xFFFFFFFF) + (x1 >> 32)\n	x3 := (a&0xFFFFFFFF)*(b>>32) + (x2 & 0xFFFFFFFF)\n	var result UInt128Struct\n	result.Lo64 = ((x3 & 0xFFFFFFFF) << 32) | (x1 & 0xFFFFFFFF)\n	result.Hi64 = (a>>32)*(b>>32) + (x2 >> 32) + (x3 >> 32)\n	return result",
   "	hi, lo := bits.Mul64(a, b)\n	return UInt128Struct{Lo64: lo, Hi64: hi}")],
 "E42-int128-add-compare-carry": [("internal_clipper.go", "	lo, carry := bits.Add64(x.lo, y.lo, 0)\n	hi, _ := bits.Add64(uint64(x.hi), uint64(y.hi), carry)\n	return int128{hi: int64(hi), lo: lo}",
   "	lo := x.lo + y.lo\n	hi := uint64(x.hi) + uint64(y.hi)\n	if lo < x.lo {\n		hi++\n	}\n	return int128{hi: int64(hi), lo: lo}")],
 "E43-toFloat64-negate-through-sub": [("internal_clipper.go", "	hi, lo := uint64(x.hi), x.lo\n	neg := x.hi < 0\n	if neg {\n		lo = ^lo + 1\n		hi = ^hi\n		if lo == 0 {\n			hi++\n		}\n	}\n	f := float64(hi)*18446744073709551616.0 + float64(lo)\n	if neg {\n		return -f\n	}\n	return f",
   "	if x.hi < 0 {\n		n := int128{}.sub(x)\n		return -(float64(uint64(n.hi))*18446744073709551616.0 + float64(n.lo))\n	}\n	return float64(uint64(x.hi))*18446744073709551616.0 + float64(x.lo)")],
 "E44-mulInt64-sign-magnitude": [("internal_clipper.go", "	hi, lo := bits.Mul64(uint64(a), uint64(b))\n	if a < 0 {\n		hi -= uint64(b)\n	}\n	if b < 0 {\n		hi -= uint64(a)\n	}\n	return int128{hi: int64(hi), lo: lo}",
   "	ua, ub := uint64(a), uint64(b)\n	if a < 0 {\n		ua = -ua\n	}\n	if b < 0 {\n		ub = -ub\n	}\n	hi, lo := bits.Mul64(ua, ub)\n	if (a < 0) != (b < 0) {\n		lo = ^lo + 1\n		hi = ^hi\n		if lo == 0 {\n			hi++\n		}\n	}\n	return int128{hi: int64(hi), lo: lo}")],
 "E45-multiplyUInt64-other-carry-order": [("internal_clipper.go", "	x1 := (a & 0xFFFFFFFF) * (b & 0xFFFFFFFF)\n	x2 := (a>>32)*(b&0xFFFFFFFF) + (x1 >> 32)\n	x3 := (a&0xFFFFFFFF)*(b>>32) + (x2 & 0xFFFFFFFF)\n",
   "	aLo, aHi, bLo, bHi := a&0xFFFFFFFF, a>>32, b&0xFFFFFFFF, b>>32\n	x1 := aLo * bLo\n	x2 := aLo*bHi + (x1 >> 32)\n	x3 := aHi*bLo + (x2 & 0xFFFFFFFF)\n")],
 "E46-isZero-or-form-and-sub-borrow": [("internal_clipper.go", "	return x.hi == 0 && x.lo == 0", "	if x.lo != 0 {\n		return false\n	}\n	return x.hi == 0"),
   ("internal_clipper.go", "	lo, borrow := bits.Sub64(x.lo, y.lo, 0)\n	hi, _ := bits.Sub64(uint64(x.hi), uint64(y.hi), borrow)\n	return int128{hi: int64(hi), lo: lo}", "	lo, borrow := bits.Sub64(x.lo, y.lo, 0)\n	hi := uint64(x.hi) - uint64(y.hi) - borrow\n	return int128{hi: int64(hi), lo: lo}")],
 "E47-productsAreEqual-via-bits": [("internal_clipper.go", "	mulAB := multiplyUInt64(absA, absB)\n	mulCD := multiplyUInt64(absC, absD)\n", "	var mulAB, mulCD UInt128Struct\n	mulAB.Hi64, mulAB.Lo64 = bits.Mul64(absA, absB)\n	mulCD.Hi64, mulCD.Lo64 = bits.Mul64(absC, absD)\n")],
 "E48-hasOpenPaths-sticky-or": [("clipper_base.go", "	if isOpen {\n		c.hasOpenPaths = true\n	}\n\n	c.isSortedMinimaList = false", "	c.hasOpenPaths = c.hasOpenPaths || isOpen\n\n	c.isSortedMinimaList = false")],
 "E49-tidyEdgePair-old-owner-local": [("rect_clip.go", "			r.results[p2.ownerIdx] = nil\n			setNewOwner(p2, p1.ownerIdx)", "			oldOwner := p2.ownerIdx\n			setNewOwner(p2, p1.ownerIdx)\n			r.results[oldOwner] = nil")],
 "E50-inline-isJoined-updateEdgeIntoAEL": [("clipper_base.go", "	setDx(ae)\n\n	if isJoined(ae) {\n		c.split(ae, ae.bot)\n	}", "	setDx(ae)\n\n	if ae.joinWith != JoinNone {\n		c.split(ae, ae.bot)\n	}")],
 "E51-inline-helpers-getPrevHotEdge": [("engine.go", "	for prev != nil && (isOpen(prev) || !isHotEdge(prev)) {", "	for prev != nil && (prev.localMin.IsOpen || prev.outrec == nil) {")],
 "E52-inline-isHotEdge-intersectEdges": [("@rename-text", "clipper_base.go", "func (c *clipperBase) intersectEdges(", {"isHotEdge(ae1)": "(ae1.outrec != nil)", "isHotEdge(ae2)": "(ae2.outrec != nil)", "isJoined(ae1)": "(ae1.joinWith != JoinNone)", "isJoined(ae2)": "(ae2.joinWith != JoinNone)"})],
 "E53-inline-polytype-setWindCount": [("@rename-text", "clipper_base.go", "func (c *clipperBase) setWindCountForClosedPathEdge(", {"getPolyType(ae2) != pt": "ae2.localMin.PolyType != pt", "isOpen(ae2)": "ae2.localMin.IsOpen", "pt := getPolyType(ae)": "pt := ae.localMin.PolyType"})],
 "E54-inline-isOpen-buildTree-doHorizontal": [("@rename-text", "clipper_base.go", "func (c *clipperBase) insertLeftEdge(", {"ae2.joinWith == JoinRight": "JoinRight == ae2.joinWith"})],
 "E55-upstream-593-contracting-guard": [("offset.go", "	co.pathOut = Path64{}\n	cnt := len(path)\n	prev := cnt - 1", "	if a := Area64(path); (a < 0) != (co.groupDelta < 0) {\n		rec := getBounds(path)\n		offsetMinDim := math.Abs(co.groupDelta) * 2\n		if offsetMinDim > float64(rec.right-rec.left) || offsetMinDim > float64(rec.bottom-rec.top) {\n			return\n		}\n	}\n	co.pathOut = Path64{}\n	cnt := len(path)\n	prev := cnt - 1")],
 "E56-intersect-sort-as-SortFunc": [("clipper_base.go", "	sort.Slice(c.intersectList, func(i, j int) bool {\n		a, b := c.intersectList[i], c.intersectList[j]\n		if a.pt.Y != b.pt.Y {\n			return a.pt.Y > b.pt.Y\n		}\n		if a.pt.X == b.pt.X {\n			return false\n		}\n		return a.pt.X < b.pt.X\n	})",
   "	slices.SortFunc(c.intersectList, func(a, b *IntersectNode) int {\n		if a.pt.Y != b.pt.Y {\n			if a.pt.Y > b.pt.Y {\n				return -1\n			}\n			return 1\n		}\n		if a.pt.X == b.pt.X {\n			return 0\n		}\n		if a.pt.X < b.pt.X {\n			return -1\n		}\n		return 1\n	})")],
 "E57-minima-sort-as-SortFunc-cmp": [("clipper_base.go", "		sort.Slice(c.minimaList, func(i, j int) bool {\n			return c.minimaList[i].Vertex.pt.Y > c.minimaList[j].Vertex.pt.Y\n		})",
   "		slices.SortStableFunc(c.minimaList, func(a, b *LocalMinima) int {\n			return cmp.Compare(b.Vertex.pt.Y, a.Vertex.pt.Y)\n		})"), ("clipper_base.go", "import (\n	\"fmt\"", "import (\n	\"cmp\"\n	\"fmt\"")],
 # functions renamed everywhere ("@sed", {old: new}): whole-word replacement in every non-test .go file
 "E58-rename-func-doSplitOp": [("@sed", {"doSplitOp": "splitSelfTouchingRing"})],
 "E59-rename-funcs-helpers": [("@sed", {"isHotEdge": "producesOutput", "getPrevHotEdge": "prevOutputEdge", "updateEdgeIntoAEL": "advanceEdge"})],
 "E60-rename-funcs-offset-rect": [("@sed", {"offsetPolygon": "offsetClosedPath", "tidyEdgePair": "rejoinEdgePair", "minkowskiInternal": "minkowskiQuads", "multiplyUInt64": "mul64x64"})],
 "E61-rename-funcs-wind": [("@sed", {"setWindCountForClosedPathEdge": "setClosedWindCount", "intersectEdges": "crossEdges", "isContributingClosed": "contributesClosed"})],
 "E62-rename-field-windCount2": [("@sed", {"windCount2": "otherSetWind"})],
 "E63-rename-fields-offset-engine": [("@sed", {"pathOut": "scratchPath", "isSortedMinimaList": "minimaSorted", "joinWith": "joinedTo", "horzJoinList": "pendingHorzJoins", "groupDelta": "signedDelta"})],
 "E64-rename-fields-int128-outpt2": [("@sed", {"ownerIdx": "ringIdx", "leftToRight": "ltr", "stepSin": "arcSin", "stepsPerRad": "arcStepsPerRad"})],
 "E66-zero-horz-restated": [("engine.go", """	if horz.bot.X == horz.top.X {
		leftX = horz.curX
		rightX = horz.curX
		ae := horz.nextInAEL
		for ae != nil && ae.vertexTop != vertexMax {
			ae = ae.nextInAEL
		}
		return leftX, rightX, ae != nil
	}""", """	if horz.top.X == horz.bot.X {
		// zero-length horizontal: head towards the maxima pair
		pairOnRight := false
		for ae := horz.nextInAEL; ae != nil; ae = ae.nextInAEL {
			if ae.vertexTop == vertexMax {
				pairOnRight = true
				break
			}
		}
		return horz.curX, horz.curX, pairOnRight
	}""")],
 "E67-inside-arm-helper": [("rect_clip.go", """			switch {
			case path[*i].X < r.rect.left:
				*loc = Left
			case path[*i].X > r.rect.right:
				*loc = Right
			case path[*i].Y > r.rect.bottom:
				*loc = Bottom
			case path[*i].Y < r.rect.top:
				*loc = Top
			default:
				r.add(path[*i], false)
				*i++
				continue
			}
			break""", """			pt := path[*i]
			if r.rect.left > pt.X {
				*loc = Left
			} else if pt.X > r.rect.right {
				*loc = Right
			} else if !(pt.Y <= r.rect.bottom) {
				*loc = Bottom
			} else if pt.Y < r.rect.top {
				*loc = Top
			} else {
				r.add(pt, false)
				*i++
				continue
			}
			break""")],
 "E18-comment-and-blank-lines": [("rect_clip.go", "func (r *RectClip64) getNextLocation(path Path64, loc *Location, i *int, highI int) {\n	switch *loc {", "// getNextLocation advances i to the next vertex that leaves the current location.\nfunc (r *RectClip64) getNextLocation(path Path64, loc *Location, i *int, highI int) {\n\n	switch *loc {")],
}
def main():
    out = "/verif/equiv"
    os.makedirs(out, exist_ok=True)
    for name, edits in sorted(EDITS.items()):
        d = tempfile.mkdtemp(prefix="eq.")
        a, b = os.path.join(d, "a"), os.path.join(d, "b")
        os.makedirs(a); os.makedirs(b)
        if edits and edits[0][0] == "@sed":
            import glob
            files = sorted(os.path.basename(p) for p in glob.glob("/repo/*.go") if not p.endswith("_test.go"))
            for f in files:
                shutil.copy("/repo/" + f, a); shutil.copy("/repo/" + f, b)
            for f in files:
                s = open(os.path.join(b, f)).read()
                for o, n in edits[0][1].items():
                    s = re.sub(r"\b%s\b" % re.escape(o), n, s)
                open(os.path.join(b, f), "w").write(s)
            subprocess.run(["gofmt", "-w"] + [os.path.join(b, f) for f in files])
            p = subprocess.run(["diff", "-u", "-r", "a", "b"], cwd=d, capture_output=True, text=True)
            open(os.path.join(out, name + ".patch"), "w").write(p.stdout)
            print(name, "ok")
            shutil.rmtree(d)
            continue
        files = sorted(set((e[1] if e[0] in ("@rename", "@rename-text") else e[0]) for e in edits))
        for f in files:
            shutil.copy("/repo/" + f, a); shutil.copy("/repo/" + f, b)
        ok = True
        for e in edits:
            if e[0] == "@rename-text":
                _, f, hdr, ren = e
                s = open(os.path.join(b, f)).read()
                if s.count(hdr) != 1:
                    print(name, "FUNC NOT FOUND (count=%d) %s" % (s.count(hdr), hdr)); ok = False; break
                st = s.index(hdr); en = s.index("\n}\n", st) + 3
                body = s[st:en]
                for o, n in ren.items():
                    if o not in body:
                        print(name, "TEXT NOT FOUND %s" % o); ok = False
                    body = body.replace(o, n)
                open(os.path.join(b, f), "w").write(s[:st] + body + s[en:])
                continue
            if e[0] == "@rename":
                _, f, hdr, ren = e
                s = open(os.path.join(b, f)).read()
                if s.count(hdr) != 1:
                    print(name, "FUNC NOT FOUND (count=%d) %s" % (s.count(hdr), hdr)); ok = False; break
                st = s.index(hdr); en = s.index("\n}\n", st) + 3
                body = s[st:en]
                for o, n in ren.items():
                    if re.search(r"\b%s\b" % re.escape(n), body):
                        print(name, "NEW NAME %s ALREADY USED in %s" % (n, hdr)); ok = False
                    # not after a '.', so fields/methods of the same name stay
                    body = re.sub(r"(?<![.\w])%s\b" % re.escape(o), n, body)
                open(os.path.join(b, f), "w").write(s[:st] + body + s[en:])
                continue
            f, old, new = e
            s = open(os.path.join(b, f)).read()
            if s.count(old) != 1:
                print(name, "ANCHOR NOT FOUND (count=%d) in %s" % (s.count(old), f)); ok = False; break
            open(os.path.join(b, f), "w").write(s.replace(old, new))
        if ok:
            subprocess.run(["gofmt", "-w"] + [os.path.join(b, f) for f in files])
            p = subprocess.run(["diff", "-u", "-r", "a", "b"], cwd=d, capture_output=True, text=True)
            open(os.path.join(out, name + ".patch"), "w").write(p.stdout)
            print(name, "ok")
        shutil.rmtree(d)
main()
