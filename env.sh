# source this: toolchain environment for building/running the checker offline
export PATH=/opt/veriftools/go1.26.8/bin:$PATH
export GOTOOLCHAIN=local GOFLAGS=-mod=mod GOPROXY=off
unset GOWORK
