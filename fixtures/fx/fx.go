// Package fx holds tiny positive/negative controls for the checker's detectors: every run analyses this
// package too and requires each detector to fire on the Bad* function and stay silent on the Good* one.
package fx

import (
	"math"
	"sort"
)

type node struct {
	next, prev *node
	v          int64
}

type P struct{ X, Y int64 }

// ---- RING
func BadRing(op *node) int64 {
	var s int64
	op2 := op
	for {
		s += op2.v
		op2 = op2.next
		if op2 != op { // leaves after one node
			break
		}
	}
	return s
}

func GoodRing(op *node) int64 {
	var s int64
	op2 := op
	for {
		s += op2.v
		op2 = op2.next
		if op2 == op {
			break
		}
	}
	return s
}

// ---- DEAD
func mech(x int) int { return x + 1 }

func BadDead(x int) int {
	var delta float64
	if math.Abs(delta) < 1e-12 {
		return x
	}
	return mech(x)
}

func GoodDead(x int, delta float64) int {
	if math.Abs(delta) < 1e-12 {
		return x
	}
	return mech(x)
}

// ---- OWN
func BadWriteInput(path []P) []P {
	if len(path) > 1 {
		path[0], path[1] = path[1], path[0]
	}
	return path
}

func BadSortInput(path []int64) {
	sort.Slice(path, func(i, j int) bool { return path[i] < path[j] })
}

func GoodCopyInput(path []P) []P {
	out := make([]P, len(path))
	copy(out, path)
	if len(out) > 1 {
		out[0], out[1] = out[1], out[0]
	}
	return out
}

var scratch []P

func BadGlobal(p P) {
	scratch = append(scratch, p)
}

// ---- WIDTH
func BadCross(a, b, c P) int64 {
	return (b.X-a.X)*(c.Y-b.Y) - (b.Y-a.Y)*(c.X-b.X)
}

func GoodDiff(a, b P) int64 {
	return (b.X - a.X) + (b.Y - a.Y)
}

func BadRoundTrip(a int64) uint64 {
	return uint64(math.Abs(float64(a)))
}

func BadFloatCross(a, b, c P) float64 {
	return float64(b.X-a.X)*float64(c.Y-b.Y) - float64(b.Y-a.Y)*float64(c.X-b.X)
}

// ---- forbidden constructs
func BadMapRange(m map[int]int) int {
	s := 0
	for k := range m {
		s = s*31 + k
	}
	return s
}

func BadGo(ch chan int) {
	go func() { ch <- 1 }()
}

// ---- GUARD
func BadMake(n, m int) []P {
	return make([]P, 0, (n-1)*m)
}

func GoodMake(xs []P) []P {
	return make([]P, 0, len(xs)*2)
}

func BadDiv(a, b int) int { return a / b }

type eng struct {
	flag bool
	list []int
}

func (e *eng) BadMustStore(x int) {
	if x == 0 {
		return
	}
	e.flag = true
}

func (e *eng) GoodMustStore(x int) {
	if x == 0 {
		e.flag = true
		return
	}
	e.flag = true
}

// LIMB controls: a schoolbook 64x64->128 multiplication with the carry of the wrong word, and the right one.
type U128 struct {
	Lo, Hi uint64
}

func BadMul64(a, b uint64) U128 {
	x1 := (a & 0xFFFFFFFF) * (b & 0xFFFFFFFF)
	x2 := (a>>32)*(b&0xFFFFFFFF) + (x1 >> 32)
	x3 := (a&0xFFFFFFFF)*(b>>32) + (x2 & 0xFFFFFFFF)
	return U128{Lo: ((x3 & 0xFFFFFFFF) << 32) | (x1 & 0xFFFFFFFF), Hi: (a>>32)*(b>>32) + (x1 >> 32) + (x3 >> 32)}
}

func GoodMul64(a, b uint64) U128 {
	x1 := (a & 0xFFFFFFFF) * (b & 0xFFFFFFFF)
	x2 := (a>>32)*(b&0xFFFFFFFF) + (x1 >> 32)
	x3 := (a&0xFFFFFFFF)*(b>>32) + (x2 & 0xFFFFFFFF)
	return U128{Lo: ((x3 & 0xFFFFFFFF) << 32) | (x1 & 0xFFFFFFFF), Hi: (a>>32)*(b>>32) + (x2 >> 32) + (x3 >> 32)}
}

// a 64-bit product that may wrap, compared (the shortcut in front of the 128-bit path)
func BadProdEq(a, b, c, d uint64) bool {
	return a*b == c*d
}
