module fx

go 1.25
